"""Theory VS: abstract real inner-product space decided by normal forms.

A vector is a finite linear combination {atom: z3 real coefficient}; atoms are
('v', name) or ('app', opname, atom).  Linear operators distribute over the
combination.  vdot expands bilinearly into *Gram atoms* G[key], canonicalised
under symmetry of the inner product and declared self-adjointness:
    <A1 A2 x, B1 B2 y> = <x, A2 A1 B1 B2 y>          (A_i, B_i self-adjoint)
    <x, W y> = <y, rev(W) x>
Every <v,v> that is formed adds the ground fact <v,v> >= 0 to the path
condition.  Vector equality is coefficient-wise validity.  All obligations end
up quantifier-free over the reals.

Complex fields are treated as real spaces with <a,b> := Re<a,b> (the code under
contract takes `.real` of every inner product it uses).
"""
import z3

from .symx import Ctx, SymBool, SymInt, SymReal, _frac, tobool


def R(x):
    if isinstance(x, SymReal):
        return x.t
    if isinstance(x, SymInt):
        return z3.ToReal(x.t)
    if isinstance(x, bool):
        return z3.RealVal(int(x))
    if isinstance(x, int):
        return z3.RealVal(x)
    if isinstance(x, float):
        return _frac(x)
    if isinstance(x, z3.ArithRef):
        return x if x.sort() == z3.RealSort() else z3.ToReal(x)
    try:
        import numpy as np
        if isinstance(x, np.floating):
            return _frac(float(x))
        if isinstance(x, np.integer):
            return z3.RealVal(int(x))
    except ImportError:
        pass
    raise TypeError(f"not a real scalar: {type(x)}")


class Space:
    def __init__(self, selfadjoint=(), name="G"):
        self.selfadjoint = set(selfadjoint)
        self.gram = {}
        self.name = name

    def _peel(self, x):
        ops = []
        while x[0] == "app":
            if x[1] not in self.selfadjoint:
                break
            ops.append(x[1])
            x = x[2]
        return ops, x

    def G(self, a, b):
        oa, ba = self._peel(a)
        ob, bb = self._peel(b)
        # <oa.. ba, ob.. bb> = <ba, rev(oa) ob bb>
        w = tuple(reversed(oa)) + tuple(ob)
        k1 = (repr(ba), w, repr(bb))
        k2 = (repr(bb), tuple(reversed(w)), repr(ba))
        key = min(k1, k2)
        if key not in self.gram:
            self.gram[key] = z3.Real(f"{self.name}{len(self.gram)}<{key[0]}|{'.'.join(key[1])}|{key[2]}>")
        return self.gram[key]

    def zero(self):
        return Vec(self, {})

    def atom(self, name):
        return Vec(self, {("v", name): z3.RealVal(1)})

    def fresh(self, name):
        return self.atom(f"{name}!{next(Ctx.cur.fresh)}")


_ZERO = z3.RealVal(0)


class Vec:
    """element of the abstract space; supports the Field / pytree-Vector protocol
    that the solvers use (+, -, scalar *, /, s_vdot, vdot, norm, conjugate, real)."""

    domain = "DOM"   # opaque token: all vectors of one Space live on one domain

    def __init__(self, sp, comb):
        self.sp = sp
        self.c = {}
        for a, v in comb.items():
            v = z3.simplify(v)
            if not (z3.is_rational_value(v) and v.numerator_as_long() == 0):
                self.c[a] = v

    def _lin(self, o, so, oo):
        if not isinstance(o, Vec):
            return NotImplemented
        c = {a: so * v for a, v in self.c.items()}
        for a, v in o.c.items():
            c[a] = c.get(a, _ZERO) + oo * v
        return Vec(self.sp, c)

    def __add__(self, o):
        if isinstance(o, (int, float)) and o == 0:
            return self
        return self._lin(o, 1, 1)

    __radd__ = __add__

    def __sub__(self, o):
        return self._lin(o, 1, -1)

    def __rsub__(self, o):
        if isinstance(o, (int, float)) and o == 0:
            return -self
        return NotImplemented

    def __neg__(self):
        return Vec(self.sp, {a: -v for a, v in self.c.items()})

    def __pos__(self):
        return self

    def __mul__(self, s):
        if isinstance(s, Vec):
            return NotImplemented
        try:
            r = R(s)
        except TypeError:
            return NotImplemented
        return Vec(self.sp, {a: v * r for a, v in self.c.items()})

    __rmul__ = __mul__

    def __truediv__(self, s):
        try:
            r = R(s)
        except TypeError:
            return NotImplemented
        return Vec(self.sp, {a: v / r for a, v in self.c.items()})

    def s_vdot(self, o):
        t = _ZERO
        for a, va in self.c.items():
            for b, vb in o.c.items():
                t = t + va * vb * self.sp.G(a, b)
        t = z3.simplify(t)
        if o is self or self._same(o):
            Ctx.cur.assume(SymBool(t >= 0))  # instance of <v,v> >= 0
        return Scalar(t)

    vdot = s_vdot

    def _same(self, o):
        if set(self.c) != set(o.c):
            return False
        return all(z3.eq(self.c[k], o.c[k]) for k in self.c)

    def norm(self, ord=None):
        n2 = self.s_vdot(self)
        r = SymReal(z3.Real(f"norm!{next(Ctx.cur.fresh)}"))
        Ctx.cur.assume((r >= 0) & (r * r == n2))
        return r

    def conjugate(self):
        return self

    conj = conjugate

    @property
    def real(self):
        return self

    def eq(self, o):
        keys = set(self.c) | set(o.c)
        if not keys:
            return SymBool(z3.BoolVal(True))
        return SymBool(z3.And(*[self.c.get(k, _ZERO) == o.c.get(k, _ZERO) for k in keys]))

    def is_zero(self):
        return self.eq(Vec(self.sp, {}))

    def __repr__(self):
        return "Vec(" + " + ".join(f"({v})*{a}" for a, v in self.c.items()) + ")"


class Scalar(SymReal):
    __slots__ = ()

    @property
    def real(self):
        return SymReal(self.t)

    def conjugate(self):
        return self


class LinOp:
    """abstract linear operator; application creates ('app', name, atom) atoms"""

    def __init__(self, name):
        self.name = name

    def __call__(self, v):
        return Vec(v.sp, {("app", self.name, a): c for a, c in v.c.items()})

    times = __call__


class VecFun:
    """Uninterpreted function of a vector (objective f, gradient, Hessian at a point ...).
    Congruence is by construction: an application to an argument that equals an earlier
    argument returns the earlier value.  Whether two arguments are equal is asked through
    the ordinary fork mechanism (`if u.eq(v)`), so it is forced where the path condition
    decides it and forks where it does not."""

    def __init__(self, name, mk):
        self.name, self.mk, self.apps = name, mk, []
        self._ctx = None

    def __call__(self, v):
        if self._ctx is not Ctx.cur:        # fresh table per explored path
            self._ctx, self.apps = Ctx.cur, []
        for u, val in self.apps:
            if u._same(v) or bool(u.eq(v)):
                return val
        val = self.mk(f"{self.name}{len(self.apps)}")
        self.apps.append((v, val))
        return val


def vite(c, a, b):
    """coefficient-wise if-then-else on vectors (meaning of jnp.where on a tree)"""
    ct = tobool(c)
    keys = set(a.c) | set(b.c)
    return Vec(a.sp, {k: z3.If(ct, a.c.get(k, _ZERO), b.c.get(k, _ZERO)) for k in keys})
