"""Engine S ("symx"): CPython-hosted symbolic execution of re-compiled real source.

The real function is fetched with inspect.getsource from the working tree named
by VERIF_REPO (default /repo), transformed by the loop cutter (sidecar
invariants, keyed by loop ordinal), re-compiled and executed by CPython itself
on symbolic values (thin wrappers over z3 terms).  Forking is by re-execution:
SymBool.__bool__ asks the solver whether both outcomes are feasible under the
path condition, takes one and queues the decision prefix of the other.

Nothing here knows about NIFTy.  See DESIGN.md section 2.1.
"""
import ast
import copy
import hashlib
import inspect
import itertools
import textwrap
import time

import z3

Z3_TIMEOUT_MS = 20000


class PathEnd(BaseException):    # BaseException: code under contract may catch Exception
    """Ends the current path without an outcome (infeasible, cut point reached)."""


class EngineLimit(BaseException):
    """The engine cannot continue (path budget, unsupported construct)."""


class Ob:
    __slots__ = ("label", "status", "model", "detail", "path", "dt", "backend", "model_obj")

    def __init__(self, label, status, model=None, detail="", path=None, dt=0.0, backend="z3", model_obj=None):
        self.label, self.status, self.model, self.detail = label, status, model, detail
        self.path, self.dt, self.backend, self.model_obj = path, dt, backend, model_obj


def _model_dict(m):
    out = {}
    if m is None:
        return out
    for d in m.decls():
        try:
            out[d.name()] = str(m[d])
        except Exception:  # function interpretations
            out[d.name()] = "<fun>"
    return out


class Ctx:
    cur = None
    solver_time = 0.0
    solver_calls = 0

    def __init__(self, prefix=(), pending=None):
        self.pc = []
        self.prefix = list(prefix)
        self.taken = []
        self.pending = pending if pending is not None else []
        self.obligations = []
        self.fresh = itertools.count()
        self.covers = set()
        self.notes = []

    # -- solver ------------------------------------------------------------
    def sat(self, *extra, timeout=None):
        s = z3.Solver()
        s.set("timeout", timeout or Z3_TIMEOUT_MS)
        # the path condition is kept as one nested conjunction (adding n assertions one by one
        # through the Python API dominated the run time)
        n = getattr(self, "_conj_n", 0)
        if n > len(self.pc):
            n, self._conj = 0, None
        for c in self.pc[n:]:
            self._conj = c if getattr(self, "_conj", None) is None else z3.And(self._conj, c)
        self._conj_n = len(self.pc)
        if getattr(self, "_conj", None) is not None:
            s.add(self._conj)
        s.add(*extra)
        t0 = time.time()
        r = s.check()
        dt = time.time() - t0
        Ctx.solver_time += dt
        Ctx.solver_calls += 1
        return r, (s.model() if r == z3.sat else None), dt

    def branch(self, cond):
        cond = z3.simplify(cond)
        if z3.is_true(cond):
            return True
        if z3.is_false(cond):
            return False
        i = len(self.taken)
        if i < len(self.prefix):
            d = self.prefix[i]
        else:
            rt, _, _ = self.sat(cond, timeout=5000)
            # if cond is impossible the path continues with not(cond); should the path itself be
            # infeasible, everything proved on it is vacuous (harmless), so no second query
            rf = z3.sat if rt == z3.unsat else self.sat(z3.Not(cond), timeout=5000)[0]
            if rt == z3.unsat:
                d = False
            elif rf == z3.unsat:
                d = True
            else:
                d = True
                self.pending.append(self.taken + [False])
        self.taken.append(d)
        self.pc.append(cond if d else z3.Not(cond))
        return d

    def assume(self, cond):
        cond = unwrap(cond)
        if cond is True:
            return
        if cond is False:
            raise PathEnd("assume false")
        self.pc.append(cond)

    def cover(self, name):
        self.covers.add(name)

    def _decide(self, goal):
        """validity of `goal` under the path condition: ('unsat'|'sat'|'unknown', model, dt, backend)"""
        neg = z3.Not(goal)
        if getattr(self, "prefer_cancel", False):
            # contracts whose obligations are big rational-function identities ask for the algebraic back end first
            t0 = time.time()
            try:
                from . import ratid
                ok, dens = ratid.identity(goal)
                if ok and all(self.sat(d == 0, timeout=5000)[0] == z3.unsat for d in dens):
                    return z3.unsat, None, time.time() - t0, "sympy-cancel"
            except Exception:  # noqa: BLE001
                pass
        r, m, dt = self.sat(neg, timeout=3000)
        if r != z3.unknown:
            return r, m, dt, "z3"
        # identity between rational functions: sympy cancels it; each denominator must be non-zero (z3, linear)
        t0 = time.time()
        try:
            from . import ratid
            ok, dens = ratid.identity(goal)
            if ok and all(self.sat(d == 0, timeout=5000)[0] == z3.unsat for d in dens):
                return z3.unsat, None, dt + time.time() - t0, "sympy-cancel"
        except Exception:  # noqa: BLE001 - the fallback below still decides
            pass
        r, m, dt2 = self.sat(neg, timeout=12000)
        dt += dt2 + time.time() - t0
        if r != z3.unknown:
            return r, m, dt, "z3"
        # unstable nonlinear queries: other seeds / the nlsat tactic / cvc5, before giving up
        t0 = time.time()
        for seed in (7, 31):
            s = z3.Solver()
            s.set("timeout", 8000)
            s.set("random_seed", seed)
            s.add(*self.pc)
            s.add(neg)
            r = s.check()
            if r != z3.unknown:
                return r, (s.model() if r == z3.sat else None), dt + time.time() - t0, "z3"
        try:
            tac = z3.TryFor(z3.Then("simplify", "solve-eqs", "qfnra-nlsat"), 15000)
            g = z3.Goal()
            g.add(*self.pc)
            g.add(neg)
            res = tac(g)
            if len(res) == 1 and res[0].inconsistent():
                return z3.unsat, None, dt + time.time() - t0, "z3-nlsat"
        except z3.Z3Exception:
            pass
        r2 = _cvc5_retry(self.pc + [neg])
        if r2 == "unsat":
            return z3.unsat, None, dt + time.time() - t0, "cvc5"
        return z3.unknown, None, dt + time.time() - t0, "z3"

    def prove(self, cond, label, detail=""):
        cond = unwrap(cond)
        path = tuple(self.taken)
        if cond is True:
            self.obligations.append(Ob(label, "discharged", path=path, backend="trivial"))
            return True
        if cond is False:
            cond = z3.BoolVal(False)
        # a conjunction is proved conjunct by conjunct (smaller, more stable queries)
        parts = list(cond.children()) if z3.is_and(cond) else [cond]
        status, model, tot, backend = "discharged", None, 0.0, "z3"
        for part in parts:
            r, m, dt, be = self._decide(part)
            tot += dt
            if be != "z3":
                backend = be
            if r == z3.sat:
                status, model = "refuted", m
                break
            if r != z3.unsat:
                status = "undecided"
            self.pc.append(part)
        if status == "discharged":
            self.obligations.append(Ob(label, "discharged", path=path, dt=tot, backend=backend))
        elif status == "refuted":
            self.obligations.append(Ob(label, "refuted", _model_dict(model), detail, path, tot, model_obj=model))
        else:
            self.obligations.append(Ob(label, "undecided", None, "solver: unknown", path, tot))
        # continue under the assumption that it holds (avoids cascades)
        self.pc.append(cond)
        return status == "discharged"


class ReplayCtx(Ctx):
    """Follows ONE solver model through the real code: every branch and every
    obligation is evaluated under the model (exact rational arithmetic), so the
    run is a concrete execution of the code on the counterexample's input."""

    def __init__(self, model):
        super().__init__()
        self.m = model
        self.failed = []
        self.evaluated = 0

    def _ev(self, cond):
        v = self.m.eval(cond, model_completion=True)
        v = z3.simplify(v)
        if z3.is_true(v):
            return True
        if z3.is_false(v):
            return False
        # quantified or non-ground residue: ask the solver under the model's equalities
        s = z3.Solver()
        s.set("timeout", 5000)
        for d in self.m.decls():
            if d.arity() == 0:
                s.add(d() == self.m[d])
        s.add(cond)
        r = s.check()
        if r == z3.sat:
            return True
        if r == z3.unsat:
            return False
        raise EngineLimit("replay: condition not evaluable under the model")

    def branch(self, cond):
        d = self._ev(cond)
        self.taken.append(d)
        return d

    def assume(self, cond):
        cond = unwrap(cond)
        if cond is True:
            return
        if cond is False or not self._ev(cond):
            raise PathEnd("replay: assumption false under the model (other path)")

    def prove(self, cond, label, detail=""):
        cond = unwrap(cond)
        self.evaluated += 1
        ok = cond if isinstance(cond, bool) else self._ev(cond)
        if not ok:
            self.failed.append(label)
        return ok


def replay_model(run, model_obj, allowed_raises=()):
    """re-run `run` along the model; returns dict(reproduced, failed, inputs, end)"""
    ctx = ReplayCtx(model_obj)
    Ctx.cur = ctx
    end = "return"
    try:
        run(ctx)
    except PathEnd as e:
        end = f"pathend:{e}"
    except allowed_raises as e:
        end = f"raises:{type(e).__name__}"
    except Exception as e:  # noqa: BLE001
        end = f"error:{type(e).__name__}:{e}"
    finally:
        Ctx.cur = None
    return dict(failed=ctx.failed, end=end, decisions=ctx.taken, evaluated=ctx.evaluated)


def _cvc5_retry(assertions, timeout_s=20):
    """Second opinion for z3 'unknown': dump SMT-LIB and ask /usr/bin/cvc5."""
    import subprocess
    import tempfile
    import os
    try:
        s = z3.Solver()
        s.add(*assertions)
        smt = s.to_smt2()
        with tempfile.NamedTemporaryFile("w", suffix=".smt2", delete=False) as f:
            f.write("(set-logic ALL)\n" + smt)
            fn = f.name
        try:
            out = subprocess.run(["/usr/bin/cvc5", "--nl-cov", f"--tlimit={timeout_s*1000}", fn],
                                 capture_output=True, text=True, timeout=timeout_s + 5).stdout.strip()
        finally:
            os.unlink(fn)
        return out.split("\n")[0] if out else "unknown"
    except Exception:
        return "unknown"


# --------------------------------------------------------------------- values
def unwrap(x):
    if isinstance(x, (SymInt, SymBool, SymReal)):
        return x.t
    if isinstance(x, bool):
        return x
    return x


class SymBool:
    __slots__ = ("t",)

    def __init__(self, t):
        self.t = t

    def __bool__(self):
        return Ctx.cur.branch(self.t)

    def __and__(self, o):
        return SymBool(z3.And(self.t, tobool(o)))

    def __or__(self, o):
        return SymBool(z3.Or(self.t, tobool(o)))

    def __xor__(self, o):
        return SymBool(z3.Xor(self.t, tobool(o)))

    def __invert__(self):
        return SymBool(z3.Not(self.t))

    __rand__ = __and__
    __ror__ = __or__
    __rxor__ = __xor__

    # bool is an int in Python: True + 1 == 2
    def _int(self):
        return SymInt(z3.If(self.t, z3.IntVal(1), z3.IntVal(0)))

    def __add__(self, o):
        return self._int() + o

    def __radd__(self, o):
        return o + self._int()

    def __mul__(self, o):
        return self._int() * o

    def __rmul__(self, o):
        return o * self._int()

    def __eq__(self, o):
        return SymBool(self.t == tobool(o))

    def __ne__(self, o):
        return SymBool(self.t != tobool(o))

    __hash__ = None

    def __repr__(self):
        return f"SymBool({self.t})"


def tobool(o):
    if isinstance(o, SymBool):
        return o.t
    if isinstance(o, z3.BoolRef):
        return o
    return z3.BoolVal(bool(o))


def implies(a, b):
    return SymBool(z3.Implies(tobool(a), tobool(b)))


def sand(*xs):
    return SymBool(z3.And(*[tobool(x) for x in xs]))


def sor(*xs):
    return SymBool(z3.Or(*[tobool(x) for x in xs]))


def snot(x):
    return SymBool(z3.Not(tobool(x)))


def _frac(o):
    """exact rational of a python float (floats are dyadic rationals)"""
    from fractions import Fraction
    f = Fraction(o)
    return z3.RealVal(f"{f.numerator}/{f.denominator}")


class _Arith:
    __slots__ = ("t",)
    dtype = None     # `x.dtype` is only ever passed on to re-bound array constructors

    def __init__(self, t):
        self.t = t

    def _co(self, o):
        if isinstance(o, _Arith):
            return o.t
        if isinstance(o, SymBool):
            return z3.If(o.t, z3.IntVal(1), z3.IntVal(0))
        if isinstance(o, bool):
            return z3.IntVal(int(o))
        if isinstance(o, int):
            return z3.IntVal(o)
        if isinstance(o, float):
            if o != o or o in (float("inf"), float("-inf")):
                return NotImplemented
            return _frac(o)
        try:
            import numpy as np
            if isinstance(o, np.integer):
                return z3.IntVal(int(o))
            if isinstance(o, np.floating):
                return _frac(float(o))
        except ImportError:
            pass
        return NotImplemented

    @staticmethod
    def _lift(a, b):
        if a.sort() == b.sort():
            return a, b
        if a.sort() == z3.IntSort():
            a = z3.ToReal(a)
        if b.sort() == z3.IntSort():
            b = z3.ToReal(b)
        return a, b

    def _bin(self, o, f):
        c = self._co(o)
        if c is NotImplemented:
            return NotImplemented
        a, b = self._lift(self.t, c)
        r = f(a, b)
        return SymReal(r) if r.sort() == z3.RealSort() else SymInt(r)

    def _cmp(self, o, f):
        c = self._co(o)
        if c is NotImplemented:
            return NotImplemented
        a, b = self._lift(self.t, c)
        return SymBool(f(a, b))

    def __add__(self, o): return self._bin(o, lambda a, b: a + b)
    def __radd__(self, o): return self._bin(o, lambda a, b: b + a)
    def __sub__(self, o): return self._bin(o, lambda a, b: a - b)
    def __rsub__(self, o): return self._bin(o, lambda a, b: b - a)
    def __mul__(self, o): return self._bin(o, lambda a, b: a * b)
    def __rmul__(self, o): return self._bin(o, lambda a, b: b * a)
    def __neg__(self): return type(self)(-self.t)
    def __pos__(self): return self
    def __abs__(self): return type(self)(z3.If(self.t >= 0, self.t, -self.t))
    def __lt__(self, o): return self._cmp(o, lambda a, b: a < b)
    def __le__(self, o): return self._cmp(o, lambda a, b: a <= b)
    def __gt__(self, o): return self._cmp(o, lambda a, b: a > b)
    def __ge__(self, o): return self._cmp(o, lambda a, b: a >= b)
    def __eq__(self, o): return self._cmp(o, lambda a, b: a == b)
    def __ne__(self, o): return self._cmp(o, lambda a, b: a != b)
    __hash__ = None

    def __bool__(self):
        # truthiness of a number: x != 0 (forks)
        return bool(self != 0)

    def __format__(self, spec):
        # f"{i + 1:04d}" in log messages: the text is irrelevant to every contract
        return f"<{self.t}>"

    def __pow__(self, o):
        if isinstance(o, int) and 0 <= o <= 8:
            r = type(self)(z3.IntVal(1) if isinstance(self, SymInt) else z3.RealVal(1))
            for _ in range(o):
                r = r * self
            return r
        if isinstance(o, float) and o == 0.5:
            return SymReal(self.t if self.t.sort() == z3.RealSort() else z3.ToReal(self.t)).sqrt()
        return NotImplemented

    def __repr__(self):
        return f"{type(self).__name__}({self.t})"


def pyfloordiv(a, b):
    # z3 div is floor division only for positive divisors
    return z3.If(b > 0, a / b, (-a) / (-b))


class SymInt(_Arith):
    __slots__ = ()

    def __floordiv__(self, o):
        c = self._co(o)
        if c is NotImplemented or c.sort() != z3.IntSort():
            return NotImplemented
        Ctx.cur.prove(c != 0, "no ZeroDivisionError")
        return SymInt(pyfloordiv(self.t, c))

    def __rfloordiv__(self, o):
        c = self._co(o)
        if c is NotImplemented or c.sort() != z3.IntSort():
            return NotImplemented
        Ctx.cur.prove(self.t != 0, "no ZeroDivisionError")
        return SymInt(pyfloordiv(c, self.t))

    def __mod__(self, o):
        c = self._co(o)
        if c is NotImplemented or c.sort() != z3.IntSort():
            return NotImplemented
        Ctx.cur.prove(c != 0, "no ZeroDivisionError")
        return SymInt(self.t - c * pyfloordiv(self.t, c))

    def __rmod__(self, o):
        c = self._co(o)
        Ctx.cur.prove(self.t != 0, "no ZeroDivisionError")
        return SymInt(c - self.t * pyfloordiv(c, self.t))

    def __truediv__(self, o):
        c = self._co(o)
        if c is NotImplemented:
            return NotImplemented
        a, b = z3.ToReal(self.t), (z3.ToReal(c) if c.sort() == z3.IntSort() else c)
        return SymReal(a / b)

    def __rtruediv__(self, o):
        c = self._co(o)
        if c is NotImplemented:
            return NotImplemented
        return SymReal((z3.ToReal(c) if c.sort() == z3.IntSort() else c) / z3.ToReal(self.t))

    def __index__(self):
        raise EngineLimit("symbolic int used as concrete index")

    def __int__(self):
        raise EngineLimit("symbolic int used as concrete int")


class SymReal(_Arith):
    __slots__ = ()

    def _co(self, o):
        if isinstance(o, SymInt):
            return z3.ToReal(o.t)
        return super()._co(o)

    def __truediv__(self, o):
        c = self._co(o)
        if c is NotImplemented:
            return NotImplemented
        a, b = self._lift(self.t, c)
        return SymReal(a / b)

    def __rtruediv__(self, o):
        c = self._co(o)
        if c is NotImplemented:
            return NotImplemented
        a, b = self._lift(self.t, c)
        return SymReal(b / a)

    def sqrt(self):
        r = fresh_real("sqrt")
        Ctx.cur.assume((r >= 0) & (r * r == self))
        return r

    def conjugate(self):
        return self

    conj = conjugate

    @property
    def real(self):
        return self

    @property
    def imag(self):
        return SymReal(z3.RealVal(0))

    def __float__(self):
        raise EngineLimit("symbolic real used as concrete float")


def fresh_int(name):
    return SymInt(z3.Int(f"{name}!{next(Ctx.cur.fresh)}"))


def fresh_real(name):
    return SymReal(z3.Real(f"{name}!{next(Ctx.cur.fresh)}"))


def fresh_bool(name):
    return SymBool(z3.Bool(f"{name}!{next(Ctx.cur.fresh)}"))


def const_real(name):
    """a rigid symbolic constant (same term on every path)"""
    return SymReal(z3.Real(name))


def const_int(name):
    return SymInt(z3.Int(name))


def ite(c, a, b):
    """if-then-else *term* (no fork): meaning of jnp.where / lax.select on scalars"""
    ct = tobool(c)

    def co(x):
        if isinstance(x, (SymInt, SymReal)):
            return x.t
        if isinstance(x, SymBool):
            return x.t
        if isinstance(x, bool):
            return z3.BoolVal(x)
        if isinstance(x, int):
            return z3.IntVal(x)
        if isinstance(x, float):
            return _frac(x)
        raise EngineLimit(f"ite on {type(x)}")
    ta, tb = co(a), co(b)
    if ta.sort() != tb.sort():
        ta, tb = _Arith._lift(ta, tb)
    r = z3.If(ct, ta, tb)
    if r.sort() == z3.IntSort():
        return SymInt(r)
    if r.sort() == z3.RealSort():
        return SymReal(r)
    return SymBool(r)


def sym_int_of(b):
    """int(x) in extracted code"""
    if isinstance(b, SymBool):
        return SymInt(z3.If(b.t, 1, 0))
    if isinstance(b, SymInt):
        return b
    return int(b)


def sym_float_of(x):
    if isinstance(x, SymReal):
        return x
    if isinstance(x, SymInt):
        return SymReal(z3.ToReal(x.t))
    return float(x)


def forall_int(fn, name="k!q"):
    k = z3.Int(name)
    return SymBool(z3.ForAll([k], tobool(fn(SymInt(k)))))


class SymSet:
    """set of integers as a z3 array Int -> Bool (ghost state such as 'indices of the files on disk')"""

    def __init__(self, arr):
        self.a = arr

    @staticmethod
    def fresh(name):
        return SymSet(z3.Array(f"{name}!{next(Ctx.cur.fresh)}", z3.IntSort(), z3.BoolSort()))

    @staticmethod
    def _k(k):
        return k.t if isinstance(k, SymInt) else z3.IntVal(int(k))

    def has(self, k):
        return SymBool(z3.Select(self.a, self._k(k)))

    def __contains__(self, k):
        return bool(self.has(k))

    def add(self, k):
        self.a = z3.Store(self.a, self._k(k), z3.BoolVal(True))

    def discard(self, k):
        self.a = z3.Store(self.a, self._k(k), z3.BoolVal(False))

    def copy(self):
        return SymSet(self.a)

    def eq_comprehension(self, pred, name="k!set"):
        """forall k: k in self <=> pred(k)"""
        k = z3.Int(name)
        return SymBool(z3.ForAll([k], z3.Select(self.a, k) == tobool(pred(SymInt(k)))))


# ------------------------------------------------------------- sequences
class SymSeq:
    """Sequence of symbolic length over an uninterpreted element function.
    Elements are produced by `elem(i)` (a python callable from a SymInt/int index
    to a value), so iteration with a symbolic index needs no quantifiers."""

    def __init__(self, length, elem):
        self.length, self.elem = length, elem

    def __len__(self):
        raise EngineLimit("len() of SymSeq: rebind len to symx.sym_len")

    def __getitem__(self, i):
        return self.elem(i)


def sym_len(x):
    if isinstance(x, SymSeq):
        return x.length
    return len(x)


# ---------------------------------------------------------------- exploration
class PathResult:
    __slots__ = ("taken", "end", "obligations", "covers", "value", "exc")

    def __init__(self, taken, end, obligations, covers, value=None, exc=None):
        self.taken, self.end, self.obligations, self.covers = taken, end, obligations, covers
        self.value, self.exc = value, exc


def explore(run, maxpaths=4000, allowed_raises=()):
    """run(ctx) executes one path.  Exceptions of the types in `allowed_raises`
    are program outcomes; PathEnd ends a path silently; anything else is an
    engine error (reported as such, never as a violation)."""
    work = [[]]
    results = []
    while work:
        prefix = work.pop()
        ctx = Ctx(prefix, work)
        Ctx.cur = ctx
        value = exc = None
        try:
            value = run(ctx)
            end = "return"
        except PathEnd as e:
            end = f"pathend:{e}"
        except allowed_raises as e:  # program outcome
            end = f"raises:{type(e).__name__}"
            exc = e
        except EngineLimit as e:
            end = f"engine:{e}"
            exc = e
        except Exception as e:  # noqa: BLE001 - reported as engine error
            import traceback
            end = f"error:{type(e).__name__}:{e}"
            exc = traceback.format_exc()
        finally:
            Ctx.cur = None
        results.append(PathResult(list(ctx.taken), end, ctx.obligations, set(ctx.covers), value, exc))
        if len(results) > maxpaths:
            raise EngineLimit(f"path budget {maxpaths} exceeded")
    return results


# ---------------------------------------------------------------- loop cutting
def _P(src):
    return ast.parse(textwrap.dedent(src)).body


class _ReplaceContinue(ast.NodeTransformer):
    def __init__(self, tail):
        self.tail = tail

    def visit_For(self, n):
        return n

    def visit_While(self, n):
        return n

    def visit_FunctionDef(self, n):
        return n

    def visit_Lambda(self, n):
        return n

    def visit_Continue(self, n):
        return [copy.deepcopy(s) for s in self.tail]


class LoopCutter(ast.NodeTransformer):
    """spec[k] = dict(entry=<expr>, havoc=<stmts>, inv=<expr>[, cond, bind, step, pre])
    keyed by loop ordinal k in pre-order within the function (nested function
    definitions are numbered along).  One-shot cut form, see DESIGN 2.1."""

    def __init__(self, spec):
        self.spec = dict(spec)
        self.k = -1
        self.used = set()

    def _emit(self, k, pre, cond_src, bind, body, step, orelse):
        sp = self.spec[k]
        self.used.add(k)
        tail = step + _P(f"__vc.prove(({sp['inv']}), 'loop{k}: invariant preserved')") \
            + _P("__vc.stop('loop body done')")
        body2 = []
        for s in body:
            r = _ReplaceContinue(tail).visit(s)
            body2 += r if isinstance(r, list) else [r]
        exit_if = ast.If(test=ast.parse(f"not ({cond_src})", mode="eval").body,
                         body=list(orelse) + [ast.Break()], orelse=[])
        one = ast.While(test=ast.Constant(True), body=[exit_if] + bind + body2 + tail, orelse=[])
        entry = _P(f"__vc.prove(({sp['entry']}), 'loop{k}: invariant holds on entry')") if sp.get("entry") else []
        return pre + entry + _P(sp["havoc"]) + [one]

    def visit_While(self, node):
        self.k += 1
        k = self.k
        self.generic_visit(node)
        if k not in self.spec:
            return node
        return self._emit(k, [], ast.unparse(node.test), [], node.body, [], node.orelse)

    def visit_For(self, node):
        self.k += 1
        k = self.k
        self.generic_visit(node)
        if k not in self.spec:
            return node
        sp = self.spec[k]
        tgt = ast.unparse(node.target)
        it = node.iter
        if "cond" in sp:
            pre = _P(sp.get("pre", "").replace("$ITER", ast.unparse(it)))
            return self._emit(k, pre, sp["cond"], _P(sp.get("bind", "").replace("$TARGET", tgt)),
                              node.body, _P(sp.get("step", "")), node.orelse)
        if isinstance(it, ast.Call) and getattr(it.func, "id", None) == "range":
            a = [ast.unparse(x) for x in it.args]
            lo, hi, st = ("0", a[0], "1") if len(a) == 1 else (a[0], a[1], "1") if len(a) == 2 else a
            pre = _P(f"__lo{k} = {lo}\n__hi{k} = {hi}\n__st{k} = {st}\n__it{k} = __lo{k}")
            return self._emit(k, pre, f"__it{k} < __hi{k}", _P(f"{tgt} = __it{k}"), node.body,
                              _P(f"__it{k} = __it{k} + __st{k}"), node.orelse)
        # generic sequence: needs a SymSeq (or list) and sym_len
        pre = _P(f"__seq{k} = {ast.unparse(it)}\n__it{k} = 0")
        return self._emit(k, pre, f"__it{k} < __vc.len(__seq{k})", _P(f"{tgt} = __seq{k}[__it{k}]"),
                          node.body, _P(f"__it{k} = __it{k} + 1"), node.orelse)


class VC:
    """Injected as `__vc` into the namespace of the transformed function.
    Sidecar contracts subclass it to add spec functions and havoc builders."""

    def prove(self, c, label):
        Ctx.cur.prove(c, label)

    def assume(self, c):
        Ctx.cur.assume(c)

    def stop(self, why):
        raise PathEnd(why)

    def cover(self, name):
        Ctx.cur.cover(name)

    def at_return(self, value, local_vars):
        self.last_locals = dict(local_vars)
        return value

    fresh_int = staticmethod(fresh_int)
    fresh_real = staticmethod(fresh_real)
    fresh_bool = staticmethod(fresh_bool)
    forall_int = staticmethod(forall_int)
    implies = staticmethod(implies)
    len = staticmethod(sym_len)
    ite = staticmethod(ite)


class Extracted:
    def __init__(self, fn, src, orig_src, qualname, file, transforms):
        self.fn, self.src, self.orig_src = fn, src, orig_src
        self.qualname, self.file, self.transforms = qualname, file, transforms
        self.sha = hashlib.sha256(orig_src.encode()).hexdigest()[:16]

    def __call__(self, *a, **k):
        return self.fn(*a, **k)


class _StripImports(ast.NodeTransformer):
    """drop function-local `from x import a, b` for names that the contract re-binds"""

    def __init__(self, names):
        self.names = set(names)
        self.dropped = []

    def visit_ImportFrom(self, node):
        keep = [a for a in node.names if (a.asname or a.name) not in self.names]
        self.dropped += [(a.asname or a.name) for a in node.names if (a.asname or a.name) in self.names]
        if not keep:
            return ast.Pass()
        node.names = keep
        return node

    def visit_Import(self, node):
        keep = [a for a in node.names if (a.asname or a.name.split(".")[0]) not in self.names]
        self.dropped += [(a.asname or a.name) for a in node.names if a not in keep]
        if not keep:
            return ast.Pass()
        node.names = keep
        return node


class _StripAnnotations(ast.NodeTransformer):
    """type annotations are evaluated at definition time against the (re-bound) namespace;
    they have no run-time meaning for the code under contract and are dropped"""

    def _args(self, a):
        for x in a.posonlyargs + a.args + a.kwonlyargs + [y for y in (a.vararg, a.kwarg) if y]:
            x.annotation = None

    def visit_FunctionDef(self, node):
        self._args(node.args)
        node.returns = None
        self.generic_visit(node)
        return node

    def visit_AnnAssign(self, node):
        if node.value is None:
            return ast.Pass()
        return ast.copy_location(ast.Assign(targets=[node.target], value=node.value), node)


class _GhostReturn(ast.NodeTransformer):
    """`return X`  ->  `return __vc.at_return(X, locals())` (outermost function only)"""

    def __init__(self):
        self.depth = 0
        self.n = 0

    def visit_FunctionDef(self, node):
        self.depth += 1
        if self.depth == 1:
            self.generic_visit(node)
        self.depth -= 1
        return node

    def visit_Lambda(self, node):
        return node

    def visit_Return(self, node):
        self.n += 1
        val = node.value or ast.Constant(None)
        call = ast.Call(func=ast.Attribute(value=ast.Name("__vc", ast.Load()), attr="at_return", ctx=ast.Load()),
                        args=[val, ast.Call(func=ast.Name("locals", ast.Load()), args=[], keywords=[])], keywords=[])
        return ast.Return(value=call)


def extract(func, loops=None, rebind=None, vc=None, src_edit=None, strip_local_imports=True,
            freevars=None, ghost_return=False, ghost_entry=None):
    """Re-compile the real function from its current source.

    loops   : sidecar loop annotations (see LoopCutter)
    rebind  : names re-bound in the copy of the module globals (shims/stubs)
    vc      : VC instance visible as `__vc`
    src_edit: optional callable(ast.FunctionDef) for ghost statements (recorded)
    freevars: values for closure variables (function is wrapped in a factory)
    Returns an Extracted (callable)."""
    func = inspect.unwrap(func) if hasattr(func, "__wrapped__") else func
    if isinstance(func, (staticmethod, classmethod)):
        func = func.__func__
    orig = textwrap.dedent(inspect.getsource(func))
    tree = ast.parse(orig)
    fdef = tree.body[0]
    transforms = []
    if fdef.decorator_list:
        transforms.append("decorators dropped: " + ", ".join(ast.unparse(d) for d in fdef.decorator_list))
        fdef.decorator_list = []
    _StripAnnotations().visit(fdef)
    transforms.append("type annotations dropped")
    if loops:
        cutter = LoopCutter(loops)
        cutter.visit(fdef)
        missing = set(loops) - cutter.used
        if missing:
            raise EngineLimit(f"extraction mismatch: loop ordinals {sorted(missing)} not found in {func.__qualname__}")
        transforms.append(f"loops cut at ordinals {sorted(cutter.used)}")
    if rebind and strip_local_imports:
        st = _StripImports(rebind.keys())
        st.visit(fdef)
        if st.dropped:
            transforms.append("function-local imports re-bound: " + ", ".join(sorted(set(st.dropped))))
    if src_edit:
        note = src_edit(fdef)
        transforms.append(f"ghost statements: {note}")
    if ghost_return:
        g = _GhostReturn()
        g.visit(fdef)
        transforms.append(f"ghost: {g.n} return statements pass locals() to the contract (__vc.at_return)")
    if ghost_entry:
        fdef.body = _P(ghost_entry) + fdef.body
        transforms.append(f"ghost statement at entry: {ghost_entry.strip()}")
    ast.fix_missing_locations(tree)
    ns = dict(func.__globals__)
    ns["__vc"] = vc or VC()
    if rebind:
        ns.update(rebind)
        transforms.append("names re-bound: " + ", ".join(sorted(rebind)))
    name = fdef.name
    if freevars or func.__closure__:
        fv = dict(zip(func.__code__.co_freevars, [c.cell_contents for c in (func.__closure__ or ())]))
        fv.update(freevars or {})
        ns.update(fv)
        transforms.append("closure variables bound as globals: " + ", ".join(sorted(fv)))
    code = compile(tree, f"<extracted {func.__qualname__}>", "exec")
    exec(code, ns)
    return Extracted(ns[name], ast.unparse(tree), orig, func.__qualname__,
                     inspect.getsourcefile(func), transforms)
