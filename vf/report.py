"""Obligation bookkeeping, evidence, known findings, exit codes (DESIGN 2.5/2.6).

Exit codes: 0 held / 1 violation (refuted obligation or natively reproduced
contract failure, not listed as known finding) / 2 undecided / 3 checker crash.
`unknown`, time-outs and tracebacks are never mapped to 1.
"""
import hashlib
import inspect
import json
import os
import re
import time
import traceback

from . import symx

ROOT = os.path.dirname(os.path.dirname(os.path.abspath(__file__)))
REPO = os.environ.get("VERIF_REPO", "/repo")


class Part:
    """What one section of a check produced (picklable)."""

    def __init__(self, name):
        self.name = name
        self.functions = []      # dict(qualname, file, sha, transforms)
        self.obligations = []    # dict(label, status, backend, dt, detail, model, npaths)
        self.bounded = []        # dict(name, bound, cases, nontrivial, failures, samples, kind)
        self.assumptions = []
        self.lemmas = []
        self.stubs = []
        self.samples = []
        self.paths = 0
        self.covers_missing = []
        self.errors = []
        self.solver_time = 0.0
        self.wall = 0.0
        self.notes = []


class Section:
    """API handed to a contract section."""

    def __init__(self, pid, name, tier, seed):
        self.pid, self.tier, self.seed = pid, tier, seed
        self.part = Part(name)
        self.name = name
        self._agg = {}

    # -- registration ------------------------------------------------------
    def under_contract(self, obj, note=""):
        """record a function/method/class of /repo as being under contract"""
        if isinstance(obj, symx.Extracted):
            rec = dict(qualname=obj.qualname, file=_rel(obj.file), sha=obj.sha,
                       transforms=obj.transforms, mode="re-compiled from source (Engine S)")
        else:
            try:
                src = inspect.getsource(obj)
                f = inspect.getsourcefile(obj)
            except (TypeError, OSError):
                src, f = repr(obj), "?"
            rec = dict(qualname=getattr(obj, "__qualname__", repr(obj)), file=_rel(f),
                       sha=hashlib.sha256(src.encode()).hexdigest()[:16], transforms=[],
                       mode="imported class/function run unmodified (Engine O)")
        if note:
            rec["note"] = note
        if not any(r["qualname"] == rec["qualname"] and r["file"] == rec["file"] for r in self.part.functions):
            self.part.functions.append(rec)
        return obj

    def assume(self, text):
        if text not in self.part.assumptions:
            self.part.assumptions.append(text)

    def lemma(self, text):
        if text not in self.part.lemmas:
            self.part.lemmas.append(text)

    def stub(self, text):
        if text not in self.part.stubs:
            self.part.stubs.append(text)

    def note(self, text):
        self.part.notes.append(text)

    def sample(self, obj):
        if len(self.part.samples) < 6:
            self.part.samples.append(obj)

    # -- proof obligations -------------------------------------------------
    def obligation(self, label, status, backend="z3", detail="", model=None, dt=0.0):
        assert status in ("discharged", "refuted", "undecided")
        ob = dict(label=f"{self.name}: {label}", status=status, backend=backend,
                  dt=round(dt, 4), detail=str(detail)[:2000], model=model, npaths=1)
        if status == "refuted" and backend == "sympy" and " at {" in str(detail):
            # the residue is the real code's own symbolic output evaluated exactly at a rational point
            ob["replay"] = dict(reproduced=True, kind="the closed form returned by the real code (run on symbols) was evaluated "
                                "exactly at a rational point and differs from the contract's value there", witness=str(detail)[:600])
        self.part.obligations.append(ob)

    def explore(self, run, allowed_raises=(), maxpaths=4000, covers=(), tag=None):
        """run one symbolic exploration; every prove() inside becomes an obligation
        named '<section>[/<tag>]: <label>' aggregated over paths."""
        t0 = time.time()
        s0 = symx.Ctx.solver_time
        prefix = self.name + (f"/{tag}" if tag else "")
        try:
            results = symx.explore(run, maxpaths=maxpaths, allowed_raises=allowed_raises)
        except symx.EngineLimit as e:
            self.part.errors.append(f"{prefix}: {e}")
            return []
        agg = self._agg.setdefault(prefix, {})
        new_labels = []
        seen_covers = set()
        for r in results:
            seen_covers |= r.covers
            if r.end.startswith("error:") or r.end.startswith("engine:"):
                self.part.errors.append(f"{prefix}: path {r.taken}: {r.end}\n{r.exc if isinstance(r.exc, str) else ''}")
            for ob in r.obligations:
                if ob.label not in agg:
                    agg[ob.label] = dict(label=f"{prefix}: {ob.label}", status="discharged", backend=ob.backend,
                                         dt=0.0, detail="", model=None, npaths=0)
                    new_labels.append(ob.label)
                a = agg[ob.label]
                a["npaths"] += 1
                a["dt"] = round(a["dt"] + ob.dt, 4)
                if ob.status == "refuted" and a["status"] != "refuted":
                    a.update(status="refuted", model=ob.model, detail=(ob.detail + f" path={list(ob.path)}").strip())
                    if ob.model_obj is not None:
                        try:
                            rr = symx.replay_model(run, ob.model_obj, allowed_raises)
                            a["replay"] = dict(
                                kind="solver model followed through the real code (branches and contract evaluated "
                                     "under the model, exact arithmetic)",
                                reproduced=ob.label in rr["failed"], failed_obligations=rr["failed"],
                                end=rr["end"], decisions=rr["decisions"], input=ob.model)
                        except Exception as e:  # noqa: BLE001
                            a["replay"] = dict(reproduced=False, error=f"{type(e).__name__}: {e}")
                elif ob.status == "undecided" and a["status"] == "discharged":
                    a.update(status="undecided", detail=ob.detail + f" path={list(ob.path)}")
                if ob.backend == "cvc5":
                    a["backend"] = "cvc5"
        self.part.obligations += [agg[l] for l in new_labels]
        self.part.paths += len(results)
        for c in covers:
            if c not in seen_covers:
                self.part.covers_missing.append(f"{prefix}: cover '{c}' not reached")
        self.part.solver_time += symx.Ctx.solver_time - s0
        if len(self.part.samples) < 4 and results:
            r = results[0]
            self.part.samples.append(dict(kind="path", section=prefix, decisions=r.taken, end=r.end,
                                          obligations=[o.label for o in r.obligations][:8]))
        return results

    # -- bounded stand-ins (never counted as proved) -------------------------
    def bounded(self, name, bound, cases, nontrivial, failures, samples=(), kind="B-shape"):
        self.part.bounded.append(dict(name=f"{self.name}: {name}", bound=bound, cases=int(cases),
                                      nontrivial=int(nontrivial), failures=list(failures)[:20],
                                      samples=list(samples)[:4], kind=kind))


def _rel(f):
    if f and f.startswith(REPO):
        return os.path.relpath(f, REPO)
    return f


# --------------------------------------------------------------------------
def load_known_findings():
    """lines:  finding: property=<id> obligation="<label>" what="..."
               fixed: property=<id> <commit> <what failed>            (suppresses nothing)"""
    out = []
    fn = os.path.join(ROOT, "known_findings.txt")
    if not os.path.exists(fn):
        return out
    for line in open(fn):
        line = line.strip()
        m = re.match(r'finding:\s+property=(\S+)\s+obligation="([^"]+)"\s+what="([^"]*)"', line)
        if m:
            out.append(dict(pid=m.group(1), obligation=m.group(2), what=m.group(3)))
    return out


def finish(pid, tier, seed, meta, parts, wall, replayers=None, crashed=None):
    """merge parts, write evidence, print verdict lines, return exit code"""
    evdir = os.environ.get("VERIF_EVIDENCE_DIR", os.path.join(ROOT, "evidence"))
    rpdir = os.environ.get("VERIF_REPLAY_DIR", os.path.join(ROOT, "replays"))
    os.makedirs(evdir, exist_ok=True)
    obligations, bounded, functions, assumptions, lemmas, stubs, samples, errors, covers_missing, notes = \
        [], [], [], [], [], [], [], [], [], []
    paths = 0
    solver_time = 0.0
    for p in parts:
        obligations += p.obligations
        bounded += p.bounded
        for f in p.functions:
            if not any(g["qualname"] == f["qualname"] and g["file"] == f["file"] for g in functions):
                functions.append(f)
        for src, dst in ((p.assumptions, assumptions), (p.lemmas, lemmas), (p.stubs, stubs), (p.notes, notes)):
            for a in src:
                if a not in dst:
                    dst.append(a)
        samples += p.samples
        errors += p.errors
        covers_missing += p.covers_missing
        paths += p.paths
        solver_time += p.solver_time
    known = [k for k in load_known_findings() if k["pid"] == pid]
    refuted = [o for o in obligations if o["status"] == "refuted"]
    undecided = [o for o in obligations if o["status"] == "undecided"]
    bfail = [(b, f) for b in bounded for f in b["failures"]]
    lines = []
    violations = 0
    known_hit = []
    exit_code = 0

    def is_known(label):
        for k in known:
            if label == k["obligation"] or label.startswith(k["obligation"]):
                return k
        return None

    os.makedirs(rpdir, exist_ok=True)
    viol_items = [(o["label"], o) for o in refuted] + [(f"{b['name']} :: {f.get('case', '')}", dict(
        label=f"{b['name']} :: {f.get('case', '')}", status="refuted", backend=b["kind"], model=f,
        detail=f.get("detail", ""))) for b, f in bfail]
    native_cache = {}
    per_standin = {}
    for label, o in viol_items:
        k = is_known(label)
        if k:
            if k not in known_hit:
                known_hit.append(k)
                lines.append(f"KNOWN-FINDING: property={pid} {k['what']} [obligation: {k['obligation']}]")
            continue
        violations += 1
        if o.get("backend", "").startswith("B-"):
            base = label.split(" :: ")[0]
            per_standin[base] = per_standin.get(base, 0) + 1
            if per_standin[base] > 3:
                continue        # further failing cases of the same stand-in are listed in the evidence only
        rp = dict(property=pid, obligation=label, status="refuted", backend=o.get("backend"),
                  verifier_output=dict(model=o.get("model"), detail=o.get("detail")), replay=None)
        suffix = " no-failing-input-found"
        fn = fkey = None
        for key, f in (replayers or {}).items():
            if key in label:
                fn, fkey = f, key
                break
        if o.get("replay"):
            rp["replay"] = o["replay"]
            if o["replay"].get("reproduced"):
                suffix = ""
        if o.get("backend", "").startswith(("B-", "concrete-path", "contract-stub", "native", "identity")):
            rp["replay"] = dict(reproduced=True, how="the failing case was found by running the real code natively",
                                case=o.get("model"))
            suffix = ""
        elif fn is not None:
            try:
                if fkey not in native_cache:
                    native_cache[fkey] = fn(o)
                res = native_cache[fkey]
                rp["native_replay"] = res
                if res and res.get("reproduced"):
                    suffix = ""
            except Exception:  # noqa: BLE001
                rp["replay"] = dict(reproduced=False, error=traceback.format_exc())
        slug = re.sub(r"[^A-Za-z0-9]+", "-", label)[:80].strip("-") + "-" + hashlib.sha1(label.encode()).hexdigest()[:6]
        path = os.path.join(rpdir, f"{pid}-{slug}.json")
        with open(path, "w") as fh:
            json.dump(rp, fh, indent=1, default=str)
        lines.append(f"VIOLATION property={pid} replay={path} obligation=\"{label}\"{suffix}")
    if violations:
        exit_code = 1
        for o in undecided[:5]:
            lines.append(f"UNDECIDED property={pid} obligation=\"{o['label']}\" {o['detail'][:1500]}")
    n_ob = len(obligations)
    n_dis = sum(1 for o in obligations if o["status"] == "discharged")
    if exit_code == 0:
        if crashed:
            exit_code = 3
            lines.append(f"CRASH property={pid} {crashed.splitlines()[-1] if crashed else ''}")
        elif errors:
            exit_code = 3
            lines.append(f"CRASH property={pid} engine errors: {errors[0][:300]}")
        elif undecided or covers_missing:
            exit_code = 2
            for o in undecided[:10]:
                lines.append(f"UNDECIDED property={pid} obligation=\"{o['label']}\" {o['detail'][:200]}")
            for c in covers_missing:
                lines.append(f"UNDECIDED property={pid} {c} (vacuity guard)")
        elif n_ob == 0 and not bounded:
            exit_code = 3
            lines.append(f"CRASH property={pid} zero obligations generated (vacuity guard)")
    by_backend = {}
    for o in obligations:
        if o["status"] == "discharged":
            by_backend[o["backend"]] = by_backend.get(o["backend"], 0) + 1
    b_cases = sum(b["cases"] for b in bounded)
    b_nontriv = sum(b["nontrivial"] for b in bounded)
    level = meta.get("level", "other")
    if level == "proof" and (n_dis != n_ob or n_ob == 0):
        level = "other"
    sample_obs = [dict(obligation=o["label"], status=o["status"], backend=o["backend"], paths=o["npaths"])
                  for o in obligations[:5]]
    coverage = dict(
        obligations=n_ob,
        discharged=n_dis,
        discharged_by_backend=by_backend,
        refuted=len(refuted),
        undecided=len(undecided),
        known_findings=[k["what"] for k in known_hit],
        paths_explored=paths,
        solver_time_s=round(solver_time, 3),
        checker_cmd=f"./check {pid} --tier {tier}",
        functions_under_contract=functions,
        trusted_base=sorted(set(assumptions + [f"lemma: {x}" for x in lemmas] + [f"assumed contract/stub: {x}" for x in stubs])),
        bounded_standins=[dict(name=b["name"], kind=b["kind"], bound=b["bound"], cases=b["cases"],
                               nontrivial=b["nontrivial"], failures=len(b["failures"])) for b in bounded],
        evaluations=b_cases + paths,
        distinct_nontrivial=b_nontriv + n_ob,
        rule=meta.get("rule", "evaluations = symbolic paths explored + bounded stand-in cases; distinct_nontrivial = "
                              "distinct named proof obligations + bounded cases the stand-in itself classifies as non-trivial"),
        samples=(sample_obs + samples + [s for b in bounded for s in b["samples"]])[:12],
        explanation=meta.get("explanation", ""),
        obligation_list=[dict(label=o["label"], status=o["status"], backend=o["backend"], paths=o["npaths"],
                              solver_s=o["dt"]) for o in obligations],
        notes=notes,
        engine_errors=errors[:5],
        exhaustive=bool(meta.get("exhaustive", False)),
    )
    ev = dict(property_id=pid, tier=tier, seed=int(seed), level=level, coverage=coverage,
              assumptions=sorted(set(assumptions)), wall_s=round(wall, 3), violations=violations)
    with open(os.path.join(evdir, f"{pid}.json"), "w") as fh:
        json.dump(ev, fh, indent=1, default=str)
    for ln in lines:
        print(ln)
    print(f"[{pid}] tier={tier} obligations={n_ob} discharged={n_dis} refuted={len(refuted)} undecided={len(undecided)} "
          f"bounded_cases={b_cases} bounded_failures={len(bfail)} paths={paths} solver={solver_time:.2f}s wall={wall:.1f}s "
          f"exit={exit_code}")
    return exit_code
