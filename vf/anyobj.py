"""`Any`: an absorbing stand-in object for everything numerical in a driver whose *control* structure is under
contract (push/pop discipline, order of file writes).  Every attribute, call, item, arithmetic operation yields
another Any; truthiness must never be asked (it would hide a branch), so __bool__ raises."""
from . import symx


class Any:
    _n = 0

    def __init__(self, label="any"):
        object.__setattr__(self, "_label", label)
        object.__setattr__(self, "_d", {})

    def __getattr__(self, name):
        if name.startswith("__") and name.endswith("__"):
            raise AttributeError(name)
        d = object.__getattribute__(self, "_d")
        if name not in d:
            d[name] = Any(f"{object.__getattribute__(self, '_label')}.{name}")
        return d[name]

    def __setattr__(self, name, value):
        object.__getattribute__(self, "_d")[name] = value

    def __call__(self, *a, **k):
        return Any(f"{object.__getattribute__(self, '_label')}()")

    def __getitem__(self, k):
        return Any(f"{object.__getattribute__(self, '_label')}[]")

    def __setitem__(self, k, v):
        pass

    def __iter__(self):
        return iter(())

    def __enter__(self):
        return self

    def __exit__(self, *a):
        return False

    def __bool__(self):
        raise symx.EngineLimit(f"truth value of the abstract object {object.__getattribute__(self, '_label')} requested: "
                               f"a branch of the code under contract depends on a value the contract does not model")

    def _op(self, *a):
        return Any("expr")

    __add__ = __radd__ = __sub__ = __rsub__ = __mul__ = __rmul__ = __truediv__ = __matmul__ = __rmatmul__ = _op
    __neg__ = _op

    def __repr__(self):
        return f"<Any {object.__getattribute__(self, '_label')}>"

    def __format__(self, spec):
        return repr(self)
