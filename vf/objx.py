"""Engine O: the installed NIFTy classes running on NumPy *object arrays* of symbolic elements.

NumPy applies Python operators element-wise on dtype=object arrays and implements ufuncs on them by
calling the method of the same name on each element.  Two element types:
  * SymReal / SymInt of vf.symx (z3 terms; comparisons are SymBools that fork; sqrt introduces s >= 0, s*s = x)
  * SX (a sympy expression; equality by simplification; no truth values)
Substrate calls that cannot take objects are re-bound here to their mathematical meaning (ducc vdot,
Random.normal -> fresh white-noise symbols).  DESIGN 2.1b.
"""
import contextlib
import itertools
import numbers

import numpy as np
import z3

from . import symx
from .symx import Ctx, SymBool, SymInt, SymReal, fresh_real

_installed = False


def install_z3_elements():
    """make SymReal/SymInt usable as elements of object arrays and as NumPy 'scalars'"""
    global _installed
    if _installed:
        return
    _installed = True
    for cls in (SymReal, SymInt):
        numbers.Number.register(cls)
        cls.shape = ()
        cls.ndim = 0
        cls.size = 1
        cls.__getitem__ = lambda s, k: s
        cls.item = lambda s: s
        cls.conjugate = lambda s: s
        cls.conj = lambda s: s
    SymReal.dtype = np.dtype(object)
    SymInt.dtype = np.dtype(object)
    SymReal.reciprocal = lambda s: 1 / s
    SymReal.square = lambda s: s * s
    SymReal.absolute = lambda s: abs(s)
    SymReal.sign = lambda s: symx.ite(s > 0, 1.0, symx.ite(s < 0, -1.0, 0.0))


def sym_array(shape, name, positive=False, nonneg=False):
    """object array of fresh z3 reals"""
    n = int(np.prod(shape, dtype=int))
    a = np.empty(n, dtype=object)
    for i in range(n):
        a[i] = fresh_real(f"{name}{i}")
        if positive:
            Ctx.cur.assume(a[i] > 0)
        elif nonneg:
            Ctx.cur.assume(a[i] >= 0)
    return a.reshape(shape)


class Noise:
    """white-noise sources: Random.normal is re-bound to fresh symbols xi_k; a sample is then a linear form R xi"""

    def __init__(self):
        self.src = []

    def normal(self, dtype, shape, mean=0., std=1.):
        n = int(np.prod(shape, dtype=int))
        if np.issubdtype(np.dtype(dtype) if not isinstance(dtype, np.dtype) else dtype, np.complexfloating):
            raise symx.EngineLimit("complex noise: use Noise.normal_complex through the C13 contract")
        a = np.empty(n, dtype=object)
        for i in range(n):
            a[i] = fresh_real("xi")
            self.src.append(a[i])
        return a.reshape(shape) * std + mean

    def coeffs(self, expr):
        """(constant term, [coefficient of each source]) of an expression that is linear in the sources"""
        t = expr.t if isinstance(expr, (SymReal, SymInt)) else z3.RealVal(expr)
        if t.sort() == z3.IntSort():
            t = z3.ToReal(t)
        zero = [(s.t, z3.RealVal(0)) for s in self.src]
        base = z3.simplify(z3.substitute(t, *zero))
        cs = []
        for k, s in enumerate(self.src):
            one = list(zero)
            one[k] = (s.t, z3.RealVal(1))
            cs.append(z3.simplify(z3.substitute(t, *one) - base))
        return base, cs

    def linear(self, expr):
        """obligation: expr == base + sum c_k xi_k  (i.e. really linear in the sources)"""
        t = expr.t if isinstance(expr, (SymReal, SymInt)) else z3.RealVal(expr)
        base, cs = self.coeffs(expr)
        recon = base
        for c, s in zip(cs, self.src):
            recon = recon + c * s.t
        return SymBool(t == recon)


@contextlib.contextmanager
def patched(noise=None):
    """re-bind the substrate entry points that cannot take object arrays (in this process only)"""
    import nifty.cl.any_array as aa
    import nifty.cl.random as rnd
    old_vdot = aa.cpu_vdot
    old_normal = rnd.Random.normal

    def vdot(a, b):
        if a.dtype == object or b.dtype == object:
            return sum((x.conjugate() if hasattr(x, "conjugate") else np.conj(x)) * y for x, y in zip(a.ravel(), b.ravel()))
        return old_vdot(a, b)
    aa.cpu_vdot = vdot
    if noise is not None:
        rnd.Random.normal = staticmethod(noise.normal)
    try:
        yield
    finally:
        aa.cpu_vdot = old_vdot
        rnd.Random.normal = old_normal


def dense(op, dom, n, mode="times"):
    """dense matrix (list of columns -> n x n nested list of elements) of a linear operator on an n-pixel domain,
    by applying the real operator to the unit vectors (exact: 0/1 floats)"""
    import nifty.cl as ift
    cols = []
    for i in range(n):
        e = np.zeros(dom.shape)
        e.reshape(-1)[i] = 1.
        out = getattr(op, mode)(ift.Field(ift.DomainTuple.make(dom), e)).asnumpy().reshape(-1)
        cols.append(list(out))
    return [[cols[j][i] for j in range(n)] for i in range(n)]


# ------------------------------------------------------------------------------------------------ sympy elements
import sympy as sp  # noqa: E402


def _float_literal(f):
    """mathematical reading of a float that reaches a symbolic expression (assumption 'machine arithmetic treated as
    mathematical'): the nearby simple rational, or -- for a float that is the correctly rounded square root of a rational with
    denominator <= 1000, such as np.sqrt(0.5) -- that square root"""
    import math
    r = sp.nsimplify(f, rational=True)
    if r.q <= 10 ** 6 or f != f or f in (float("inf"), float("-inf")):
        return r
    q = sp.nsimplify(f * f, rational=True, tolerance=1e-14)
    if q.q <= 1000 and q > 0 and math.copysign(math.sqrt(q.p / q.q), f) == f:
        return sp.sign(r) * sp.sqrt(q)
    return r


def _U(x):
    if isinstance(x, SX):
        return x.e
    if isinstance(x, (float, np.floating)):
        return _float_literal(float(x))
    if isinstance(x, (complex, np.complexfloating)):
        return sp.nsimplify(complex(x).real, rational=True) + sp.I * sp.nsimplify(complex(x).imag, rational=True)
    return sp.sympify(x)


class SX(numbers.Number):
    """a sympy expression as element of NumPy object arrays; ufuncs on object arrays call the same-named method"""
    __slots__ = ("e",)
    shape = ()
    ndim = 0
    size = 1
    dtype = np.dtype(object)

    def __init__(self, e):
        self.e = sp.sympify(e)

    def __repr__(self):
        return f"SX({self.e})"

    def __getitem__(self, k):
        return self

    def item(self):
        return self

    def _b(f):
        def g(self, o):
            if isinstance(o, np.ndarray):
                return NotImplemented
            try:
                return SX(f(self.e, _U(o)))
            except (sp.SympifyError, TypeError):
                return NotImplemented
        return g
    __add__ = _b(lambda a, b: a + b)
    __radd__ = _b(lambda a, b: b + a)
    __sub__ = _b(lambda a, b: a - b)
    __rsub__ = _b(lambda a, b: b - a)
    __mul__ = _b(lambda a, b: a * b)
    __rmul__ = _b(lambda a, b: b * a)
    __truediv__ = _b(lambda a, b: a / b)
    __rtruediv__ = _b(lambda a, b: b / a)
    __pow__ = _b(lambda a, b: a ** b)
    __rpow__ = _b(lambda a, b: b ** a)
    del _b

    def __neg__(self):
        return SX(-self.e)

    def __pos__(self):
        return self

    def __abs__(self):
        return SX(sp.Abs(self.e))

    def __eq__(self, o):
        try:
            return bool(sp.simplify(self.e - _U(o)) == 0)
        except (sp.SympifyError, TypeError):
            return False

    def __ne__(self, o):
        return not self.__eq__(o)

    __hash__ = None

    def _cmp(self, o, rel):
        r = sp.simplify(rel(self.e, _U(o)))
        if r is sp.true:
            return True
        if r is sp.false:
            return False
        raise symx.EngineLimit(f"sympy element: undecidable comparison {r}")

    def __lt__(self, o):
        return self._cmp(o, sp.Lt)

    def __le__(self, o):
        return self._cmp(o, sp.Le)

    def __gt__(self, o):
        return self._cmp(o, sp.Gt)

    def __ge__(self, o):
        return self._cmp(o, sp.Ge)

    def __bool__(self):
        raise symx.EngineLimit("truth value of a sympy element")

    def __float__(self):
        raise symx.EngineLimit("float() of a sympy element")

    def __complex__(self):
        raise symx.EngineLimit("complex() of a sympy element")

    @property
    def real(self):
        return SX(sp.re(self.e))

    @property
    def imag(self):
        return SX(sp.im(self.e))

    def conjugate(self):
        return SX(sp.conjugate(self.e))

    conj = conjugate


for _n, _f in dict(exp=sp.exp, log=sp.log, sin=sp.sin, cos=sp.cos, tan=sp.tan, tanh=sp.tanh, sinh=sp.sinh, cosh=sp.cosh,
                   sqrt=sp.sqrt, arctan=sp.atan, arcsin=sp.asin, arccos=sp.acos, arcsinh=sp.asinh, arctanh=sp.atanh,
                   log1p=lambda v: sp.log(1 + v), expm1=lambda v: sp.exp(v) - 1,
                   log10=lambda v: sp.log(v) / sp.log(10), reciprocal=lambda v: 1 / v, square=lambda v: v * v,
                   absolute=sp.Abs, sign=sp.sign).items():
    setattr(SX, _n, (lambda f: lambda self: SX(f(self.e)))(_f))


def sx_array(shape, name, **assump):
    n = int(np.prod(shape, dtype=int))
    a = np.empty(n, dtype=object)
    for i in range(n):
        a[i] = SX(sp.Symbol(f"{name}{i}", **assump))
    return a.reshape(shape)


def exprs(a):
    return [x.e if isinstance(x, SX) else _U(x) for x in np.asarray(a, dtype=object).ravel()]


def is_zero(e, tries=("simplify", "expand", "trigsimp", "rewrite")):
    """exact zero test of a sympy expression: True / False-with-witness / None (undecided)"""
    e = sp.sympify(e)
    if e == 0:
        return True
    for t in tries:
        try:
            if t == "simplify":
                r = sp.simplify(e)
            elif t == "expand":
                r = sp.together(sp.expand(e))
                r = sp.simplify(sp.numer(r)) if r != 0 else r
            elif t == "trigsimp":
                r = sp.trigsimp(sp.expand(e))
            else:
                r = sp.simplify(e.rewrite(sp.exp))
        except Exception:  # noqa: BLE001
            continue
        if r == 0:
            return True
    return None


def refute_numerically(e, symbols, domain=None, n=24, seed=0):
    """evaluate e at rational points with 50 digits; a point with |e| > 1e-25 is a counterexample"""
    import random
    import mpmath
    rnd = random.Random(seed)
    mpmath.mp.dps = 50
    syms = sorted(e.free_symbols, key=str)
    for _ in range(n):
        pt = {}
        for s in syms:
            lo, hi = (domain or {}).get(str(s), (-2, 2))
            if s.is_positive:
                lo = max(lo, sp.Rational(1, 10))
            v = sp.Rational(rnd.randint(int(lo * 100), int(hi * 100)), 100)
            if s.is_real is not True and s.is_positive is not True:
                v = v + sp.I * sp.Rational(rnd.randint(-150, 150), 100)
            pt[s] = v
        try:
            val = complex(sp.N(e.subs(pt), 40))
        except Exception:  # noqa: BLE001
            continue
        if abs(val) > 1e-25:
            return {str(k): str(v) for k, v in pt.items()}, val
    return None, None
