"""Engine O: the installed NIFTy classes running on NumPy *object arrays* of symbolic elements.

NumPy applies Python operators element-wise on dtype=object arrays and implements ufuncs on them by
calling the method of the same name on each element.  Two element types:
  * SymReal / SymInt of vf.symx (z3 terms; comparisons are SymBools that fork; sqrt introduces s >= 0, s*s = x)
  * SX (a sympy expression; equality by simplification; no truth values)
Substrate calls that cannot take objects are re-bound here to their mathematical meaning (ducc vdot,
Random.normal -> fresh white-noise symbols).  DESIGN 2.1b.
"""
import contextlib
import itertools
import numbers

import numpy as np
import z3

from . import symx
from .symx import Ctx, SymBool, SymInt, SymReal, fresh_real

_installed = False


def install_z3_elements():
    """make SymReal/SymInt usable as elements of object arrays and as NumPy 'scalars'"""
    global _installed
    if _installed:
        return
    _installed = True
    for cls in (SymReal, SymInt):
        numbers.Number.register(cls)
        cls.shape = ()
        cls.ndim = 0
        cls.size = 1
        cls.__getitem__ = lambda s, k: s
        cls.item = lambda s: s
        cls.conjugate = lambda s: s
        cls.conj = lambda s: s
    SymReal.dtype = np.dtype(object)
    SymInt.dtype = np.dtype(object)
    SymReal.reciprocal = lambda s: 1 / s
    SymReal.square = lambda s: s * s
    SymReal.absolute = lambda s: abs(s)
    SymReal.sign = lambda s: symx.ite(s > 0, 1.0, symx.ite(s < 0, -1.0, 0.0))


def sym_array(shape, name, positive=False, nonneg=False):
    """object array of fresh z3 reals"""
    n = int(np.prod(shape, dtype=int))
    a = np.empty(n, dtype=object)
    for i in range(n):
        a[i] = fresh_real(f"{name}{i}")
        if positive:
            Ctx.cur.assume(a[i] > 0)
        elif nonneg:
            Ctx.cur.assume(a[i] >= 0)
    return a.reshape(shape)


class Noise:
    """white-noise sources: Random.normal is re-bound to fresh symbols xi_k; a sample is then a linear form R xi"""

    def __init__(self):
        self.src = []

    def normal(self, dtype, shape, mean=0., std=1.):
        n = int(np.prod(shape, dtype=int))
        if np.issubdtype(np.dtype(dtype) if not isinstance(dtype, np.dtype) else dtype, np.complexfloating):
            raise symx.EngineLimit("complex noise: use Noise.normal_complex through the C13 contract")
        a = np.empty(n, dtype=object)
        for i in range(n):
            a[i] = fresh_real("xi")
            self.src.append(a[i])
        return a.reshape(shape) * std + mean

    def coeffs(self, expr):
        """(constant term, [coefficient of each source]) of an expression that is linear in the sources"""
        t = expr.t if isinstance(expr, (SymReal, SymInt)) else z3.RealVal(expr)
        if t.sort() == z3.IntSort():
            t = z3.ToReal(t)
        zero = [(s.t, z3.RealVal(0)) for s in self.src]
        base = z3.simplify(z3.substitute(t, *zero))
        cs = []
        for k, s in enumerate(self.src):
            one = list(zero)
            one[k] = (s.t, z3.RealVal(1))
            cs.append(z3.simplify(z3.substitute(t, *one) - base))
        return base, cs

    def linear(self, expr):
        """obligation: expr == base + sum c_k xi_k  (i.e. really linear in the sources)"""
        t = expr.t if isinstance(expr, (SymReal, SymInt)) else z3.RealVal(expr)
        base, cs = self.coeffs(expr)
        recon = base
        for c, s in zip(cs, self.src):
            recon = recon + c * s.t
        return SymBool(t == recon)


@contextlib.contextmanager
def patched(noise=None, complex_objects=False):
    """re-bind the substrate entry points that cannot take object arrays (in this process only)"""
    import nifty.cl.any_array as aa
    import nifty.cl.random as rnd
    old_vdot = aa.cpu_vdot
    old_normal = rnd.Random.normal

    def vdot(a, b):
        if a.dtype == object or b.dtype == object:
            return sum((x.conjugate() if hasattr(x, "conjugate") else np.conj(x)) * y for x, y in zip(a.ravel(), b.ravel()))
        return old_vdot(a, b)
    aa.cpu_vdot = vdot
    old_real, old_imag = aa.AnyArray.real, aa.AnyArray.imag

    def _part(which, old):
        def get(self):
            if isinstance(self._val, np.ndarray) and self._val.dtype == object:    # ndarray.real is the identity on object arrays
                out = np.empty(self._val.size, dtype=object)
                for i, x in enumerate(self._val.ravel()):
                    out[i] = getattr(x, which) if hasattr(x, which) else getattr(np.asarray(x), which)[()]
                return aa.AnyArray(out.reshape(self._val.shape))
            return old.fget(self)
        return property(get)
    aa.AnyArray.real, aa.AnyArray.imag = _part("real", old_real), _part("imag", old_imag)
    if noise is not None:
        rnd.Random.normal = staticmethod(noise.normal)
    import nifty.cl.operators.diagonal_operator as dmod
    old_mc, old_dc = dmod.mul_conj2, dmod.div_conj2

    def _objarr(a):
        return getattr(getattr(a, "_val", None), "dtype", None) == object
    dmod.mul_conj2 = lambda a, b: a * b.conj() if (_objarr(a) or _objarr(b)) else old_mc(a, b)
    dmod.div_conj2 = lambda a, b: a / b.conj() if (_objarr(a) or _objarr(b)) else old_dc(a, b)
    saved_ict = []
    if complex_objects:
        # object arrays may hold complex expressions: dtype tests of the library must not take the 'real' shortcut
        import importlib
        import nifty.cl.utilities as ut
        old_ict = ut.iscomplextype

        def ict(dtype):
            if not isinstance(dtype, dict) and dtype == object:
                import sys
                if sys._getframe(1).f_code.co_name == "_special_add_at":
                    return False        # its complex branch only re-views complex numbers as pairs of reals (substrate detail)
                return True
            return old_ict(dtype)
        for mn in ("nifty.cl.utilities", "nifty.cl.operators.diagonal_operator", "nifty.cl.operators.energy_operators",
                   "nifty.cl.operators.harmonic_operators", "nifty.cl.sugar"):
            m = importlib.import_module(mn)
            if hasattr(m, "iscomplextype"):
                saved_ict.append((m, m.iscomplextype))
                m.iscomplextype = ict
    try:
        yield
    finally:
        for m, f in saved_ict:
            m.iscomplextype = f
        dmod.mul_conj2, dmod.div_conj2 = old_mc, old_dc
        aa.cpu_vdot = old_vdot
        aa.AnyArray.real, aa.AnyArray.imag = old_real, old_imag
        rnd.Random.normal = old_normal


def dense(op, dom, n, mode="times"):
    """dense matrix (list of columns -> n x n nested list of elements) of a linear operator on an n-pixel domain,
    by applying the real operator to the unit vectors (exact: 0/1 floats)"""
    import nifty.cl as ift
    cols = []
    for i in range(n):
        e = np.zeros(dom.shape)
        e.reshape(-1)[i] = 1.
        out = getattr(op, mode)(ift.Field(ift.DomainTuple.make(dom), e)).asnumpy().reshape(-1)
        cols.append(list(out))
    return [[cols[j][i] for j in range(n)] for i in range(n)]


# ------------------------------------------------------------------------------------------------ sympy elements
import sympy as sp  # noqa: E402


_KNOWN_FLOATS = {float(c.evalf(30)): c for c in (sp.pi, 2 * sp.pi, sp.pi / 2, sp.E, sp.log(2), sp.log(10), 1 / sp.log(10), 1 / sp.log(2),
                                                   sp.sqrt(2 * sp.pi), 1 / sp.sqrt(2 * sp.pi), sp.sqrt(sp.pi), 1 / sp.pi, sp.log(2 * sp.pi),
                                                   sp.sqrt(2), 1 / sp.sqrt(2), 2 / sp.sqrt(sp.pi), sp.sqrt(2 / sp.pi), sp.sqrt(sp.pi / 2), sp.log(2 * sp.pi) / 2,
                                                   sp.log(sp.pi), sp.sqrt(3), 1 / sp.sqrt(sp.pi))}


def _float_literal(f):
    """mathematical reading of a float that reaches a symbolic expression (assumption 'machine arithmetic treated as
    mathematical'): the nearby simple rational, or -- for a float that is the correctly rounded square root of a rational with
    denominator <= 1000, such as np.sqrt(0.5) -- that square root"""
    import math
    if f != f:
        return sp.nan
    if f in (float("inf"), float("-inf")):
        return sp.oo if f > 0 else -sp.oo
    if f in _KNOWN_FLOATS:
        return _KNOWN_FLOATS[f]
    if -f in _KNOWN_FLOATS:
        return -_KNOWN_FLOATS[-f]
    r = sp.nsimplify(f, rational=True)
    if r.q <= 10 ** 6 or f != f or f in (float("inf"), float("-inf")):
        return r
    q = sp.nsimplify(f * f, rational=True, tolerance=1e-14)
    if q.q <= 1000 and q > 0 and math.copysign(math.sqrt(q.p / q.q), f) == f:
        return sp.sign(r) * sp.sqrt(q)
    return r


def _U(x):
    if isinstance(x, SX):
        return x.e
    if hasattr(x, "_val") and hasattr(x, "device_id"):       # a 0-d AnyArray stored as an *element* of an object array (NumPy would unwrap a float)
        x = x._val
    if isinstance(x, np.ndarray) and x.ndim == 0:
        return _U(x[()])
    if isinstance(x, (float, np.floating)):
        return _float_literal(float(x))
    if isinstance(x, (complex, np.complexfloating)):
        return sp.nsimplify(complex(x).real, rational=True) + sp.I * sp.nsimplify(complex(x).imag, rational=True)
    return sp.sympify(x)


class SX(numbers.Number):
    """a sympy expression as element of NumPy object arrays; ufuncs on object arrays call the same-named method"""
    __slots__ = ("e",)
    shape = ()
    ndim = 0
    size = 1
    dtype = np.dtype(object)

    def __init__(self, e):
        self.e = sp.sympify(e)

    def __repr__(self):
        return f"SX({self.e})"

    def __getitem__(self, k):
        return self

    def item(self):
        return self

    def _b(f):
        def g(self, o):
            if isinstance(o, np.ndarray):
                return NotImplemented
            try:
                return SX(f(self.e, _U(o)))
            except (sp.SympifyError, TypeError):
                return NotImplemented
        return g
    __add__ = _b(lambda a, b: a + b)
    __radd__ = _b(lambda a, b: b + a)
    __sub__ = _b(lambda a, b: a - b)
    __rsub__ = _b(lambda a, b: b - a)
    __mul__ = _b(lambda a, b: a * b)
    __rmul__ = _b(lambda a, b: b * a)
    __truediv__ = _b(lambda a, b: a / b)
    __rtruediv__ = _b(lambda a, b: b / a)
    __pow__ = _b(lambda a, b: a ** b)
    __rpow__ = _b(lambda a, b: b ** a)
    del _b

    def __neg__(self):
        return SX(-self.e)

    def __pos__(self):
        return self

    def __abs__(self):
        return SX(sp.Abs(self.e))

    def __eq__(self, o):
        try:
            d = self.e - _U(o)
        except (sp.SympifyError, TypeError):
            return False
        if d == 0 or sp.simplify(d) == 0:
            return True
        if SX.shadow is not None and d.free_symbols:
            if abs(complex(sp.N(d.subs(SX.shadow), 40))) < 1e-30:
                raise symx.EngineLimit(f"concolic shadow point lies on the surface {d} == 0; choose a generic shadow")
            SX.pc.append(sp.Ne(d, 0))
        return False

    def __ne__(self, o):
        return not self.__eq__(o)

    __hash__ = None

    # concolic mode: comparisons sympy cannot decide are decided at the shadow point (symbol -> exact number) and recorded in pc;
    # the run then represents the whole region of inputs with the same comparison outcomes
    shadow = None
    pc = []

    @classmethod
    @contextlib.contextmanager
    def concolic(cls, shadow):
        old = cls.shadow, cls.pc
        cls.shadow, cls.pc = dict(shadow), []
        try:
            yield cls.pc
        finally:
            cls.shadow, cls.pc = old

    def _cmp(self, o, rel):
        other = _U(o)
        r = rel(self.e, other)
        if r not in (sp.true, sp.false):
            r = sp.simplify(r)
        if r is sp.true or r is True:
            return True
        if r is sp.false or r is False:
            return False
        if SX.shadow is not None:
            a, b = sp.N(self.e.subs(SX.shadow), 40), sp.N(sp.sympify(other).subs(SX.shadow), 40)
            if a.is_real and b.is_real and a != b:
                out = bool(rel(a, b))
                SX.pc.append(rel(self.e, other) if out else sp.Not(rel(self.e, other)))
                return out
        raise symx.EngineLimit(f"sympy element: undecidable comparison {r}")

    def __lt__(self, o):
        return self._cmp(o, sp.Lt)

    def __le__(self, o):
        return self._cmp(o, sp.Le)

    def __gt__(self, o):
        return self._cmp(o, sp.Gt)

    def __ge__(self, o):
        return self._cmp(o, sp.Ge)

    def __bool__(self):
        if self.e.is_number:
            return bool(self.e != 0)
        if SX.shadow is not None:
            return not self.__eq__(0)
        raise symx.EngineLimit("truth value of a sympy element")

    def __float__(self):
        raise symx.EngineLimit("float() of a sympy element")

    def __complex__(self):
        raise symx.EngineLimit("complex() of a sympy element")

    @property
    def real(self):
        return SX(sp.re(self.e))

    @property
    def imag(self):
        return SX(sp.im(self.e))

    def conjugate(self):
        return SX(sp.conjugate(self.e))

    conj = conjugate


for _n, _f in dict(exp=sp.exp, log=sp.log, sin=sp.sin, cos=sp.cos, tan=sp.tan, tanh=sp.tanh, sinh=sp.sinh, cosh=sp.cosh,
                   sqrt=sp.sqrt, arctan=sp.atan, arcsin=sp.asin, arccos=sp.acos, arcsinh=sp.asinh, arctanh=sp.atanh,
                   log1p=lambda v: sp.log(1 + v), expm1=lambda v: sp.exp(v) - 1,
                   log10=lambda v: sp.log(v) / sp.log(10), reciprocal=lambda v: 1 / v, square=lambda v: v * v,
                   absolute=sp.Abs, sign=sp.sign).items():
    setattr(SX, _n, (lambda f: lambda self: SX(f(self.e)))(_f))


def sx_array(shape, name, **assump):
    n = int(np.prod(shape, dtype=int))
    a = np.empty(n, dtype=object)
    for i in range(n):
        a[i] = SX(sp.Symbol(f"{name}{i}", **assump))
    return a.reshape(shape)


def exprs(a):
    return [x.e if isinstance(x, SX) else _U(x) for x in np.asarray(a, dtype=object).ravel()]


def is_zero(e, tries=("simplify", "expand", "trigsimp", "rewrite")):
    """exact zero test of a sympy expression: True / False-with-witness / None (undecided)"""
    e = sp.sympify(e)
    if e == 0:
        return True
    for t in tries:
        try:
            if t == "simplify":
                r = sp.simplify(e)
            elif t == "expand":
                r = sp.together(sp.expand(e))
                r = sp.simplify(sp.numer(r)) if r != 0 else r
            elif t == "trigsimp":
                r = sp.trigsimp(sp.expand(e))
            else:
                r = sp.simplify(e.rewrite(sp.exp))
        except Exception:  # noqa: BLE001
            continue
        if r == 0:
            return True
    return None


def refute_numerically(e, symbols, domain=None, n=24, seed=0):
    """evaluate e at rational points with 50 digits; a point with |e| > 1e-25 is a counterexample"""
    import random
    import mpmath
    rnd = random.Random(seed)
    mpmath.mp.dps = 50
    syms = sorted(e.free_symbols, key=str)
    for _ in range(n):
        pt = {}
        for s in syms:
            lo, hi = (domain or {}).get(str(s), (-2, 2))
            if s.is_positive:
                lo = max(lo, sp.Rational(1, 10))
            v = sp.Rational(rnd.randint(int(lo * 100), int(hi * 100)), 100)
            if s.is_real is not True and s.is_positive is not True:
                v = v + sp.I * sp.Rational(rnd.randint(-150, 150), 100)
            pt[s] = v
        try:
            val = complex(sp.N(e.subs(pt), 40))
        except Exception:  # noqa: BLE001
            continue
        if abs(val) > 1e-25:
            return {str(k): str(v) for k, v in pt.items()}, val
    return None, None


class _Timeout(Exception):
    pass


def _with_alarm(seconds, fn):
    """fn() with a time budget.  The timer re-fires every half second after the budget: an exception raised by the handler while
    the interpreter runs a GC callback or a __del__ is swallowed ("Exception ignored in ..."), and a one-shot alarm would then
    leave fn() running without any limit."""
    import signal
    state = dict(active=True)

    def h(sig, frm):
        if state["active"]:
            raise _Timeout()
    old = signal.signal(signal.SIGALRM, h)
    signal.setitimer(signal.ITIMER_REAL, max(float(seconds), 0.05), 0.5)
    try:
        return fn()
    except _Timeout:
        state["active"] = False
        return None
    finally:
        state["active"] = False
        signal.setitimer(signal.ITIMER_REAL, 0)
        signal.signal(signal.SIGALRM, old)


def _points(e, pc, n, seed, domain=None, extra=()):
    """exact rational test points for the free symbols of e that satisfy the recorded path condition pc"""
    import random
    rnd = random.Random(seed)
    syms = sorted(set(e.free_symbols).union(*[sp.sympify(x).free_symbols for x in list(extra) + list(pc or ())]), key=str)
    out, tries = [], 0
    while len(out) < n and tries < 40 * n:
        tries += 1
        pt = {}
        for s in syms:
            lo, hi = (domain or {}).get(str(s), (-2, 2))
            if s.is_positive:
                lo = max(lo, sp.Rational(1, 10))
            if s.is_negative:
                hi = min(hi, -sp.Rational(1, 10))
            v = sp.Rational(rnd.randint(int(lo * 100), int(hi * 100)), 100)
            if s.is_real is not True and s.is_positive is not True and s.is_negative is not True:
                v = v + sp.I * sp.Rational(rnd.randint(-150, 150), 100)
            pt[s] = v
        ok = True
        for c in pc or ():
            try:
                if not bool(c.subs(pt)):
                    ok = False
                    break
            except TypeError:
                ok = False
                break
        if ok:
            out.append(pt)
    # branch coverage: a residue with Piecewise terms (symbolic select / where in the code) must be tested on both sides of every
    # branch condition that is reachable inside the region -- the default box [-2, 2] (positive: [0.1, 2]) can miss a branch such
    # as `x*y < 1e-2`; search on a logarithmic scale for points that take the missing side
    conds = set()
    try:
        for pw in e.atoms(sp.Piecewise):
            for _, c in pw.args:
                if c not in (True, False, sp.true, sp.false):
                    conds.add(c)
    except Exception:  # noqa: BLE001
        conds = set()
    for c in sorted(conds, key=str)[:12]:
        for want in (True, False):
            def val(pt):
                try:
                    return bool(c.subs(pt)) == want
                except TypeError:
                    return False
            if any(val(pt) for pt in out):
                continue
            for _ in range(400):
                pt = {}
                for s in syms:
                    mag = sp.Rational(rnd.randint(1, 999), 100) * sp.Integer(10) ** rnd.randint(-6, 2)
                    if s.is_positive:
                        v = mag
                    elif s.is_negative:
                        v = -mag
                    else:
                        v = mag if rnd.random() < 0.5 else -mag
                    if s.is_real is not True and s.is_positive is not True and s.is_negative is not True:
                        v = v + sp.I * sp.Rational(rnd.randint(-150, 150), 100)
                    lo, hi = (domain or {}).get(str(s), (None, None))
                    if lo is not None and not (lo <= sp.re(v) <= hi):
                        v = sp.Rational(rnd.randint(int(lo * 100), int(hi * 100)), 100)
                    pt[s] = v
                if not val(pt):
                    continue
                good = True
                for q in pc or ():
                    try:
                        if not bool(q.subs(pt)):
                            good = False
                            break
                    except TypeError:
                        good = False
                        break
                if good:
                    out.append(pt)
                    break
    return out


def zero_status(e, pc=None, domain=None, n=10, simplify_seconds=8, seed=0, scale_exprs=None, abs_tol=0.):
    """decide e == 0 (on the region described by pc): (status, backend, detail).
    'discharged'/'sympy'            : reduced to 0 symbolically
    'refuted'/'sympy'               : non-zero at an exact rational point inside the region (the witness)
    'discharged'/'sympy-points'     : sympy could not reduce the residue within the time budget; it vanishes (relative 1e-12,
                                      which absorbs the rounding of transcendental float literals in the source) at n exact points"""
    e = sp.sympify(e)
    if e == 0:
        return "discharged", "sympy", ""
    pts = _points(e, pc, n, seed, domain, extra=scale_exprs or ())
    worst = None
    nev = 0
    for pt in pts:
        try:
            sub = e.subs(pt)
            val = complex(sp.N(sub, 40))
            scale = sum(abs(complex(sp.N(a, 40))) for a in (sub.args if isinstance(sub, sp.Add) else (sub,)))
            terms = scale_exprs if scale_exprs is not None else (e.args if isinstance(e, sp.Add) else (e,))
            scale = max(scale, sum(abs(complex(sp.N(sp.sympify(a).subs(pt), 40))) for a in terms))
        except Exception:  # noqa: BLE001
            continue
        if val == val and abs(val) < 1e-30:
            # numerically nil at 40 digits although the terms do not cancel term by term (nested expression): an exact zero of an
            # algebraic number is confirmed by sympy, otherwise the tiny value is compared with the magnitude of the sub-expressions
            try:
                if sub == 0 or _with_alarm(5, lambda: sp.simplify(sub) == 0):
                    worst = max(worst or 0., 0.)
                    nev += 1
                    continue
            except Exception:  # noqa: BLE001
                pass
            mags = [abs(complex(sp.N(a, 40))) for a in sp.preorder_traversal(sub) if getattr(a, "is_number", False) and not a.is_Rational]
            if mags and abs(val) <= 1e-25 * max(mags):
                worst = max(worst or 0., abs(val))
                nev += 1
                continue
        if val != val or abs(val) > 1e-12 * (scale + 1e-300) + abs_tol:
            return "refuted", "sympy", f"residue {str(e)[:300]} is {val} at {{{', '.join(f'{k}: {v}' for k, v in pt.items())}}}"
        worst = max(worst or 0., abs(val))
        nev += 1
    r = _with_alarm(simplify_seconds, lambda: sp.simplify(e)) if not abs_tol else None
    if r is not None and r == 0:
        return "discharged", "sympy", ""
    if not pts:
        return "undecided", "sympy", f"no test point satisfies the path condition; residue {str(e)[:200]}"
    if not nev:
        r2 = _with_alarm(4 * simplify_seconds, lambda: sp.simplify(sp.expand(e.doit())))
        if r2 is not None and r2 == 0:
            return "discharged", "sympy", ""
        return "undecided", "sympy", f"the residue could be neither reduced nor evaluated (uninterpreted functions): {str(r if r is not None else e)[:300]}"
    return "discharged", "sympy-points", f"vanishes at {nev} exact points (largest |residue| {worst:.1e}); sympy left {str(r if r is not None else e)[:120]}"


def eq_status(a, b, **kw):
    """decide a == b; the tolerance for float-literal rounding is relative to |a| + |b|"""
    a, b = sp.sympify(a), sp.sympify(b)
    return zero_status(a - b, scale_exprs=(a, b), **kw)


@contextlib.contextmanager
def patched_bincount():
    """nifty.cl.utilities._special_add_at calls np.bincount(index, weights, minlength), which cannot take object weights:
    inside this context the module's `np` is a proxy whose bincount has the defining meaning out[b] = sum_{p: index[p]==b} w[p]
    for object arrays (A-NUMPY: that *is* bincount's documented meaning) and is NumPy's own otherwise."""
    import nifty.cl.utilities as ut
    real_np = ut.np

    class _NP:
        def __getattr__(self, name):
            return getattr(real_np, name)

        @staticmethod
        def bincount(index, weights=None, minlength=0):
            idx = real_np.asarray(getattr(index, "_val", index))
            w = None if weights is None else real_np.asarray(getattr(weights, "_val", weights))
            if w is None or w.dtype != object:
                return real_np.bincount(idx, w, minlength)
            n = max(int(minlength), int(idx.max()) + 1 if idx.size else 0)
            out = real_np.zeros(n, dtype=object)
            for p in range(idx.size):
                out[idx[p]] = out[idx[p]] + w[p]
            if hasattr(weights, "_val"):
                from nifty.cl.any_array import AnyArray
                return AnyArray(out)
            return out
    ut.np = _NP()
    try:
        yield
    finally:
        ut.np = real_np
