"""Engine O: the installed NIFTy classes running on NumPy *object arrays* of symbolic elements.

NumPy applies Python operators element-wise on dtype=object arrays and implements ufuncs on them by
calling the method of the same name on each element.  Two element types:
  * SymReal / SymInt of vf.symx (z3 terms; comparisons are SymBools that fork; sqrt introduces s >= 0, s*s = x)
  * SX (a sympy expression; equality by simplification; no truth values)
Substrate calls that cannot take objects are re-bound here to their mathematical meaning (ducc vdot,
Random.normal -> fresh white-noise symbols).  DESIGN 2.1b.
"""
import contextlib
import itertools
import numbers

import numpy as np
import z3

from . import symx
from .symx import Ctx, SymBool, SymInt, SymReal, fresh_real

_installed = False


def install_z3_elements():
    """make SymReal/SymInt usable as elements of object arrays and as NumPy 'scalars'"""
    global _installed
    if _installed:
        return
    _installed = True
    for cls in (SymReal, SymInt):
        numbers.Number.register(cls)
        cls.shape = ()
        cls.ndim = 0
        cls.size = 1
        cls.__getitem__ = lambda s, k: s
        cls.item = lambda s: s
        cls.conjugate = lambda s: s
        cls.conj = lambda s: s
    SymReal.dtype = np.dtype(object)
    SymInt.dtype = np.dtype(object)
    SymReal.reciprocal = lambda s: 1 / s
    SymReal.square = lambda s: s * s
    SymReal.absolute = lambda s: abs(s)
    SymReal.sign = lambda s: symx.ite(s > 0, 1.0, symx.ite(s < 0, -1.0, 0.0))


def sym_array(shape, name, positive=False, nonneg=False):
    """object array of fresh z3 reals"""
    n = int(np.prod(shape, dtype=int))
    a = np.empty(n, dtype=object)
    for i in range(n):
        a[i] = fresh_real(f"{name}{i}")
        if positive:
            Ctx.cur.assume(a[i] > 0)
        elif nonneg:
            Ctx.cur.assume(a[i] >= 0)
    return a.reshape(shape)


class Noise:
    """white-noise sources: Random.normal is re-bound to fresh symbols xi_k; a sample is then a linear form R xi"""

    def __init__(self):
        self.src = []

    def normal(self, dtype, shape, mean=0., std=1.):
        n = int(np.prod(shape, dtype=int))
        if np.issubdtype(np.dtype(dtype) if not isinstance(dtype, np.dtype) else dtype, np.complexfloating):
            raise symx.EngineLimit("complex noise: use Noise.normal_complex through the C13 contract")
        a = np.empty(n, dtype=object)
        for i in range(n):
            a[i] = fresh_real("xi")
            self.src.append(a[i])
        return a.reshape(shape) * std + mean

    def coeffs(self, expr):
        """(constant term, [coefficient of each source]) of an expression that is linear in the sources"""
        t = expr.t if isinstance(expr, (SymReal, SymInt)) else z3.RealVal(expr)
        if t.sort() == z3.IntSort():
            t = z3.ToReal(t)
        zero = [(s.t, z3.RealVal(0)) for s in self.src]
        base = z3.simplify(z3.substitute(t, *zero))
        cs = []
        for k, s in enumerate(self.src):
            one = list(zero)
            one[k] = (s.t, z3.RealVal(1))
            cs.append(z3.simplify(z3.substitute(t, *one) - base))
        return base, cs

    def linear(self, expr):
        """obligation: expr == base + sum c_k xi_k  (i.e. really linear in the sources)"""
        t = expr.t if isinstance(expr, (SymReal, SymInt)) else z3.RealVal(expr)
        base, cs = self.coeffs(expr)
        recon = base
        for c, s in zip(cs, self.src):
            recon = recon + c * s.t
        return SymBool(t == recon)


@contextlib.contextmanager
def patched(noise=None):
    """re-bind the substrate entry points that cannot take object arrays (in this process only)"""
    import nifty.cl.any_array as aa
    import nifty.cl.random as rnd
    old_vdot = aa.cpu_vdot
    old_normal = rnd.Random.normal

    def vdot(a, b):
        if a.dtype == object or b.dtype == object:
            return sum((x.conjugate() if hasattr(x, "conjugate") else np.conj(x)) * y for x, y in zip(a.ravel(), b.ravel()))
        return old_vdot(a, b)
    aa.cpu_vdot = vdot
    if noise is not None:
        rnd.Random.normal = staticmethod(noise.normal)
    try:
        yield
    finally:
        aa.cpu_vdot = old_vdot
        rnd.Random.normal = old_normal


def dense(op, dom, n, mode="times"):
    """dense matrix (list of columns -> n x n nested list of elements) of a linear operator on an n-pixel domain,
    by applying the real operator to the unit vectors (exact: 0/1 floats)"""
    import nifty.cl as ift
    cols = []
    for i in range(n):
        e = np.zeros(dom.shape)
        e.reshape(-1)[i] = 1.
        out = getattr(op, mode)(ift.Field(ift.DomainTuple.make(dom), e)).asnumpy().reshape(-1)
        cols.append(list(out))
    return [[cols[j][i] for j in range(n)] for i in range(n)]
