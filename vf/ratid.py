"""Second back end for obligations that are identities between rational functions over the reals:
z3 term -> sympy, `cancel(lhs - rhs) == 0`.  Sound only where every denominator is non-zero, so the
denominators are returned and the caller proves each of them non-zero under the path condition."""
import sympy as sp
import z3


class NotRational(Exception):
    pass


def to_sympy(t, dens, cache):
    key = t.get_id()
    if key in cache:
        return cache[key]
    r = _conv(t, dens, cache)
    cache[key] = r
    return r


def _conv(t, dens, cache):
    if z3.is_rational_value(t):
        return sp.Rational(t.numerator_as_long(), t.denominator_as_long())
    if z3.is_int_value(t):
        return sp.Integer(t.as_long())
    if z3.is_const(t) and t.decl().kind() == z3.Z3_OP_UNINTERPRETED:
        return sp.Symbol("v%d" % t.get_id(), real=True)
    k = t.decl().kind()
    ch = [to_sympy(c, dens, cache) for c in t.children()]
    if k == z3.Z3_OP_ADD:
        return sp.Add(*ch)
    if k == z3.Z3_OP_MUL:
        return sp.Mul(*ch)
    if k == z3.Z3_OP_SUB:
        r = ch[0]
        for c in ch[1:]:
            r = r - c
        return r
    if k == z3.Z3_OP_UMINUS:
        return -ch[0]
    if k == z3.Z3_OP_DIV:
        dens.append(t.children()[1])
        return ch[0] / ch[1]
    if k == z3.Z3_OP_TO_REAL:
        return ch[0]
    if k == z3.Z3_OP_POWER and z3.is_int_value(t.children()[1]):
        return ch[0] ** ch[1]
    raise NotRational(str(t.decl()))


def identity(goal):
    """goal: z3 BoolRef `a == b` over reals/ints.  Returns (True, denominators) if a - b cancels to 0, else (False, [])."""
    if not (z3.is_eq(goal) and goal.children()[0].sort().kind() in (z3.Z3_REAL_SORT, z3.Z3_INT_SORT)):
        return False, []
    a, b = goal.children()
    dens, cache = [], {}
    try:
        d = to_sympy(a, dens, cache) - to_sympy(b, dens, cache)
    except NotRational:
        return False, []
    try:
        ok = sp.cancel(sp.together(d)) == 0
    except Exception:  # noqa: BLE001
        return False, []
    return bool(ok), dens
