"""A `jax.numpy` stand-in over NumPy object arrays, for re-executing nifty.re source on symbolic integers/reals.

Only the entry points used by the modules under contract are provided; each is the NumPy function of the same name (which
acts element-wise on object arrays by calling Python operators of the elements) or an element-wise if-then-else *term*.
Anything else raises EngineLimit, so a change that starts using another jnp function is reported as undecided, not as held.
"""
import numpy as np

from . import symx
from .symx import SymBool, SymInt, SymReal


class OArr(np.ndarray):
    """object array that ignores dtype casts (the elements carry their own sort) and offers jax's functional .at[].add/.set"""

    def astype(self, dtype, *a, **k):
        if self.dtype == object:
            if np.issubdtype(np.dtype(dtype) if dtype is not object else np.dtype(object), np.integer):
                out = np.empty(self.size, dtype=object)
                for i, x in enumerate(self.ravel()):
                    if isinstance(x, SymReal):
                        raise symx.EngineLimit("cast of a symbolic real to an integer dtype (use rint first)")
                    out[i] = x
                return out.reshape(self.shape).view(OArr)
            return self
        return np.ndarray.astype(self, dtype, *a, **k)

    @property
    def at(self):
        return _At(self)


class _At:
    def __init__(self, a):
        self.a = a

    def __getitem__(self, k):
        return _AtK(self.a, k)


class _AtK:
    def __init__(self, a, k):
        self.a, self.k = a, k

    def add(self, v):
        out = self.a.copy()
        if isinstance(v, np.ndarray) and v.ndim == 0:
            v = v[()]
        out[self.k] = out[self.k] + v
        return out

    def set(self, v):
        out = self.a.copy()
        out[self.k] = v
        return out


def oarr(x):
    a = np.asarray(x, dtype=object) if not isinstance(x, np.ndarray) else x
    if a.dtype != object:
        return a
    return a.view(OArr)


def _is_sym(a):
    return isinstance(a, np.ndarray) and a.dtype == object


def _elementwise(fn, *arrs):
    bs = np.broadcast_arrays(*[np.asarray(a, dtype=object) for a in arrs])
    out = np.empty(bs[0].size, dtype=object)
    flat = [b.ravel() for b in bs]
    for i in range(out.size):
        out[i] = fn(*[f[i] for f in flat])
    return out.reshape(bs[0].shape).view(OArr)


def select(c, a, b):
    def one(ci, ai, bi):
        if isinstance(ci, (bool, np.bool_)):
            return ai if ci else bi
        return symx.ite(ci, ai, bi)
    if any(_is_sym(np.asarray(x)) or isinstance(x, (SymBool, SymInt, SymReal)) for x in (c, a, b)):
        return _elementwise(one, c, a, b)
    return np.where(c, a, b)


def _sign(x):
    if isinstance(x, (SymInt, SymReal)):
        return symx.ite(x > 0, 1, symx.ite(x < 0, -1, 0))
    return np.sign(x)


def _abs(x):
    if isinstance(x, (SymInt, SymReal)):
        return symx.ite(x >= 0, x, -x)
    return abs(x)


def _rint(x):
    """round half to even, as a term"""
    import z3
    if isinstance(x, SymInt):
        return x
    if isinstance(x, SymReal):
        f = z3.ToInt(x.t + z3.Q(1, 2))
        tie = z3.ToReal(f) == x.t + z3.Q(1, 2)
        return SymInt(z3.If(z3.And(tie, f % 2 != 0), f - 1, f))
    return int(np.rint(x))


class JNP:
    newaxis = None
    int_ = np.int64
    ndarray = np.ndarray

    @staticmethod
    def asarray(x, dtype=None):
        a = np.asarray(x) if not isinstance(x, np.ndarray) else x
        return oarr(a) if a.dtype == object else a

    array = asarray

    @staticmethod
    def atleast_1d(x):
        return oarr(np.atleast_1d(x))

    @staticmethod
    def abs(x):
        return _elementwise(_abs, x) if _is_sym(np.asarray(x)) else np.abs(x)

    @staticmethod
    def sign(x):
        return _elementwise(_sign, x) if _is_sym(np.asarray(x)) else np.sign(x)

    @staticmethod
    def rint(x):
        return _elementwise(_rint, x) if _is_sym(np.asarray(x)) else np.rint(x)

    @staticmethod
    def zeros(shape, dtype=None):
        if dtype == object or dtype == np.dtype(object):
            return oarr(np.zeros(shape, dtype=object))
        return np.zeros(shape, dtype=dtype)

    @staticmethod
    def ones(shape, dtype=None):
        return np.ones(shape, dtype=dtype)

    @staticmethod
    def copy(x):
        if isinstance(x, (SymInt, SymReal)) or (isinstance(x, np.ndarray) and x.ndim == 0 and x.dtype == object):
            return x[()] if isinstance(x, np.ndarray) else x       # immutable scalar: `tm -= ...` rebinds, never mutates
        return oarr(np.array(x, copy=True))

    @staticmethod
    def stack(xs, axis=0):
        return oarr(np.stack([np.asarray(x) for x in xs], axis=axis))

    @staticmethod
    def concatenate(xs, axis=0):
        return oarr(np.concatenate([np.asarray(x) for x in xs], axis=axis))

    @staticmethod
    def broadcast_to(x, shape):
        return oarr(np.broadcast_to(x, shape))

    @staticmethod
    def sort(x, *a, **k):
        if _is_sym(np.asarray(x)):
            raise symx.EngineLimit("sort of symbolic values")
        return np.sort(x, *a, **k)

    @staticmethod
    def all(x, axis=None):
        return np.all(x, axis=axis)

    @staticmethod
    def prod(x, axis=None, keepdims=False):
        return oarr(np.prod(x, axis=axis, keepdims=keepdims))

    @staticmethod
    def result_type(x):
        return getattr(x, "dtype", np.int64)

    def __getattr__(self, name):
        raise symx.EngineLimit(f"jnp.{name} is outside the shim")


def install_int_elements():
    """SymInt/SymReal as elements of NumPy object arrays (scalar protocol used by the broadcasting code)"""
    from . import objx
    objx.install_z3_elements()
    SymInt.absolute = lambda s: _abs(s)
    SymInt.sign = lambda s: _sign(s)
    SymInt.rint = lambda s: s
    SymReal.rint = lambda s: _rint(s)
