"""Engine J: symbolic evaluation of the *jaxpr* of real nifty.re code.

JAX itself traces the unmodified function (jax.make_jaxpr) -- including every jax.vjp / jvp / linear_transpose / vmap / jit /
custom_jvp it uses -- into a closed jaxpr of primitive operations: that is mechanically the program XLA would run.  This module
evaluates that jaxpr on NumPy object arrays of sympy expressions, primitive by primitive, with each primitive's defining
mathematical meaning over the reals (assumption A-REAL: no rounding, no NaN/Inf).  Equations whose inputs are all concrete are
evaluated by JAX's own implementation (primitive.bind).  What is trusted: JAX's tracer (the extraction) and the primitive table
below; an unknown primitive raises EngineLimit (undecided, never 'held').  Shapes come from the example arguments (bounded
skeleton); values are symbols (universal).
  * select_n with a symbolic predicate becomes a sympy Piecewise (or is decided concolically at a shadow point, recorded in pc)
  * scan / while with concrete trip count are unrolled; cond with a concrete predicate takes its branch
  * float literals are read as their mathematical values (objx._float_literal)
"""
import itertools

import numpy as np
import sympy as sp

from . import symx
from .objx import _float_literal


def _is_sym(a):
    return isinstance(a, np.ndarray) and a.dtype == object


def _is_key(a):
    """a JAX array with a PRNG-key dtype (cannot be converted to NumPy; stays a JAX array, always concrete)"""
    try:
        import jax
        return isinstance(a, jax.Array) and jax.dtypes.issubdtype(a.dtype, jax.dtypes.prng_key)
    except Exception:  # noqa: BLE001
        return False


def _concrete(o):
    return o if _is_key(o) else np.asarray(o)


def to_obj(a):
    """numeric array -> object array of exact sympy numbers"""
    a = np.asarray(a)
    if a.dtype == object:
        return a
    out = np.empty(a.size, dtype=object)
    fl = a.ravel()
    for i in range(a.size):
        v = fl[i]
        if isinstance(v, (bool, np.bool_)):
            out[i] = sp.true if v else sp.false
        elif np.issubdtype(a.dtype, np.integer):
            out[i] = sp.Integer(int(v))
        elif np.issubdtype(a.dtype, np.complexfloating):
            out[i] = _float_literal(float(v.real)) + sp.I * _float_literal(float(v.imag))
        else:
            out[i] = _float_literal(float(v))
    return out.reshape(a.shape)


def _ew(fn, *arrs):
    bs = np.broadcast_arrays(*[to_obj(a) for a in arrs])
    out = np.empty(bs[0].size, dtype=object)
    fl = [b.ravel() for b in bs]
    for i in range(out.size):
        out[i] = fn(*[f[i] for f in fl])
    return out.reshape(bs[0].shape)


class Shadow:
    """concolic decisions for symbolic predicates: shadow point and recorded path condition"""
    point = None
    pc = []


def _small(e, limit=120):
    """fewer than `limit` nodes (bounded traversal: the tree of a shared expression DAG can be astronomically large)"""
    try:
        for i, _ in enumerate(sp.preorder_traversal(e)):
            if i >= limit:
                return False
    except Exception:  # noqa: BLE001
        return False
    return True


def _truth(c):
    """decide a sympy Boolean: True/False, or None if it depends on symbols (and no shadow point is active)"""
    if c is sp.true or c is True:
        return True
    if c is sp.false or c is False:
        return False
    if Shadow.point is None or _small(c):
        # (large predicates are decided at the shadow point directly: simplifying them can take minutes)
        c2 = sp.simplify(c) if not isinstance(c, (bool,)) else c
        if c2 is sp.true:
            return True
        if c2 is sp.false:
            return False
    if Shadow.point is not None:
        v = c.subs(Shadow.point)
        try:
            b = bool(v)
        except TypeError:
            return None
        Shadow.pc.append(c if b else sp.Not(c))
        return b
    return None


def _select(pred, *cases):
    """select_n: cases[int(pred)] element-wise; pred boolean or integer"""
    def one(p, *cs):
        if isinstance(p, (sp.Integer, int, np.integer)):
            return cs[int(p)]
        t = _truth(p)
        if t is not None:
            return cs[1] if t else cs[0]
        if len(cs) != 2:
            raise symx.EngineLimit("select_n with more than two symbolic cases")
        if cs[0] == cs[1]:
            return cs[0]
        return sp.Piecewise((cs[1], p), (cs[0], True))
    return _ew(one, pred, *cases)


def _max(a, b):
    d = sp.simplify(a - b)
    if d.is_nonnegative:
        return a
    if d.is_nonpositive:
        return b
    t = _truth(sp.Ge(a, b)) if Shadow.point is not None else None
    if t is not None:
        return a if t else b
    return sp.Max(a, b)


def _min(a, b):
    return -_max(-a, -b)


def _abs(x):
    x = sp.sympify(x)
    if x.is_nonnegative:
        return x
    if x.is_nonpositive:
        return -x
    if Shadow.point is not None and x.is_real is not False and not x.has(sp.I):
        t = _truth(sp.Ge(x, 0))
        if t is not None:
            return x if t else -x
    return sp.Abs(x)


_UNARY = dict(
    neg=lambda x: -x, exp=sp.exp, log=sp.log, log1p=lambda x: sp.log(1 + x), expm1=lambda x: sp.exp(x) - 1, sqrt=sp.sqrt,
    rsqrt=lambda x: 1 / sp.sqrt(x), tanh=sp.tanh, sin=sp.sin, cos=sp.cos, tan=sp.tan, sinh=sp.sinh, cosh=sp.cosh,
    logistic=lambda x: 1 / (1 + sp.exp(-x)), abs=lambda x: _abs(x), sign=sp.sign, erf=sp.erf, erfc=lambda x: 1 - sp.erf(x), erf_inv=sp.erfinv,
    square=lambda x: x * x, conj=sp.conjugate, real=sp.re, imag=sp.im, atan=sp.atan, asin=sp.asin, acos=sp.acos, asinh=sp.asinh,
    acosh=sp.acosh, atanh=sp.atanh, lgamma=sp.loggamma, digamma=sp.digamma, stop_gradient=lambda x: x, copy=lambda x: x, copy_p=lambda x: x,
    real_p=sp.re, is_finite=lambda x: sp.true, cbrt=lambda x: sp.cbrt(x),
)
_UNARY["not"] = lambda x: sp.Not(x)
_BINARY = dict(
    add=lambda a, b: a + b, add_any=lambda a, b: a + b, sub=lambda a, b: a - b, mul=lambda a, b: a * b, div=lambda a, b: a / b,
    pow=lambda a, b: a ** b, max=_max, min=_min, atan2=sp.atan2, complex=lambda a, b: a + sp.I * b,
    lt=lambda a, b: sp.Lt(a, b), le=lambda a, b: sp.Le(a, b), gt=lambda a, b: sp.Gt(a, b), ge=lambda a, b: sp.Ge(a, b),
    eq=lambda a, b: sp.Eq(a, b), ne=lambda a, b: sp.Ne(a, b),
)
_BINARY["and"] = lambda a, b: sp.And(a, b)
_BINARY["or"] = lambda a, b: sp.Or(a, b)


def _dot_general(a, b, dimension_numbers, **_):
    (ca, cb), (ba, bb) = dimension_numbers
    a, b = to_obj(a), to_obj(b)
    ca, cb, ba, bb = list(ca), list(cb), list(ba), list(bb)
    fa = [i for i in range(a.ndim) if i not in ca + ba]
    fb = [i for i in range(b.ndim) if i not in cb + bb]
    at = a.transpose(ba + fa + ca)
    bt = b.transpose(bb + fb + cb)
    bshape = [a.shape[i] for i in ba]
    fas, fbs, cs = [a.shape[i] for i in fa], [b.shape[i] for i in fb], [a.shape[i] for i in ca]
    out = np.empty(bshape + fas + fbs, dtype=object)
    for bi in np.ndindex(*bshape):
        for i in np.ndindex(*fas):
            for j in np.ndindex(*fbs):
                s = sp.Integer(0)
                for k in np.ndindex(*cs):
                    s = s + at[bi + i + k] * bt[bi + j + k]
                out[bi + i + j] = s
    return out


def _reduce(fn, init):
    def red(x, axes, **_):
        x = to_obj(x)
        axes = tuple(axes)
        keep = [i for i in range(x.ndim) if i not in axes]
        xt = x.transpose(keep + list(axes))
        kshape = [x.shape[i] for i in keep]
        out = np.empty(kshape, dtype=object)
        for ki in np.ndindex(*kshape):
            acc = init
            for v in xt[ki].ravel():
                acc = fn(acc, v) if acc is not None else v
            out[ki] = acc
        return out
    return red


def _cum(fn):
    def cum(x, axis=0, reverse=False, **_):
        x = to_obj(x)
        xm = np.moveaxis(x, axis, 0)
        if reverse:
            xm = xm[::-1]
        out = np.empty(xm.shape, dtype=object)
        acc = None
        for i in range(xm.shape[0]):
            acc = xm[i] if acc is None else _ew(fn, acc, xm[i])
            if isinstance(acc, np.ndarray) and acc.ndim == 0:
                acc = acc[()]
            out[i] = acc
        if reverse:
            out = out[::-1]
        return np.moveaxis(out, 0, axis)
    return cum


def _pad(x, pv, padding_config):
    x, pv = to_obj(x), to_obj(pv)
    if any(int(i) != 0 for _, _, i in padding_config):
        raise symx.EngineLimit("pad with interior padding")
    lo = [int(c[0]) for c in padding_config]
    hi = [int(c[1]) for c in padding_config]
    if any(v < 0 for v in lo + hi):
        sl = tuple(slice(max(0, -l), x.shape[i] - max(0, -h)) for i, (l, h) in enumerate(zip(lo, hi)))
        x = x[sl]
        lo, hi = [max(0, v) for v in lo], [max(0, v) for v in hi]
    out = np.empty([x.shape[i] + lo[i] + hi[i] for i in range(x.ndim)], dtype=object)
    out[...] = pv[()]
    out[tuple(slice(lo[i], lo[i] + x.shape[i]) for i in range(x.ndim))] = x
    return out


def _fft(x, fft_type, fft_lengths, **_):
    """explicit DFT sum with exact roots of unity (small sizes only)"""
    x = to_obj(x)
    name = str(fft_type)
    inverse = "IFFT" in name
    if "RFFT" in name:
        raise symx.EngineLimit("real FFT variants")
    axes = list(range(x.ndim - len(fft_lengths), x.ndim))
    out = x
    for ax in axes:
        n = out.shape[ax]
        om = np.moveaxis(out, ax, 0)
        res = np.empty(om.shape, dtype=object)
        for k in range(n):
            acc = 0
            for j in range(n):
                w = sp.exp((1 if inverse else -1) * 2 * sp.pi * sp.I * sp.Rational(j * k, n))
                acc = acc + sp.nsimplify(w) * om[j]
            res[k] = acc / n if inverse else acc
        out = np.moveaxis(res, 0, ax)
    return out


class Evaluator:
    def __init__(self):
        self.used = set()

    def run(self, closed, args):
        return self.eval_jaxpr(closed.jaxpr, closed.consts, args)

    def eval_jaxpr(self, jaxpr, consts, args):
        try:
            from jax.extend.core import Literal as _Literal
        except ImportError:
            from jax._src.core import Literal as _Literal
        env = {}

        def read(v):
            if isinstance(v, _Literal):
                return np.asarray(v.val)
            return env[v]

        for v, c in zip(jaxpr.constvars, consts):
            env[v] = _concrete(c)
        assert len(jaxpr.invars) == len(args), (len(jaxpr.invars), len(args))
        for v, a in zip(jaxpr.invars, args):
            env[v] = a
        for eqn in jaxpr.eqns:
            invals = [read(v) for v in eqn.invars]
            outs = self.eval_eqn(eqn, invals)
            if not eqn.primitive.multiple_results:
                outs = [outs]
            for v, o in zip(eqn.outvars, outs):
                env[v] = o
        return [read(v) for v in jaxpr.outvars]

    def eval_eqn(self, eqn, invals):
        import jax
        name = eqn.primitive.name
        p = eqn.params
        self.used.add(name)
        symbolic = any(_is_sym(a) for a in invals)
        # ---- structured / higher-order primitives (always interpreted: their bodies may touch symbols through closures)
        if name in ("pjit", "jit", "closed_call", "core_call", "remat", "checkpoint", "custom_lin"):
            cj = p.get("jaxpr") or p.get("call_jaxpr")
            if hasattr(cj, "jaxpr"):
                return self.eval_jaxpr(cj.jaxpr, cj.consts, invals)
            return self.eval_jaxpr(cj, [], invals)
        if name in ("custom_jvp_call", "custom_vjp_call", "custom_vjp_call_jaxpr"):
            cj = p.get("call_jaxpr") or p.get("fun_jaxpr")
            return self.eval_jaxpr(cj.jaxpr, cj.consts, invals)
        if name == "cond":
            idx = invals[0]
            if _is_sym(idx):
                t = _truth(idx[()])
                if t is None:
                    raise symx.EngineLimit("cond on a symbolic predicate")
                idx = int(t)
            br = p["branches"][int(np.asarray(idx))]
            return self.eval_jaxpr(br.jaxpr, br.consts, invals[1:])
        if name == "scan":
            return self._scan(p, invals)
        if name == "while":
            return self._while(p, invals)
        if name.startswith("opaque_"):
            return _eval_opaque(name, invals[0])
        if not symbolic:
            out = eqn.primitive.bind(*[a if _is_key(a) else jax.numpy.asarray(a) for a in invals], **p)
            return [_concrete(o) for o in out] if eqn.primitive.multiple_results else _concrete(out)
        # ---- element-wise
        if name in _UNARY:
            return _ew(_UNARY[name], invals[0])
        if name in _BINARY:
            return _ew(_BINARY[name], invals[0], invals[1])
        if name == "integer_pow":
            y = p["y"]
            return _ew(lambda x: x ** y, invals[0])
        if name == "select_n":
            return _select(invals[0], *invals[1:])
        if name == "clamp":
            return _ew(lambda lo, x, hi: _min(_max(x, lo), hi), *invals)
        if name == "convert_element_type":
            nd = np.dtype(p["new_dtype"])
            if np.issubdtype(nd, np.integer) or nd == np.bool_:
                x = to_obj(invals[0])
                if all(getattr(e, "is_integer", False) or e in (sp.true, sp.false) for e in x.ravel()):
                    return x

                def b2i(e):
                    # a symbolic predicate (comparison of symbolic reals) cast to bool/int: decided concolically at the shadow point
                    if getattr(e, "is_integer", False) or e in (sp.true, sp.false):
                        return e
                    if isinstance(e, (sp.logic.boolalg.BooleanFunction, sp.core.relational.Relational)):
                        t = _truth(e)
                        if t is not None:
                            return (sp.true if t else sp.false) if nd == np.bool_ else sp.Integer(1 if t else 0)
                    raise symx.EngineLimit("cast of a symbolic real to an integer/boolean dtype")
                return _ew(b2i, x)
            def b2f(e):
                if isinstance(e, (sp.logic.boolalg.BooleanFunction, sp.core.relational.Relational, sp.logic.boolalg.BooleanAtom)):
                    t = _truth(e)
                    if t is not None:
                        return sp.Integer(1 if t else 0)
                    return sp.Piecewise((1, e), (0, True))
                return e
            return _ew(b2f, invals[0])
        # ---- shapes
        if name == "broadcast_in_dim":
            x = to_obj(invals[0])
            shape, bd = tuple(p["shape"]), tuple(p["broadcast_dimensions"])
            idx = [None] * len(shape)
            tmp_shape = [1] * len(shape)
            for i, d in enumerate(bd):
                tmp_shape[d] = x.shape[i]
            return np.broadcast_to(x.reshape(tmp_shape), shape).copy()
        if name == "reshape":
            return to_obj(invals[0]).reshape(tuple(p["new_sizes"]))
        if name == "squeeze":
            return np.squeeze(to_obj(invals[0]), axis=tuple(p["dimensions"]))
        if name == "expand_dims":
            return np.expand_dims(to_obj(invals[0]), tuple(p["dimensions"]))
        if name == "transpose":
            return to_obj(invals[0]).transpose(tuple(p["permutation"]))
        if name == "rev":
            return np.flip(to_obj(invals[0]), axis=tuple(p["dimensions"]))
        if name == "stack":
            return np.stack([to_obj(a) for a in invals], axis=p.get("axis", 0))
        if name == "concatenate":
            return np.concatenate([to_obj(a) for a in invals], axis=p["dimension"])
        if name == "slice":
            st = p["strides"] or [1] * len(p["start_indices"])
            return to_obj(invals[0])[tuple(slice(int(a), int(b), int(s)) for a, b, s in zip(p["start_indices"], p["limit_indices"], st))]
        if name == "dynamic_slice":
            x = to_obj(invals[0])
            starts = [int(np.asarray(s)) for s in invals[1:]]
            sizes = p["slice_sizes"]
            starts = [min(max(s, 0), x.shape[i] - sizes[i]) for i, s in enumerate(starts)]
            return x[tuple(slice(s, s + n) for s, n in zip(starts, sizes))]
        if name == "dynamic_update_slice":
            x, u = to_obj(invals[0]).copy(), to_obj(invals[1])
            starts = [int(np.asarray(s)) for s in invals[2:]]
            starts = [min(max(s, 0), x.shape[i] - u.shape[i]) for i, s in enumerate(starts)]
            x[tuple(slice(s, s + n) for s, n in zip(starts, u.shape))] = u
            return x
        if name == "pad":
            return _pad(invals[0], invals[1], p["padding_config"])
        if name == "split":
            x = to_obj(invals[0])
            return list(np.split(x, np.cumsum(p["sizes"])[:-1], axis=p["axis"]))
        if name == "gather":
            return self._gather(p, invals)
        if name in ("scatter-add", "scatter_add", "scatter", "scatter-mul", "scatter_mul"):
            return self._scatter(name, p, invals)
        # ---- reductions and contractions
        if name == "reduce_sum":
            return _reduce(lambda a, b: a + b, sp.Integer(0))(invals[0], **p)
        if name == "reduce_prod":
            return _reduce(lambda a, b: a * b, sp.Integer(1))(invals[0], **p)
        if name == "reduce_max":
            return _reduce(_max, None)(invals[0], **p)
        if name == "reduce_min":
            return _reduce(_min, None)(invals[0], **p)
        if name == "reduce_and":
            return _reduce(lambda a, b: sp.And(a, b), sp.true)(invals[0], **p)
        if name == "reduce_or":
            return _reduce(lambda a, b: sp.Or(a, b), sp.false)(invals[0], **p)
        if name == "cumsum":
            return _cum(lambda a, b: a + b)(invals[0], **p)
        if name == "cumprod":
            return _cum(lambda a, b: a * b)(invals[0], **p)
        if name == "dot_general":
            return _dot_general(invals[0], invals[1], **p)
        if name == "fft":
            return _fft(invals[0], **p)
        raise symx.EngineLimit(f"jaxpr primitive '{name}' is outside Engine J's table")

    def _scatter(self, name, p, invals):
        """scatter / scatter-add / scatter-mul with concrete indices: the landing position of every update element is found by
        letting JAX's own primitive scatter-add a one-hot update into zeros (exact: scatter only moves elements; out-of-bounds
        updates are dropped exactly as XLA drops them)"""
        import jax
        x, idx, upd = invals
        if _is_sym(idx):
            raise symx.EngineLimit("scatter with symbolic indices")
        xs, us = to_obj(x).copy(), to_obj(upd)
        params = {k: v for k, v in p.items()}
        zeros = jax.numpy.zeros(xs.shape)
        flat_out = xs.reshape(-1)
        for k, u in enumerate(us.ravel()):
            onehot = np.zeros(us.size)
            onehot[k] = 1.
            land = np.asarray(jax.lax.scatter_add(zeros, jax.numpy.asarray(idx), jax.numpy.asarray(onehot.reshape(us.shape)),
                                                  params["dimension_numbers"], indices_are_sorted=params.get("indices_are_sorted", False),
                                                  unique_indices=params.get("unique_indices", False), mode=params.get("mode"))).reshape(-1)
            pos = np.nonzero(land)[0]
            if len(pos) == 0:
                continue            # dropped (out of bounds)
            if len(pos) != 1:
                raise symx.EngineLimit("scatter: an update element lands on several positions")
            if name.startswith("scatter-add") or name == "scatter_add":
                flat_out[pos[0]] = flat_out[pos[0]] + u
            elif "mul" in name:
                flat_out[pos[0]] = flat_out[pos[0]] * u
            else:
                flat_out[pos[0]] = u
        return flat_out.reshape(xs.shape)

    def _gather(self, p, invals):
        """only the index patterns produced by x[i] / x[i, j] / jnp.take with concrete integer indices"""
        import jax
        x, idx = invals
        if _is_sym(idx):
            raise symx.EngineLimit("gather with symbolic indices")
        xs = to_obj(x)
        # evaluate through jax on an array of positions, then look the positions up (exact: gather only moves elements)
        pos = np.arange(xs.size).reshape(xs.shape)
        sel = np.asarray(jax.lax.gather_p.bind(jax.numpy.asarray(pos), jax.numpy.asarray(idx), **{k: v for k, v in p.items() if k != "fill_value"},
                                               fill_value=-1))
        out = np.empty(sel.shape, dtype=object)
        fl = xs.ravel()
        for i, s in np.ndenumerate(sel):
            if s < 0:
                raise symx.EngineLimit("out-of-bounds gather")
            out[i] = fl[int(s)]
        return out

    def _scan(self, p, invals):
        length, rev = p["length"], p["reverse"]
        cj = p["jaxpr"]
        if "ft_in" in p:            # newer JAX: flat-tree descriptions of (consts, carry, xs) and (carry, ys)
            consts, carry, xs = [list(g) for g in p["ft_in"].update(list(invals)).unpack()]
            split_out = lambda outs: [list(g) for g in p["ft_out"].update(list(outs)).unpack()]  # noqa: E731
        else:
            nc, ncar = p["num_consts"], p["num_carry"]
            consts, carry, xs = list(invals[:nc]), list(invals[nc:nc + ncar]), list(invals[nc + ncar:])
            split_out = lambda outs: [list(outs[:ncar]), list(outs[ncar:])]  # noqa: E731
        jaxpr, jconsts = (cj.jaxpr, cj.consts) if hasattr(cj, "jaxpr") else (cj, [])
        ys = None
        order = range(length - 1, -1, -1) if rev else range(length)
        for i in order:
            xi = [np.asarray(x)[i] if not _is_sym(x) else x[i] for x in xs]
            outs = self.eval_jaxpr(jaxpr, jconsts, list(consts) + list(carry) + xi)
            carry, y = split_out(outs)
            if ys is None:
                ys = [[None] * length for _ in y]
            for k, yy in enumerate(y):
                ys[k][i] = yy
        stacked = []
        for col in (ys or []):
            if any(_is_sym(np.asarray(c)) for c in col):
                stacked.append(np.stack([to_obj(c) for c in col]))
            else:
                stacked.append(np.stack([np.asarray(c) for c in col]))
        return list(carry) + stacked

    def _while(self, p, invals):
        cn, bn = p["cond_nconsts"], p["body_nconsts"]
        cj, bj = p["cond_jaxpr"], p["body_jaxpr"]
        cc, bc, carry = invals[:cn], invals[cn:cn + bn], list(invals[cn + bn:])
        for _ in range(10000):
            c = self.eval_jaxpr(cj.jaxpr, cj.consts, list(cc) + carry)[0]
            if _is_sym(np.asarray(c)):
                t = _truth(np.asarray(c)[()])
                if t is None:
                    raise symx.EngineLimit("while loop with a symbolic condition")
                c = t
            if not bool(np.asarray(c)):
                return carry
            carry = list(self.eval_jaxpr(bj.jaxpr, bj.consts, list(bc) + carry))
        raise symx.EngineLimit("while loop did not terminate within 10000 iterations")


def sym_call(fun, example_args, sym_args, static_kwargs=None):
    """trace fun(*example_args) with JAX, evaluate the jaxpr with the leaves of sym_args (same pytree structure; leaves are
    numeric arrays or object arrays of sympy expressions) and return the output pytree with object/numeric array leaves"""
    import jax
    f = (lambda *a: fun(*a, **static_kwargs)) if static_kwargs else fun
    closed, out_shape = jax.make_jaxpr(f, return_shape=True)(*example_args)
    leaves_ex, tree_in = jax.tree_util.tree_flatten(tuple(example_args))
    leaves_sym, tree_sym = jax.tree_util.tree_flatten(tuple(sym_args), is_leaf=lambda x: isinstance(x, np.ndarray))
    if tree_in != tree_sym:
        raise ValueError(f"symbolic arguments have another pytree structure: {tree_sym} vs {tree_in}")
    for a, b in zip(leaves_ex, leaves_sym):
        if np.shape(a) != np.shape(b):
            raise ValueError(f"shape mismatch between example and symbolic leaf: {np.shape(a)} vs {np.shape(b)}")
    ev = Evaluator()
    outs = ev.run(closed, [np.asarray(x) if not _is_sym(x) else x for x in leaves_sym])
    out_leaves, out_tree = jax.tree_util.tree_flatten(out_shape)
    res = jax.tree_util.tree_unflatten(out_tree, outs)
    return res, ev.used


def symbols(shape, name, **assump):
    n = int(np.prod(shape, dtype=int))
    a = np.empty(n, dtype=object)
    for i in range(n):
        a[i] = sp.Symbol(f"{name}{i}" if n > 1 or shape != () else name, **assump)
    return a.reshape(shape)


# ---------------------------------------------------------------------------------------------- uninterpreted functions
_OPAQUE = {}


def opaque(name, scalar_out=False):
    """a JAX-traceable *uninterpreted* function: a primitive with an abstract-evaluation rule only.  make_jaxpr records it as an
    equation; Engine J evaluates it as sympy Function applications  name_j(all input entries)  (one per output entry), so that
    an identity proved with it holds for every function of that shape (e.g. every potential-energy gradient)."""
    import jax
    from jax.extend.core import Primitive
    if name in _OPAQUE:
        return _OPAQUE[name][0]
    prim = Primitive(f"opaque_{name}")

    def abstract(x):
        from jax.core import ShapedArray
        return ShapedArray(() if scalar_out else x.shape, x.dtype)
    prim.def_abstract_eval(abstract)

    def call(x):
        return prim.bind(jax.numpy.asarray(x))
    _OPAQUE[name] = (call, scalar_out)
    return call


def _eval_opaque(name, x):
    base = name[len("opaque_"):]
    scalar_out = _OPAQUE[base][1]
    xs = [sp.expand(e) for e in to_obj(x).ravel()]
    if scalar_out:
        return np.array(sp.Function(base, real=True)(*xs), dtype=object)
    out = np.empty(len(xs), dtype=object)
    for j in range(len(xs)):
        out[j] = sp.Function(f"{base}{j}", real=True)(*xs)
    return out.reshape(np.shape(x))


# ---------------------------------------------------------------------------------------------- exact solve and symbolic noise
def exact_cg(mat, j, x0=None, **_kw):
    """stands for nifty.re's conjugate gradient under assumption A-CGEXACT: returns the exact solution of mat(x) == j.
    Traceable: the dense matrix is obtained by applying `mat` to the unit vectors and is solved by Gaussian elimination without
    pivoting written in plain arithmetic (valid for generic symbolic entries)."""
    import jax.numpy as jnp
    from jax.flatten_util import ravel_pytree
    fj, unravel = ravel_pytree(j)
    n = fj.shape[0]
    cols = [ravel_pytree(mat(unravel(jnp.zeros(n, dtype=fj.dtype).at[i].set(1.))))[0] for i in range(n)]
    A = [[cols[c][r] for c in range(n)] for r in range(n)]
    b = [fj[r] for r in range(n)]
    for k in range(n):
        for r in range(k + 1, n):
            f = A[r][k] / A[k][k]
            for c in range(k, n):
                A[r][c] = A[r][c] - f * A[k][c]
            b[r] = b[r] - f * b[k]
    x = [None] * n
    for r in range(n - 1, -1, -1):
        s = b[r]
        for c in range(r + 1, n):
            s = s - A[r][c] * x[c]
        x[r] = s / A[r][r]
    return unravel(jnp.stack(x)), 0


class NoiseFeed:
    """replaces nifty.re's random_like inside a traced function: white noise is taken, in call order, from a flat traced array
    (which Engine J then binds to symbols xi_k), so that a sample becomes a linear form in the xi"""

    def __init__(self, flat):
        self.flat, self.pos = flat, 0

    def __call__(self, key, primals, rng=None):
        import jax
        import jax.numpy as jnp

        def take(leaf):
            shp = tuple(leaf.shape)
            n = int(np.prod(shp, dtype=int))
            out = self.flat[self.pos:self.pos + n].reshape(shp)
            self.pos += n
            return out
        return jax.tree_util.tree_map(take, primals, is_leaf=lambda x: hasattr(x, "shape") and hasattr(x, "dtype") and not isinstance(x, (dict, list, tuple)))


def linear_form(es, xis):
    """(constants, C) with es[i] == const[i] + sum_k C[i,k] xi_k, read off by substitution (xi = 0, xi = e_k); raises ValueError if an
    entry is not linear in the xi (decided at exact rational points, then by simplification)"""
    from .objx import zero_status
    rows, consts = [], []
    zero = {x: 0 for x in xis}
    for e in es:
        e = sp.sympify(e)
        c0 = e.subs(zero)
        row = []
        for k, x in enumerate(xis):
            one = dict(zero)
            one[x] = 1
            row.append(e.subs(one) - c0)
        recon = c0 + sum(r * x for r, x in zip(row, xis))
        st = zero_status(e - recon, n=4, simplify_seconds=3)
        if st[0] == "refuted":
            raise ValueError(f"not linear in the noise: {st[2][:200]}")
        rows.append(row)
        consts.append(c0)
    return consts, sp.Matrix(rows)
