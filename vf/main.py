"""./check <id> [--tier quick|thorough] [--replay <file>] [--jobs N] [--only <section substring>]"""
import argparse
import importlib
import json
import multiprocessing as mp
import os
import sys
import time
import traceback

ROOT = os.path.dirname(os.path.dirname(os.path.abspath(__file__)))


def _setup_paths():
    repo = os.environ.get("VERIF_REPO", "/repo")
    # the working tree under verification takes precedence over the editable install
    sys.path.insert(0, repo)
    sys.path.insert(0, ROOT)
    os.environ.setdefault("JAX_PLATFORMS", "cpu")
    os.environ.setdefault("OMP_NUM_THREADS", "1")
    os.environ.setdefault("XLA_FLAGS", "--xla_cpu_multi_thread_eigen=false intra_op_parallelism_threads=1")
    return repo


def _run_section(args):
    pid, idx, tier, seed = args
    from vf import report
    mod = importlib.import_module(f"contracts.{pid}")
    fn = mod.SECTIONS[idx]
    sec = report.Section(pid, fn.__name__.replace("sec_", ""), tier, seed)
    t0 = time.time()
    try:
        fn(sec)
    except KeyboardInterrupt:
        raise
    except BaseException as e:  # noqa: BLE001  (engine control exceptions are BaseExceptions; a pool worker must never die of one)
        if type(e).__name__ == "EngineLimit":
            sec.obligation("the section stays within the engine's reach", "undecided", backend="engine",
                           detail=f"EngineLimit: {e}\n{traceback.format_exc()[-1500:]}")
        else:
            sec.part.errors.append(f"{sec.name}: section crashed\n{traceback.format_exc()}")
    sec.part.wall = time.time() - t0
    return sec.part


def main(argv=None):
    ap = argparse.ArgumentParser()
    ap.add_argument("pid")
    ap.add_argument("--tier", default=os.environ.get("VERIF_TIER", "quick"), choices=["quick", "thorough"])
    ap.add_argument("--replay")
    ap.add_argument("--jobs", type=int, default=int(os.environ.get("VERIF_JOBS", "0")))
    ap.add_argument("--only")
    a = ap.parse_args(argv)
    repo = _setup_paths()
    seed = int(os.environ.get("VERIF_SEED", "0"))
    from vf import report
    t0 = time.time()
    if a.replay:
        rp = json.load(open(a.replay))
        print(json.dumps(rp, indent=1)[:4000])
        return 0
    crashed = None
    parts = []
    meta = {}
    replayers = {}
    try:
        mod = importlib.import_module(f"contracts.{a.pid}")
        meta = mod.META
        replayers = getattr(mod, "REPLAY", {})
        idxs = [i for i, f in enumerate(mod.SECTIONS) if not a.only or a.only in f.__name__]
        if a.tier == "quick":
            idxs = [i for i in idxs if not getattr(mod.SECTIONS[i], "thorough_only", False)]
        jobs = a.jobs or min(16, len(idxs))
        work = [(a.pid, i, a.tier, seed) for i in idxs]
        if jobs <= 1 or len(work) <= 1:
            parts = [_run_section(w) for w in work]
        else:
            ctx = mp.get_context("fork")
            with ctx.Pool(jobs, maxtasksperchild=1) as pool:
                parts = pool.map(_run_section, work, chunksize=1)
    except Exception:  # noqa: BLE001
        crashed = traceback.format_exc()
        sys.stderr.write(crashed)
    for p in parts:
        for e in p.errors:
            sys.stderr.write(e + "\n")
    code = report.finish(a.pid, a.tier, seed, meta, parts, time.time() - t0, replayers, crashed)
    return code


if __name__ == "__main__":
    sys.exit(main())
