"""Theory FS: ghost file system with micro-steps and crash points (DESIGN 2.1, C24/C25).

path -> ('complete', content) | ('torn', None).  Every mutating call is split into micro-steps
(open(...,'w') truncates; write / pickle.dump = torn/partial then complete; close; remove; replace is
atomic) and `tick` raises Crash at the chosen micro-step.  Crash derives from BaseException so that the
code under contract cannot swallow it."""
import copy
import os as _os


class Crash(BaseException):
    pass


class GhostFS:
    def __init__(self, files=None, crash_at=None):
        self.files = dict(files or {})
        self.steps = 0
        self.crash_at = crash_at
        self.log = []

    def snapshot(self):
        return dict(self.files)

    def tick(self, what):
        self.steps += 1
        self.log.append(what)
        if self.crash_at is not None and self.steps == self.crash_at:
            raise Crash(what)

    # ---- shims -----------------------------------------------------------------------------------
    def rebind(self):
        fs = self

        class _File:
            def __init__(self, fn, mode):
                self.fn, self.mode = fn, mode
                if "x" in mode:                   # exclusive creation
                    if fn in fs.files:
                        raise FileExistsError(17, "File exists", fn)
                    fs.files[fn] = ("torn", None) if "b" in mode else ("complete", "")
                    fs.tick(f"create {_os.path.basename(fn)}")
                elif "w" in mode:
                    fs.files[fn] = ("torn", None) if "b" in mode else ("complete", "")
                    fs.tick(f"truncate {_os.path.basename(fn)}")
                elif "a" in mode:
                    if fn not in fs.files:
                        fs.files[fn] = ("complete", "")
                        fs.tick(f"create {_os.path.basename(fn)}")
                elif fn not in fs.files:
                    raise FileNotFoundError(fn)

            def __enter__(self):
                return self

            def __exit__(self, *a):
                if "w" in self.mode or "a" in self.mode or "x" in self.mode:
                    fs.tick(f"close {_os.path.basename(self.fn)}")
                return False

            def write(self, s):
                if "b" in self.mode:              # binary write of an opaque object: torn, then complete
                    fs.files[self.fn] = ("torn", None)
                    fs.tick(f"partial write {_os.path.basename(self.fn)}")
                    fs.files[self.fn] = ("complete", s)
                    fs.tick(f"write {_os.path.basename(self.fn)}")
                    return
                st, c = fs.files[self.fn]
                c = c if isinstance(c, str) else ""
                fs.files[self.fn] = ("complete", c + s[:len(s) // 2])
                fs.tick(f"partial write {_os.path.basename(self.fn)}")
                fs.files[self.fn] = ("complete", c + s)
                fs.tick(f"write {_os.path.basename(self.fn)}")

            def read(self):
                st, c = fs.files[self.fn]
                if st == "torn":
                    return b"" if "b" in self.mode else ""
                return c

        class _Pickle:
            HIGHEST_PROTOCOL = 5

            @staticmethod
            def dump(obj, f, protocol=None):
                fs.files[f.fn] = ("torn", None)
                fs.tick(f"partial dump {_os.path.basename(f.fn)}")
                fs.files[f.fn] = ("complete", obj)
                fs.tick(f"dump {_os.path.basename(f.fn)}")

            @staticmethod
            def load(f):
                st, c = fs.files[f.fn]
                if st == "torn":
                    raise EOFError("Ran out of input")
                return c

        class _Path:
            join = staticmethod(_os.path.join)
            basename = staticmethod(_os.path.basename)
            dirname = staticmethod(_os.path.dirname)
            split = staticmethod(_os.path.split)
            abspath = staticmethod(lambda p: p)

            @staticmethod
            def isfile(p):
                return isinstance(p, str) and p in fs.files

            @staticmethod
            def isdir(p):
                return True

            exists = isfile

        class _OS:
            path = _Path

            @staticmethod
            def makedirs(*a, **k):
                pass

            @staticmethod
            def remove(p):
                if p not in fs.files:
                    raise FileNotFoundError(p)
                del fs.files[p]
                fs.tick(f"remove {_os.path.basename(p)}")

            @staticmethod
            def replace(a, b):
                if a not in fs.files:
                    raise FileNotFoundError(a)
                fs.files[b] = fs.files.pop(a)
                fs.tick(f"replace {_os.path.basename(a)} -> {_os.path.basename(b)}")

            rename = replace

            @staticmethod
            def listdir(d):
                return [_os.path.basename(p) for p in fs.files if _os.path.dirname(p) == d]

        class _PPath:
            def __init__(self, p):
                self.p = str(p)

            def unlink(self, missing_ok=False):
                if self.p not in fs.files:
                    if missing_ok:
                        return
                    raise FileNotFoundError(self.p)
                del fs.files[self.p]
                fs.tick(f"unlink {_os.path.basename(self.p)}")

        class _Pathlib:
            Path = _PPath

        return dict(open=lambda fn, mode="r", **k: _File(fn, mode), pickle=_Pickle, os=_OS, makedirs=_OS.makedirs,
                    isfile=_Path.isfile, isdir=_Path.isdir, join=_os.path.join, pathlib=_Pathlib)
