"""Contract-checking recording communicator (mpi4py signatures) for running the real distributed code
of nifty.cl once per rank in threads.  Used by C22/C26 (C23 carries its own copy with event traces).
libmpi cannot be loaded in this sandbox, so this stands for A-MPI: FIFO per pair, collectives as documented."""
import queue
import threading


class ContractViolation(Exception):
    pass


class World:
    abort = False

    def __init__(self, n):
        self.n = n
        self.q = {(a, b): queue.Queue() for a in range(n) for b in range(n)}
        self.coll = {}
        self.lock = threading.Lock()
        self.cv = threading.Condition(self.lock)
        self.violations = []
        self.coll_count = [0] * n
        self.nmsg = 0

    def collective(self, rank, name, value, combine):
        idx = self.coll_count[rank]
        self.coll_count[rank] += 1
        with self.cv:
            slot = self.coll.setdefault(idx, dict(name=name, vals={}))
            if slot["name"] != name:
                self.violations.append(f"collective mismatch at #{idx}: {slot['name']} vs {name}")
            slot["vals"][rank] = value
            self.cv.notify_all()
            ok = self.cv.wait_for(lambda: len(slot["vals"]) == self.n or self.abort, timeout=8)
            if len(slot["vals"]) != self.n:
                self.abort = True
                raise ContractViolation(f"collective {name} #{idx} not reached by all ranks")
        return combine([slot["vals"][r] for r in range(self.n)])


class Comm:
    def __init__(self, w, rank):
        self.w, self.rank = w, rank

    def Get_size(self):
        return self.w.n

    def Get_rank(self):
        return self.rank

    def Barrier(self):
        self.w.collective(self.rank, "Barrier", None, lambda vs: None)

    def allgather(self, x):
        return self.w.collective(self.rank, "allgather", x, list)

    def allreduce(self, x):
        return self.w.collective(self.rank, "allreduce", x, lambda vs: sum(vs[1:], vs[0]))

    def bcast(self, obj, root=0):
        return self.w.collective(self.rank, f"bcast[{root}]", obj, lambda vs: vs[root])

    def Bcast(self, buf, root=0):
        out = self.w.collective(self.rank, f"Bcast[{root}]", buf.copy(), lambda vs: vs[root])
        buf[...] = out

    def send(self, obj, dest):
        self.w.nmsg += 1
        self.w.q[(self.rank, dest)].put(obj)

    Send = send

    def recv(self, source=None):
        if source is None:
            self.w.violations.append(f"rank {self.rank}: receive does not name its source")
            self.w.abort = True
            raise ContractViolation("wildcard receive")
        for _ in range(400):
            try:
                return self.w.q[(source, self.rank)].get(timeout=0.02)
            except queue.Empty:
                if self.w.abort:
                    raise ContractViolation("aborted")
        self.w.abort = True
        raise ContractViolation(f"rank {self.rank}: no message from {source}")

    def Recv(self, buf, source=None):
        buf[...] = self.recv(source)


def run_ranks(n, fn):
    """fn(comm, rank) once per rank in threads; returns (results, errors, world)"""
    w = World(n)
    res, errs = [None] * n, [None] * n

    def work(r):
        try:
            res[r] = fn(Comm(w, r), r)
        except BaseException as e:  # noqa: BLE001
            errs[r] = e
            w.abort = True
    th = [threading.Thread(target=work, args=(r,), daemon=True) for r in range(n)]
    for t in th:
        t.start()
    for t in th:
        t.join(30)
    if any(t.is_alive() for t in th):
        errs = [e or TimeoutError("rank did not finish") for e in errs]
    return res, errs, w


# ---------------------------------------------------------------------------------------------- per-rank RNG stacks
class _TLStack:
    """nifty.cl.random keeps its seed-sequence / generator stacks in two module-level lists.  Real MPI ranks are separate processes and
    each has its own copy; ranks simulated by threads get their own copy through this thread-local stand-in (a list per thread,
    initialised from the state at installation time)."""

    def __init__(self, init):
        import copy
        self._init = list(init)
        self._tl = threading.local()
        self._copy = copy

    def _l(self):
        if not hasattr(self._tl, "lst"):
            self._tl.lst = [self._copy.deepcopy(x) for x in self._init]
        return self._tl.lst

    def __getitem__(self, i):
        return self._l()[i]

    def __len__(self):
        return len(self._l())

    def __iter__(self):
        return iter(self._l())

    def append(self, x):
        self._l().append(x)

    def pop(self, *a):
        return self._l().pop(*a)

    def __reduce__(self):
        return (list, (list(self._l()),))


class per_rank_rng:
    """context manager: nifty.cl.random's stacks become per-thread for the duration of a simulated multi-rank run"""

    def __enter__(self):
        import nifty.cl.random as rnd
        self.rnd, self.old = rnd, (rnd._sseq, rnd._rng)
        rnd._sseq, rnd._rng = _TLStack(rnd._sseq), _TLStack(rnd._rng)
        return self

    def __exit__(self, *exc):
        self.rnd._sseq, self.rnd._rng = self.old
        return False
