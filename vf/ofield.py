"""Symbolic fields for Engine O (sympy elements): worlds of named inputs, tangents, flattening, identity aggregation.
Shared by the contracts that run real operator graphs on multi-domains (C04, C05, C18, C19, C20)."""
import itertools

import numpy as np
import sympy as sp

from .objx import SX, eq_status, exprs

_SHADOWS = [sp.Rational(7, 10), sp.Rational(13, 10), sp.Rational(3, 10), sp.Rational(9, 10), sp.Rational(11, 10),
            sp.Rational(1, 2), sp.Rational(17, 10), sp.Rational(6, 10), sp.Rational(4, 5), sp.Rational(6, 5),
            sp.Rational(2, 5), sp.Rational(3, 2)]


def sym_field(ift, dom, name, shadow=None, sh=None, **assump):
    """Field of fresh sympy symbols on `dom`; returns (field, [symbols])"""
    dt = ift.DomainTuple.make(dom)
    n = int(np.prod(dt.shape, dtype=int))
    arr = np.empty(n, dtype=object)
    syms = []
    for i in range(n):
        s = sp.Symbol(f"{name}{i}", **assump)
        syms.append(s)
        arr[i] = SX(s)
        if shadow is not None:
            shadow[s] = next(sh)
    return ift.Field(dt, arr.reshape(dt.shape)), syms


class MultiWorld:
    """a symbolic MultiField input with the given keys (all on n-pixel unstructured domains unless doms is given)"""

    def __init__(self, ift, keys, n=2, sign="positive", doms=None):
        self.ift, self.keys, self.n = ift, tuple(keys), n
        kw = dict(positive=True) if sign == "positive" else dict(real=True)
        self.shadow = {}
        self._sh = itertools.cycle(_SHADOWS)
        self.dom = ift.UnstructuredDomain(n)
        self.dt = ift.DomainTuple.make(self.dom)
        self.doms = {k: ift.DomainTuple.make((doms or {}).get(k, self.dom)) for k in self.keys}
        self.fields, self.syms = {}, {}
        for k in self.keys:
            self.fields[k], self.syms[k] = sym_field(ift, self.doms[k], k, self.shadow, self._sh, **kw)
        self.x = ift.MultiField.from_dict(self.fields)
        self.domain = self.x.domain

    def with_concrete(self, cvals):
        """a copy of the world in which the given keys hold float arrays instead of symbols"""
        if not cvals:
            return self
        import copy
        W = copy.copy(self)
        W.fields, W.syms = dict(self.fields), dict(self.syms)
        for k, v in cvals.items():
            W.fields[k] = self.ift.makeField(self.doms[k], np.asarray(v, dtype=float))
            W.syms[k] = []
        W.x = self.ift.MultiField.from_dict(W.fields)
        return W

    def part(self, keys):
        return self.ift.MultiField.from_dict({k: self.fields[k] for k in keys})

    def tangent(self, keys=None, name="t", zero=()):
        """symbolic tangent on the given keys (exact zeros on the keys in `zero`)"""
        ift = self.ift
        keys = self.keys if keys is None else keys
        fl, sy = {}, {}
        for k in keys:
            if k in zero:
                fl[k] = ift.Field(self.doms[k], np.zeros(self.doms[k].shape))
                sy[k] = [sp.Integer(0)] * int(np.prod(self.doms[k].shape, dtype=int))
            else:
                fl[k], sy[k] = sym_field(ift, self.doms[k], f"{name}{k}", real=True)
        return ift.MultiField.from_dict(fl), sy

    def directional(self, V, tsyms, keys):
        """sum over the given keys of dV/dx_i * t_i (sympy's own derivative of the value expression)"""
        out = 0
        for k in keys:
            for s, t in zip(self.syms[k], tsyms[k]):
                out = out + sp.diff(V, s) * t
        return out

    def box(self):
        return {str(s): ((sp.Rational(1, 10), 2) if s.is_positive else (-2, 2)) for k in self.keys for s in self.syms[k]}


def flat(f):
    """expressions of a Field / MultiField / Linearization value / scalar in a canonical order"""
    from nifty.cl.multi_field import MultiField
    if hasattr(f, "jac") and hasattr(f, "val") and not hasattr(f, "asnumpy"):
        f = f.val
    if isinstance(f, MultiField):
        out = []
        for k in sorted(f.keys()):
            out += exprs(f[k].asnumpy())
        return out
    if hasattr(f, "asnumpy"):
        return exprs(f.asnumpy())
    return exprs(np.asarray(f, dtype=object))


def all_equal(chk, label, got, want, pc=None, domain=None, n=4):
    """one obligation: the expression lists agree entry-wise (symbolic identities)"""
    if len(got) != len(want):
        chk.obligation(label, "refuted", backend="sympy", detail=f"{len(got)} entries returned, {len(want)} expected")
        return False
    worst = ("discharged", "sympy", "")
    for a, b in zip(got, want):
        st = eq_status(a, b, pc=pc, domain=domain, n=n)
        if st[0] != "discharged":
            worst = st
            break
        if st[1] != "sympy":
            worst = st
    chk.obligation(label, worst[0], backend=worst[1], detail=worst[2])
    return worst[0] == "discharged"


def sym_like(ift, dom, name, **assump):
    """symbolic Field or MultiField on an arbitrary (multi-)domain"""
    if isinstance(dom, ift.MultiDomain):
        return ift.MultiField.from_dict({k: sym_field(ift, dom[k], f"{name}{k}", **assump)[0] for k in dom.keys()})
    return sym_field(ift, dom, name, **assump)[0]


# ---------------------------------------------------------------------------------------------- sampling on symbols
class SXNoise:
    """white-noise sources as sympy symbols: Random.normal is re-bound to fresh real symbols xi_k (unit variance, independent).
    A sample is then a linear form in the xi; its covariance is C C^T with C the coefficient matrix (lemma L-COV)."""

    def __init__(self):
        self.src = []

    def normal(self, dtype, shape, mean=0., std=1.):
        if np.issubdtype(np.dtype(dtype), np.complexfloating):
            from . import symx
            raise symx.EngineLimit("complex white noise is not modelled for sympy elements")
        n = int(np.prod(shape, dtype=int))
        a = np.empty(n, dtype=object)
        for i in range(n):
            s = sp.Symbol(f"xi{len(self.src)}", real=True)
            self.src.append(s)
            a[i] = SX(s * std + mean) if (std != 1. or mean != 0.) else SX(s)
        return a.reshape(shape)

    def coefficient_matrix(self, es):
        """(constant terms, C) with es[i] == const[i] + sum_k C[i,k] xi_k; raises if an entry is not linear in the sources"""
        rows, consts = [], []
        zero = {s: 0 for s in self.src}
        for e in es:
            e = sp.expand(sp.sympify(e))
            row = [sp.diff(e, s) for s in self.src]
            if any(r.has(*self.src) for r in row if self.src):
                raise ValueError(f"not linear in the noise sources: {e}")
            rows.append(row)
            consts.append(sp.simplify(e.subs(zero)))
        return consts, sp.Matrix(rows) if rows else sp.zeros(0, 0)


def flatten_field(f):
    return flat(f)


def unflatten_like(ift, dom, es):
    """Field/MultiField on dom from a flat list of sympy expressions (canonical order of flat())"""
    def mk(dt, chunk):
        arr = np.empty(len(chunk), dtype=object)
        for i, e in enumerate(chunk):
            arr[i] = SX(e)
        return ift.Field(dt, arr.reshape(dt.shape))
    if isinstance(dom, ift.MultiDomain):
        out, pos = {}, 0
        for k in sorted(dom.keys()):
            n = int(np.prod(dom[k].shape, dtype=int))
            out[k] = mk(dom[k], es[pos:pos + n])
            pos += n
        return ift.MultiField.from_dict(out, domain=dom)
    return mk(dom, es)


def dense_matrix(ift, op, mode="times"):
    """sympy Matrix of a linear operator (rows: flat target, columns: flat domain), by applying it to unit vectors"""
    dom = op.domain if mode in ("times", "inverse_times") else op.target
    n = sum(int(np.prod(dom[k].shape, dtype=int)) for k in dom.keys()) if isinstance(dom, ift.MultiDomain) else int(np.prod(dom.shape, dtype=int))
    cols = []
    for i in range(n):
        e = [sp.Integer(0)] * n
        e[i] = sp.Integer(1)
        cols.append(flat(getattr(op, mode)(unflatten_like(ift, dom, e))))
    return sp.Matrix([[cols[j][i] for j in range(n)] for i in range(len(cols[0]))]) if cols else sp.zeros(0, 0)


class ExactCG:
    """stands for ConjugateGradient under assumption A-CGEXACT: returns the exact minimiser A^-1 b of the quadratic energy"""
    ift = None
    simplify = True          # closed forms are simplified entry by entry (cheap for sparse systems; switch off for dense symbolic matrices)

    log = []                 # one entry per call: (consistent?, detail) -- the call-site precondition of the solver's contract (C14): the
                             # energy's gradient is A x - b at its position.  Contracts that install ExactCG must discharge it.

    def __init__(self, controller=None, nreset=20):
        pass

    def __call__(self, energy, preconditioner=None):
        ift = ExactCG.ift
        A, b = energy._A, energy._b
        try:
            want = flat(A(energy.position) - b)
            got = flat(energy.gradient)
            bad = [str(sp.simplify(sp.expand(g - w)))[:200] for g, w in zip(got, want) if sp.expand(g - w) != 0 and sp.simplify(sp.expand(g - w)) != 0]
            ExactCG.log.append((not bad and len(got) == len(want), "; ".join(bad[:2])))
        except Exception as e:  # noqa: BLE001
            ExactCG.log.append((False, f"{type(e).__name__}: {e}"[:200]))
        M = dense_matrix(ift, A)
        x = list(M.LUsolve(sp.Matrix(flat(b))))
        if ExactCG.simplify:
            x = [sp.simplify(e) for e in x]
        return energy.at(unflatten_like(ift, A.domain, x)), 0

    @classmethod
    def discharge(cls, chk, label):
        """emit the call-site precondition obligation for all solver calls since the last discharge"""
        calls, cls.log = cls.log, []
        bad = [d for ok, d in calls if not ok]
        chk.obligation(f"{label}: every energy handed to the conjugate-gradient solver is consistent (gradient == A x - b at its position; {len(calls)} calls) "
                       "-- call-site precondition of the solver's contract (C14)", "discharged" if calls and not bad else ("refuted" if bad else "undecided"),
                       backend="contract-stub", detail="; ".join(bad[:2]) if bad else ("" if calls else "the solver was never called"))


import contextlib  # noqa: E402


@contextlib.contextmanager
def np_proxy(module, **overrides):
    """inside the context `module.np` is a proxy of NumPy with the given functions replaced (e.g. isnan -> False, A-REAL)"""
    real_np = module.np

    class _NP:
        def __getattr__(self, name):
            return getattr(real_np, name)
    prox = _NP()
    for k, v in overrides.items():
        setattr(prox, k, v)
    module.np = prox
    try:
        yield
    finally:
        module.np = real_np


def isnan_real(x):
    """A-REAL: symbolic reals are never NaN"""
    if isinstance(x, SX) or (isinstance(x, np.ndarray) and x.dtype == object):
        return False
    return np.isnan(x)


@contextlib.contextmanager
def allow_object_dtype():
    """the library validates sampling dtypes with utilities.check_dtype_or_none; a dtype derived from symbolic data is `object`.
    Inside this context that one value is accepted as 'float' (the symbols are real: A-REAL); all other values are checked as usual."""
    import sys
    saved = []
    for name, mod in list(sys.modules.items()):
        if name.startswith("nifty.cl") and mod is not None and hasattr(mod, "check_dtype_or_none"):
            orig = mod.check_dtype_or_none

            def wrapped(dtype, domain=None, _orig=orig):
                if dtype is object or dtype == np.dtype(object):
                    return
                if isinstance(dtype, dict):
                    dtype = {k: (np.float64 if (v is object or v == np.dtype(object)) else v) for k, v in dtype.items()}
                return _orig(dtype, domain)
            saved.append((mod, orig))
            mod.check_dtype_or_none = wrapped
    try:
        yield
    finally:
        for mod, orig in saved:
            mod.check_dtype_or_none = orig
