"""Symbolic fields for Engine O (sympy elements): worlds of named inputs, tangents, flattening, identity aggregation.
Shared by the contracts that run real operator graphs on multi-domains (C04, C05, C18, C19, C20)."""
import itertools

import numpy as np
import sympy as sp

from .objx import SX, eq_status, exprs

_SHADOWS = [sp.Rational(7, 10), sp.Rational(13, 10), sp.Rational(3, 10), sp.Rational(9, 10), sp.Rational(11, 10),
            sp.Rational(1, 2), sp.Rational(17, 10), sp.Rational(6, 10), sp.Rational(4, 5), sp.Rational(6, 5),
            sp.Rational(2, 5), sp.Rational(3, 2)]


def sym_field(ift, dom, name, shadow=None, sh=None, **assump):
    """Field of fresh sympy symbols on `dom`; returns (field, [symbols])"""
    dt = ift.DomainTuple.make(dom)
    n = int(np.prod(dt.shape, dtype=int))
    arr = np.empty(n, dtype=object)
    syms = []
    for i in range(n):
        s = sp.Symbol(f"{name}{i}", **assump)
        syms.append(s)
        arr[i] = SX(s)
        if shadow is not None:
            shadow[s] = next(sh)
    return ift.Field(dt, arr.reshape(dt.shape)), syms


class MultiWorld:
    """a symbolic MultiField input with the given keys (all on n-pixel unstructured domains unless doms is given)"""

    def __init__(self, ift, keys, n=2, sign="positive", doms=None):
        self.ift, self.keys, self.n = ift, tuple(keys), n
        kw = dict(positive=True) if sign == "positive" else dict(real=True)
        self.shadow = {}
        self._sh = itertools.cycle(_SHADOWS)
        self.dom = ift.UnstructuredDomain(n)
        self.dt = ift.DomainTuple.make(self.dom)
        self.doms = {k: ift.DomainTuple.make((doms or {}).get(k, self.dom)) for k in self.keys}
        self.fields, self.syms = {}, {}
        for k in self.keys:
            self.fields[k], self.syms[k] = sym_field(ift, self.doms[k], k, self.shadow, self._sh, **kw)
        self.x = ift.MultiField.from_dict(self.fields)
        self.domain = self.x.domain

    def with_concrete(self, cvals):
        """a copy of the world in which the given keys hold float arrays instead of symbols"""
        if not cvals:
            return self
        import copy
        W = copy.copy(self)
        W.fields, W.syms = dict(self.fields), dict(self.syms)
        for k, v in cvals.items():
            W.fields[k] = self.ift.makeField(self.doms[k], np.asarray(v, dtype=float))
            W.syms[k] = []
        W.x = self.ift.MultiField.from_dict(W.fields)
        return W

    def part(self, keys):
        return self.ift.MultiField.from_dict({k: self.fields[k] for k in keys})

    def tangent(self, keys=None, name="t", zero=()):
        """symbolic tangent on the given keys (exact zeros on the keys in `zero`)"""
        ift = self.ift
        keys = self.keys if keys is None else keys
        fl, sy = {}, {}
        for k in keys:
            if k in zero:
                fl[k] = ift.Field(self.doms[k], np.zeros(self.doms[k].shape))
                sy[k] = [sp.Integer(0)] * int(np.prod(self.doms[k].shape, dtype=int))
            else:
                fl[k], sy[k] = sym_field(ift, self.doms[k], f"{name}{k}", real=True)
        return ift.MultiField.from_dict(fl), sy

    def directional(self, V, tsyms, keys):
        """sum over the given keys of dV/dx_i * t_i (sympy's own derivative of the value expression)"""
        out = 0
        for k in keys:
            for s, t in zip(self.syms[k], tsyms[k]):
                out = out + sp.diff(V, s) * t
        return out

    def box(self):
        return {str(s): ((sp.Rational(1, 10), 2) if s.is_positive else (-2, 2)) for k in self.keys for s in self.syms[k]}


def flat(f):
    """expressions of a Field / MultiField / Linearization value / scalar in a canonical order"""
    from nifty.cl.multi_field import MultiField
    if hasattr(f, "jac") and hasattr(f, "val") and not hasattr(f, "asnumpy"):
        f = f.val
    if isinstance(f, MultiField):
        out = []
        for k in sorted(f.keys()):
            out += exprs(f[k].asnumpy())
        return out
    if hasattr(f, "asnumpy"):
        return exprs(f.asnumpy())
    return exprs(np.asarray(f, dtype=object))


def all_equal(chk, label, got, want, pc=None, domain=None, n=4):
    """one obligation: the expression lists agree entry-wise (symbolic identities)"""
    if len(got) != len(want):
        chk.obligation(label, "refuted", backend="sympy", detail=f"{len(got)} entries returned, {len(want)} expected")
        return False
    worst = ("discharged", "sympy", "")
    for a, b in zip(got, want):
        st = eq_status(a, b, pc=pc, domain=domain, n=n)
        if st[0] != "discharged":
            worst = st
            break
        if st[1] != "sympy":
            worst = st
    chk.obligation(label, worst[0], backend=worst[1], detail=worst[2])
    return worst[0] == "discharged"


def sym_like(ift, dom, name, **assump):
    """symbolic Field or MultiField on an arbitrary (multi-)domain"""
    if isinstance(dom, ift.MultiDomain):
        return ift.MultiField.from_dict({k: sym_field(ift, dom[k], f"{name}{k}", **assump)[0] for k in dom.keys()})
    return sym_field(ift, dom, name, **assump)[0]
