#!/bin/sh
# tools/try_second_copy.sh <pid> [check args] -- like try_second.sh, but the change is applied to a scratch copy of the package (VERIF_REPO);
# /repo is not touched, so other checks may run at the same time
P=$1; shift
mkdir -p /verif/seeded/_pending/${P}b
cp /tmp/wt-${P}b-out/patch.diff /tmp/wt-${P}b-out/demo.py /verif/seeded/_pending/${P}b/ || exit 1
cp /tmp/wt-${P}b-out/notes.md /verif/seeded/_pending/${P}b/ 2>/dev/null
git -C /repo worktree remove --force /tmp/wt-${P}b 2>/dev/null
T=$(mktemp -d /tmp/nifty-2nd-XXXX); cp -r /repo/nifty $T/nifty
patch -p1 -s -d $T -i /verif/seeded/_pending/${P}b/patch.diff || { rm -rf $T; exit 1; }
VERIF_REPO=$T VERIF_EVIDENCE_DIR=$T/ev VERIF_REPLAY_DIR=$T/rp /verif/check $P --tier quick "$@" 2>&1 | grep "^UNDEC\|^VIOL\|^CRASH\|^KNOWN\|^\[$P" | sed 's/replay=[^ ]*//' | cut -c1-300 | sort | uniq -c | sort -rn | head -${SEED_LINES:-5}
rm -rf $T
