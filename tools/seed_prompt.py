#!/usr/bin/env python3
"""prints the prompt given to an independent sub-agent that seeds a property-breaking change (it sees only the property text)"""
import json, sys
pid = sys.argv[1]
tests = sys.argv[2] if len(sys.argv) > 2 else "test/test_cl"
avoid = sys.argv[3] if len(sys.argv) > 3 else ""
suffix = sys.argv[4] if len(sys.argv) > 4 else ""
p = [json.loads(l) for l in open("/verif/properties.jsonl") if json.loads(l)["id"] == pid][0]
wt = f"/tmp/wt-{pid}{suffix}"
print(f"""You are helping to evaluate a verification tool by producing a realistic *regression* in a Python library.

The library is NIFTy (Bayesian imaging library, NumPy part `nifty.cl`, JAX part `nifty.re`). You have your own scratch git worktree of it at {wt} (work ONLY there; never touch /repo, never look at or touch /verif). Python with all dependencies: /venv/bin/python (run things with `cd {wt} && PYTHONPATH=/tmp/nompi_stub:{wt} /venv/bin/python ...` so that `import nifty` resolves to your worktree — verify this with `python -c "import nifty; print(nifty.__file__)"`; /tmp/nompi_stub holds an empty `mpi4py` stub that makes nifty.cl fall back to serial mode, because libmpi is missing in this sandbox; keep it on PYTHONPATH). No network.

This semantic property of the library is supposed to hold:

"{p['title']}. {p['statement']}"
(Intended scope: {p['quantifier']['text']})

Your task: make ONE small source change (a few lines, in the library source under {wt}/nifty/, not in tests) that BREAKS this property, while the code still imports and the existing test suite still passes. The change should look like a plausible mistake or "optimisation" a developer could make, and it must need something SPECIFIC to manifest — e.g. a particular multi-step sequence of operations, an unusual but valid input, a rarely used option or code path, or two cooperating sites that each look fine alone — NOT something every ordinary use would expose at once.""" + (f"""

An earlier regression of this kind already exists; yours must be in a DIFFERENT place: {avoid}""" if avoid else "") + f"""

Deliverables, written to {wt}-out/ :
1. patch.diff — `git -C {wt} diff` of your change (source only).
2. demo.py — a small standalone program that exits 0 and prints PASS on the unmodified library and exits non-zero / prints FAIL with your change applied (it will be run as `cd <tree> && PYTHONPATH=/tmp/nompi_stub:<tree> /venv/bin/python /path/to/demo.py`). It must show the property itself violated.
3. notes.md — what the change is, what exactly is needed for it to manifest, and which existing tests you ran.

Checks you must do yourself: (a) demo passes on the unmodified worktree and fails with the change (to test the unmodified tree do NOT use `git stash` -- the stash is shared between parallel worktrees; use `git diff > /tmp/<your>.diff; git apply -R /tmp/<your>.diff; ...; git apply /tmp/<your>.diff`); (b) the relevant existing tests still pass with the change: run at least `cd {wt} && PYTHONPATH=/tmp/nompi_stub:{wt} /venv/bin/python -m pytest -q -p no:cacheprovider -n 4 {tests}` before and after; the set of passing tests must not shrink. Keep CPU use moderate (at most `-n 4`). Leave the worktree with your change applied when done. Report briefly (under 150 words) what you did.""")
