#!/bin/sh
# tools/confirm_seed.sh <seed-name> <worktree> <outdir> <property> "<pytest targets>"
# Confirms a seeded change: demo passes on /repo (unchanged), fails on the worktree with the change,
# the given existing tests give the same outcome with the change; then stores it under seeded/<name>/.
set -u
NAME=$1; WT=$2; OUT=$3; PID=$4; TESTS=$5
DEST=/verif/seeded/$NAME
mkdir -p $DEST
cp $OUT/patch.diff $DEST/patch.diff
cp $OUT/demo.py $DEST/demo.py
[ -f $OUT/notes.md ] && cp $OUT/notes.md $DEST/notes.md
(cd /repo && JAX_PLATFORMS=cpu PYTHONPATH=/tmp/nompi_stub:/repo timeout 600 /venv/bin/python $DEST/demo.py >$DEST/demo_unchanged.log 2>&1); A=$?
(cd $WT && JAX_PLATFORMS=cpu PYTHONPATH=/tmp/nompi_stub:$WT timeout 600 /venv/bin/python $DEST/demo.py >$DEST/demo_changed.log 2>&1); B=$?
echo "demo on unchanged tree: exit $A ; with the change: exit $B"
if [ -n "$TESTS" ]; then
  (cd /repo && JAX_PLATFORMS=cpu PYTHONPATH=/tmp/nompi_stub:/repo timeout 3000 /venv/bin/python -m pytest -q -p no:cacheprovider -n 8 $TESTS 2>&1 | tail -1 > $DEST/tests_unchanged.log)
  (cd $WT && JAX_PLATFORMS=cpu PYTHONPATH=/tmp/nompi_stub:$WT timeout 3000 /venv/bin/python -m pytest -q -p no:cacheprovider -n 8 $TESTS 2>&1 | tail -1 > $DEST/tests_changed.log)
  echo "tests unchanged: $(cat $DEST/tests_unchanged.log)"; echo "tests changed:   $(cat $DEST/tests_changed.log)"
fi
tail -c 300 $DEST/demo_changed.log
