#!/usr/bin/env python3
"""Regenerates MANIFEST.json from contracts/*.py META and contracts/not_applicable.json.
A property is claimed iff contracts/<id>.py exists and has META['claimed'] != False."""
import importlib
import json
import os
import sys

ROOT = os.path.dirname(os.path.dirname(os.path.abspath(__file__)))
sys.path.insert(0, ROOT)
props = [json.loads(l) for l in open(os.path.join(ROOT, "properties.jsonl"))]
na = json.load(open(os.path.join(ROOT, "contracts", "not_applicable.json")))
checks, not_app = [], []
ENGINES = dict(symx=("symx", "vf.vs", "ghostfs"), objx=("objx", "ofield", "anyobj"), jaxsym=("jaxsym",))


def engines_of(pid, seen=()):
    """engines a contract file uses, from its imports (following contracts it re-uses)"""
    import re
    src = open(os.path.join(ROOT, "contracts", f"{pid}.py")).read()
    out = [e for e, pats in ENGINES.items() if any(re.search(rf"(from|import) [\w., ]*{re.escape(p.split('.')[-1])}", src) for p in pats)]
    for other in re.findall(r"from contracts import (C\d\d)|from contracts\.(C\d\d) import", src):
        o = other[0] or other[1]
        if o != pid and o not in seen:
            out += [e for e in engines_of(o, seen + (pid,)) if e not in out]
    return out


for p in props:
    pid = p["id"]
    fn = os.path.join(ROOT, "contracts", f"{pid}.py")
    meta = None
    if os.path.exists(fn):
        # read META without importing heavy deps: exec only the META assignment
        import ast
        tree = ast.parse(open(fn).read())
        for node in tree.body:
            if isinstance(node, ast.Assign) and getattr(node.targets[0], "id", None) == "META":
                meta = eval(compile(ast.Expression(node.value), fn, "eval"))
    if meta and meta.get("claimed", True):
        meta.setdefault("engine", "+".join(engines_of(pid)) or "runtime-contracts")
        c = dict(property_id=pid,
                 quick_cmd=f"./check {pid} --tier quick",
                 thorough_cmd=f"./check {pid} --tier thorough",
                 evidence_file=f"evidence/{pid}.json",
                 replay_cmd_template=f"./check {pid} --replay {{path}}",
                 engine=meta.get("engine", "symx"),
                 level_claimed=dict(category=meta["level"], text=meta["text"], design_ref=meta.get("design_ref", "DESIGN.md section 4")),
                 level_note=meta["note"],
                 technique=meta["technique"])
        checks.append(c)
    else:
        reason = na.get(pid) or (meta or {}).get("na_reason") or "not built yet (see DESIGN.md section 8)"
        not_app.append(dict(property_id=pid, reason=reason))
man = dict(
    version=1,
    setup_cmd="./setup.sh",
    hooks=dict(guard="NIFTY_PPL_NIFTY_VERIF", enable="no hooks are needed: contracts are sidecar files, functions are re-read from /repo's "
               "working tree on every run and stubs/shims are bound in namespace copies inside the check's own process",
               baseline_off_cmd="cd /repo && /venv/bin/python -m pytest -ra -q -p no:cacheprovider --timeout=900 --continue-on-collection-errors -n 16 test",
               source_commits=[], add_only=True),
    engines=[
        dict(name="symx", path="vf/symx.py", kind_free_text="Engine S: CPython-hosted symbolic execution of the re-compiled real source, "
             "loop cuts with sidecar invariants, VCs discharged by z3 (cvc5 on unknown); abstract theories in vf/vs.py etc.",
             serves_properties=[c["property_id"] for c in checks if "symx" in c["engine"]]),
        dict(name="objx", path="vf/objx.py", kind_free_text="Engine O/C: the installed NIFTy classes run unmodified on NumPy object arrays of "
             "symbolic elements (sympy or z3); postconditions become identities decided by sympy/z3 for all values",
             serves_properties=[c["property_id"] for c in checks if "objx" in c["engine"]]),
        dict(name="jaxsym", path="vf/jaxsym.py", kind_free_text="Engine J: jax.make_jaxpr traces the real nifty.re functions; the jaxpr is evaluated primitive by "
             "primitive on arrays of sympy expressions (concolic decisions at a shadow point, uninterpreted primitives for abstract callables); "
             "postconditions become sympy identities",
             serves_properties=[c["property_id"] for c in checks if "jaxsym" in c["engine"]]),
    ],
    checks=checks,
    notes="Contract-based deductive verification with a self-built VC generator (no Python verifier is installed). See DESIGN.md. "
          "Exit codes of ./check: 0 held, 1 violation, 2 undecided, 3 checker crash.",
    not_applicable=not_app,
)
json.dump(man, open(os.path.join(ROOT, "MANIFEST.json"), "w"), indent=1)
print(f"MANIFEST.json: {len(checks)} checks, {len(not_app)} not_applicable")
try:
    import jsonschema
    jsonschema.validate(man, json.load(open("/root/.vp/MANIFEST.schema.json")))
    print("schema ok")
except ImportError:
    pass
