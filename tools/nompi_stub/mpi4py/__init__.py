# stub: no MPI module, so "from mpi4py import MPI" raises ImportError and nifty.cl falls back to serial
