#!/bin/sh
# tools/confirm_second.sh <pid> <pending-dir-name> <seed-name> "<pytest targets>"   -- like confirm_pending.sh for additional seeds of a property
set -u
PID=$1; PEND=$2; NAME=$3; TESTS=$4
WT=/tmp/wtc-$PEND
git -C /repo worktree add -q --detach $WT HEAD || exit 1
git -C $WT apply /verif/seeded/_pending/$PEND/patch.diff || { git -C /repo worktree remove --force $WT; exit 1; }
[ -d /tmp/nompi_stub ] || cp -r /verif/tools/nompi_stub /tmp/nompi_stub
/verif/tools/confirm_seed.sh $NAME $WT /verif/seeded/_pending/$PEND $PID "$TESTS"
git -C /repo worktree remove --force $WT
rm -rf /verif/seeded/_pending/$PEND
