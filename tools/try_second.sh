#!/bin/sh
# tools/try_second.sh <pid> [check args]  -- takes a second-round sub-agent's deliverables from /tmp/wt-<pid>b-out, removes its worktree,
# and runs the property's quick check on /repo with the change applied (evidence redirected, /repo restored)
P=$1; shift
mkdir -p /verif/seeded/_pending/${P}b
cp /tmp/wt-${P}b-out/patch.diff /tmp/wt-${P}b-out/demo.py /verif/seeded/_pending/${P}b/ || exit 1
cp /tmp/wt-${P}b-out/notes.md /verif/seeded/_pending/${P}b/ 2>/dev/null
git -C /repo worktree remove --force /tmp/wt-${P}b 2>/dev/null
cat /verif/seeded/_pending/${P}b/patch.diff | head -40
SEED_LINES=${SEED_LINES:-5} /verif/tools/run_seed.sh $P /verif/seeded/_pending/${P}b/patch.diff "$@" 2>&1 | cut -c1-330
