#!/bin/sh
# tools/confirm_pending.sh <pid> <seed-name> "<pytest targets>"
# Applies seeded/_pending/<pid>/patch.diff to a fresh scratch worktree, confirms it (demo passes unchanged / fails changed,
# existing tests same outcome), stores it as seeded/<seed-name>/ and removes the worktree.
set -u
PID=$1; NAME=$2; TESTS=$3
WT=/tmp/wtc-$PID
git -C /repo worktree add -q --detach $WT HEAD || exit 1
git -C $WT apply /verif/seeded/_pending/$PID/patch.diff || { git -C /repo worktree remove --force $WT; exit 1; }
[ -d /tmp/nompi_stub ] || cp -r /verif/tools/nompi_stub /tmp/nompi_stub
/verif/tools/confirm_seed.sh $NAME $WT /verif/seeded/_pending/$PID $PID "$TESTS"
git -C /repo worktree remove --force $WT
rm -rf /verif/seeded/_pending/$PID
