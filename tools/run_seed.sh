#!/bin/sh
# tools/run_seed.sh <pid> <patch file> [check args...]  -- applies a seeded change to /repo, runs the check with evidence and replays
# redirected to /tmp (so that committed evidence is not overwritten), and restores /repo.
PID=$1; PATCH=$2; shift 2
git -C /repo apply "$PATCH" || exit 3
VERIF_EVIDENCE_DIR=/tmp/ev-seed VERIF_REPLAY_DIR=/tmp/rp-seed /verif/check $PID --tier quick "$@" 2>&1 | grep "^UNDEC\|^VIOL\|^CRASH\|^KNOWN\|^\[$PID" | sed 's/replay=[^ ]*//' | cut -c1-300 | sort | uniq -c | sort -rn | head -${SEED_LINES:-8}
git -C /repo checkout -- .
git -C /repo status --short | head -3
