#!/usr/bin/env python3
"""Regression self-test of the checks against the stored seeded changes (DESIGN section 9.5).

  tools/seedtest.py [--jobs N] [name-or-pid ...]

For every seeded/<name>/ (patch.diff + meta.json) the library package of /repo is copied to a scratch directory OUTSIDE /repo and
/verif, the patch is applied there, the property's quick check is pointed at the copy (VERIF_REPO) with evidence and replays
redirected into the scratch directory, and the scratch directory is removed.  Expected: exit 1 with a VIOLATION line.
/repo itself is never touched.  Prints one line per seed and a summary; exit 0 iff every seed was caught."""
import concurrent.futures as cf
import json
import os
import shutil
import subprocess
import sys
import tempfile
import time

ROOT = os.path.dirname(os.path.dirname(os.path.abspath(__file__)))
REPO = os.environ.get("VERIF_REPO_BASE", "/repo")


def run(name):
    d = os.path.join(ROOT, "seeded", name)
    meta = json.load(open(os.path.join(d, "meta.json")))
    pid = meta["property"]
    tmp = tempfile.mkdtemp(prefix="nifty-seed-", dir=os.environ.get("TMPDIR", "/tmp"))
    t0 = time.time()
    try:
        shutil.copytree(os.path.join(REPO, "nifty"), os.path.join(tmp, "nifty"), ignore=shutil.ignore_patterns("__pycache__"))
        p = subprocess.run(["patch", "-p1", "-s", "-d", tmp, "-i", os.path.join(d, "patch.diff")], capture_output=True, text=True)
        if p.returncode != 0:
            return dict(name=name, pid=pid, status="patch-does-not-apply", detail=(p.stdout + p.stderr)[-300:])
        env = dict(os.environ, VERIF_REPO=tmp, VERIF_EVIDENCE_DIR=os.path.join(tmp, "evidence"), VERIF_REPLAY_DIR=os.path.join(tmp, "replays"))
        os.makedirs(env["VERIF_EVIDENCE_DIR"], exist_ok=True)
        os.makedirs(env["VERIF_REPLAY_DIR"], exist_ok=True)
        p = subprocess.run([os.path.join(ROOT, "check"), pid, "--tier", "quick"], env=env, capture_output=True, text=True)
        viol = [l for l in p.stdout.splitlines() if l.startswith("VIOLATION")]
        return dict(name=name, pid=pid, exit=p.returncode, caught=(p.returncode == 1 and bool(viol)), n_violations=len(viol),
                    first=(viol[0].split("obligation=")[-1][:160] if viol else ""), wall=round(time.time() - t0, 1),
                    no_input=sum(1 for l in viol if l.endswith("no-failing-input-found")))
    finally:
        shutil.rmtree(tmp, ignore_errors=True)


def main():
    args = [a for a in sys.argv[1:]]
    jobs = 3
    if "--jobs" in args:
        i = args.index("--jobs")
        jobs = int(args[i + 1])
        del args[i:i + 2]
    names = sorted(n for n in os.listdir(os.path.join(ROOT, "seeded")) if os.path.exists(os.path.join(ROOT, "seeded", n, "meta.json")))
    if args:
        names = [n for n in names if any(n == a or n.startswith(a + "-") for a in args)]
    bad = 0
    with cf.ThreadPoolExecutor(jobs) as ex:
        for r in ex.map(run, names):
            ok = r.get("caught")
            bad += 0 if ok else 1
            print(f"{'CAUGHT' if ok else 'MISSED'} {r['name']}: exit={r.get('exit')} violations={r.get('n_violations')} wall={r.get('wall')}s "
                  f"{r.get('status', '')} {r.get('first', '')}", flush=True)
    print(f"{len(names) - bad} of {len(names)} seeded changes caught")
    return 1 if bad else 0


if __name__ == "__main__":
    sys.exit(main())
