#!/bin/sh
# tools/refresh_all.sh [tier] [parallel]  -- runs every claimed check on /repo as it is (evidence/<id>.json and replays/ are rewritten),
# N at a time, and prints one line per check plus every VIOLATION / UNDECIDED / CRASH line. Exit 0 iff all checks exit 0.
TIER=${1:-quick}; PAR=${2:-4}
cd "$(dirname "$0")/.." || exit 3
OUT=$(mktemp -d)
ls contracts/C*.py | sed 's/.*\///;s/\.py//' | xargs -P "$PAR" -I{} sh -c 'S=$(date +%s); ./check {} --tier '"$TIER"' > '"$OUT"'/{}.log 2>&1; echo "{} exit=$? wall=$(( $(date +%s) - S ))s" >> '"$OUT"'/summary.txt'
sort "$OUT"/summary.txt
grep -h "^VIOLATION\|^UNDECIDED\|^CRASH" "$OUT"/*.log | cut -c1-300
grep -h "^KNOWN-FINDING" "$OUT"/*.log | cut -c1-160
BAD=$(grep -vc "exit=0 " "$OUT"/summary.txt)
rm -rf "$OUT"
[ "$BAD" = "0" ]
