#!/usr/bin/env python3
"""Mutation self-test driver (DESIGN section 3).

  tools/muttest.py <pid> <relative file> <old> <new> [--tier quick]
  tools/muttest.py --all [pid ...]          # run selftest/mutants.json

Copies /repo's python package to a scratch directory OUTSIDE /repo and /verif, applies one
textual edit, points the check at it via VERIF_REPO, reports whether the check fired
(exit 1 + VIOLATION) and removes the scratch copy immediately."""
import json
import os
import shutil
import subprocess
import sys
import tempfile

ROOT = os.path.dirname(os.path.dirname(os.path.abspath(__file__)))
REPO = os.environ.get("VERIF_REPO_BASE", "/repo")


def run_one(pid, rel, old, new, tier="quick", count=1, quiet=False):
    tmp = tempfile.mkdtemp(prefix="nifty-mut-", dir=os.environ.get("TMPDIR", "/tmp"))
    try:
        shutil.copytree(os.path.join(REPO, "nifty"), os.path.join(tmp, "nifty"),
                        ignore=shutil.ignore_patterns("__pycache__"))
        fn = os.path.join(tmp, rel)
        src = open(fn).read()
        if src.count(old) < 1:
            return dict(pid=pid, file=rel, status="mutant-does-not-apply")
        src = src.replace(old, new, count)
        open(fn, "w").write(src)
        env = dict(os.environ, VERIF_REPO=tmp, VERIF_EVIDENCE_DIR=os.path.join(tmp, "evidence"),
                   VERIF_REPLAY_DIR=os.path.join(tmp, "replays"))
        p = subprocess.run([os.path.join(ROOT, "check"), pid, "--tier", tier], env=env, capture_output=True, text=True)
        viol = [l for l in p.stdout.splitlines() if l.startswith("VIOLATION")]
        und = [l for l in p.stdout.splitlines() if l.startswith(("UNDECIDED", "CRASH"))]
        return dict(pid=pid, file=rel, exit=p.returncode, caught=(p.returncode == 1 and bool(viol)),
                    violations=viol[:6], other=und[:4], tail=p.stdout.splitlines()[-1:] if not quiet else [],
                    stderr=p.stderr[-600:] if p.returncode not in (0, 1) else "")
    finally:
        shutil.rmtree(tmp, ignore_errors=True)


def main():
    if sys.argv[1] == "--all":
        want = set(sys.argv[2:])
        muts = json.load(open(os.path.join(ROOT, "selftest", "mutants.json")))
        bad = 0
        for m in muts:
            if want and m["pid"] not in want:
                continue
            r = run_one(m["pid"], m["file"], m["old"], m["new"], m.get("tier", "quick"), quiet=True)
            ok = r.get("caught")
            bad += not ok
            print(("CAUGHT " if ok else "MISSED ") + f"{m['pid']} {m['name']}: exit={r.get('exit')} "
                  + (r["violations"][0][:160] if r.get("violations") else str(r.get("other") or r.get("status"))))
        sys.exit(1 if bad else 0)
    pid, rel, old, new = sys.argv[1:5]
    tier = sys.argv[6] if len(sys.argv) > 6 else "quick"
    print(json.dumps(run_one(pid, rel, old, new, tier), indent=1))


if __name__ == "__main__":
    main()
