#!/usr/bin/env python3
import json, sys
r = json.load(open(sys.argv[1]))
print("obligation:", r["obligation"])
print("detail:", (r["verifier_output"].get("detail") or "")[:300])
m = r["verifier_output"].get("model") or {}
for k, v in sorted(m.items()):
    print("   ", k, "=", v)
rp = r.get("replay") or {}
print("replay:", {k: v for k, v in rp.items() if k != "input"})
if r.get("native_replay"): print("native:", json.dumps(r["native_replay"])[:1500])
