#!/bin/sh
# Builds ./.venv (overlay on /venv: adds z3-solver, cvc5, sympy, mpmath from the offline wheelhouse).
# Idempotent, offline. Everything registered in MANIFEST.json runs through ./.venv/bin/python.
set -e
cd "$(dirname "$0")"
if [ -x .venv/bin/python ] && .venv/bin/python -c "import z3, sympy, cvc5, numpy, nifty.cl" >/dev/null 2>&1; then
    echo "setup: .venv ok"; exit 0
fi
rm -rf .venv
/venv/bin/python -m venv .venv
PIP_NO_INDEX=1 .venv/bin/python -m pip install -q --no-index --find-links /opt/veriftools/wheels \
    z3-solver cvc5 sympy mpmath
SP=$(.venv/bin/python -c "import sysconfig; print(sysconfig.get_paths()['purelib'])")
echo "import site; site.addsitedir('/venv/lib/python3.12/site-packages')" > "$SP/zz_venv_overlay.pth"
.venv/bin/python -c "import z3, sympy, cvc5, numpy, jax, nifty.cl, nifty.re; print('setup: built .venv; z3', z3.get_version_string())"
