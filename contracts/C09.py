"""C09 Harmonic transforms follow the volume convention and all backends agree.

Contracts (dense matrices of the real operators, read off by applying them to unit vectors):
  FFTOperator (position -> harmonic, sub-space s of a product domain):  times == v_s * F_s (x) 1  with v_s the pixel volume of the
      transformed space only and F the unnormalised DFT (so the zero mode of the transform is the integral of the field);
      adjoint_times == (times)^H;  inverse_times o times == 1;  adjoint_inverse_times == (inverse_times)^H;
      the harmonic -> position operator is the inverse with the codomain's volume;  other sub-domains are untouched
  HartleyOperator: the same with the real Hartley matrix  H = Re F + Im F  ("non_canonical_hartley")  or  Re F - Im F
      ("canonical_hartley"), H H = N;  complex input: real and imaginary parts separately
  HarmonicTransformOperator on RG spaces == HartleyOperator;  HarmonicSmoothingOperator(sigma) == H^-1 diag(exp(-2 pi^2 sigma^2 k^2)) H,
      a circulant convolution whose rows sum to 1, and the identity for sigma == 0
  nifty.re.correlated_field.hartley == the same Hartley transform under both conventions (Engine J on its jaxpr)
Engine O: ducc_dispatch's fftn / ifftn / hartley, as imported by harmonic_operators, are re-bound to the explicit DFT sums with exact
roots of unity on object arrays (A-FFT); symbolic field entries make every matrix entry exact.  That the native (ducc), SciPy and
JAX transforms *are* these sums is probed natively on generated arrays (bounded), also for the spherical-harmonic transform.
"""
import contextlib
import itertools

import numpy as np
import sympy as sp

from vf import jaxsym, objx
from vf.objx import SX, eq_status, exprs

META = dict(
    title="Harmonic transforms follow the volume convention and all backends agree",
    level="other",
    design_ref="DESIGN.md section 4, C09",
    technique="contracts on the dense matrices of FFTOperator / HartleyOperator / HarmonicTransformOperator (times == volume * DFT of the "
              "transformed sub-space only, adjoint == conjugate transpose, inverses invert, both Hartley conventions): the real "
              "operators run on symbolic fields with ducc's transforms re-bound to the explicit DFT sums (Engine O); the JAX hartley on "
              "its jaxpr (Engine J); native ducc / SciPy / JAX back ends, smoothing and SHT normalisation bounded natively",
    text="On 1- and 2-dimensional regular grids (sizes up to 4x3, non-unit distances), as single space and as either factor of a product "
         "with a non-unit-volume partner, under both Hartley conventions: the Fourier and Hartley operators in all four modes equal the "
         "volume-weighted (inverse) DFT / Hartley matrices of the transformed sub-space, the zero mode of a position-space field's "
         "transform is its integral, adjoints are conjugate transposes, inverses invert, harmonic->position is the inverse transform, "
         "HarmonicTransformOperator agrees with the Hartley operator; the JAX hartley is the same transform. Natively (bounded): ducc, "
         "SciPy and JAX transforms agree with the explicit sums, smoothing is the documented Gaussian convolution (identity at width "
         "0), the spherical-harmonic transform pair is adjoint and maps the monopole to a constant map.",
    note="Universal in the field values; bounded in grid shapes. Assumed (A-FFT): ducc0.fft.c2c / genuine_hartley / genuine_fht compute the "
         "DFT / Hartley sums -- probed natively on generated arrays against explicit sums (1e-12), not proved. Smoothing kernels are "
         "floating-point exponentials: native comparison with 1e-12.",
    explanation="level 'other': symbolic dense-matrix identities for enumerated grids, native bounded stand-ins for the back ends",
)


def _dft_obj(a, axes, inverse=False):
    """explicit (inverse) DFT of an object array along axes, exact roots of unity"""
    out = np.asarray(a, dtype=object)
    for ax in axes:
        n = out.shape[ax]
        om = np.moveaxis(out, ax, 0)
        res = np.empty(om.shape, dtype=object)
        for k in range(n):
            acc = 0
            for j in range(n):
                wv = sp.exp((1 if inverse else -1) * 2 * sp.pi * sp.I * sp.Rational(j * k, n))
                wv = sp.nsimplify(sp.expand_complex(wv))
                acc = acc + om[j] * SX(wv)
            res[k] = acc / n if inverse else acc
        out = np.moveaxis(res, 0, ax)
    return out


@contextlib.contextmanager
def _explicit_transforms():
    import nifty.cl.operators.harmonic_operators as ho
    from nifty.cl.any_array import AnyArray
    from nifty import config
    old = (ho.fftn, ho.ifftn, ho.hartley)

    def ax(a, axes):
        return tuple(range(a.ndim)) if axes is None else tuple(axes)

    def fftn(a, axes=None):
        return AnyArray(_dft_obj(a._val, ax(a, axes))) if a._val.dtype == object else old[0](a, axes)

    def ifftn(a, axes=None):
        return AnyArray(_dft_obj(a._val, ax(a, axes), inverse=True)) if a._val.dtype == object else old[1](a, axes)

    def hartley(a, axes=None):
        if a._val.dtype != object:
            return old[2](a, axes)
        f = _dft_obj(a._val, ax(a, axes))
        sign = 1 if config._config.get("hartley_convention") == "non_canonical_hartley" else -1
        out = np.empty(f.size, dtype=object)
        for i, e in enumerate(f.ravel()):
            ee = sp.expand(e.e) if isinstance(e, SX) else sp.sympify(e)
            out[i] = SX(sp.re(ee) + sign * sp.im(ee))
        return AnyArray(out.reshape(f.shape))
    ho.fftn, ho.ifftn, ho.hartley = fftn, ifftn, hartley
    try:
        yield
    finally:
        ho.fftn, ho.ifftn, ho.hartley = old


def _dense(ift, op, mode, cplx=False):
    """sympy Matrix of op in the given mode (rows: flat target, columns: flat domain); real unit vectors (linear operators)"""
    dom = op.domain if mode in ("times", "adjoint_inverse_times") else op.target
    n = int(np.prod(dom.shape, dtype=int))
    cols = []
    for i in range(n):
        e = np.empty(n, dtype=object)
        for j in range(n):
            e[j] = SX(sp.Integer(1 if j == i else 0))
        out = getattr(op, mode)(ift.Field(dom, e.reshape(dom.shape)))
        cols.append([sp.nsimplify(sp.expand(x), rational=False) for x in exprs(out.asnumpy())])
    return sp.Matrix([[cols[j][i] for j in range(n)] for i in range(len(cols[0]))])


def _kron_for_space(dt, space, M):
    """1 (x) M (x) 1 acting on the flattened array of dt, with M acting on sub-space `space`"""
    axs = dt.axes[space]
    pre = int(np.prod(dt.shape[:axs[0]], dtype=int))
    post = int(np.prod(dt.shape[axs[-1] + 1:], dtype=int))
    return sp.kronecker_product(sp.eye(pre), M, sp.eye(post))


def _dft_matrix(shape, inverse=False):
    n = int(np.prod(shape))
    idx = list(np.ndindex(*shape))
    M = sp.zeros(n, n)
    for r, k in enumerate(idx):
        for c, j in enumerate(idx):
            ph = sum(sp.Rational(int(kk) * int(jj), int(nn)) for kk, jj, nn in zip(k, j, shape))
            wv = sp.nsimplify(sp.expand_complex(sp.exp((1 if inverse else -1) * 2 * sp.pi * sp.I * ph)))
            M[r, c] = wv / n if inverse else wv
    return M


def _mat_eq(chk, label, A, B):
    if A.shape != B.shape:
        chk.obligation(label, "refuted", backend="sympy", detail=f"shape {A.shape} vs {B.shape}")
        return
    D = (A - B).applyfunc(lambda e: sp.nsimplify(sp.simplify(sp.expand_complex(e))))
    bad = [(i, j, D[i, j]) for i in range(D.rows) for j in range(D.cols) if D[i, j] != 0]
    if not bad:
        chk.obligation(label, "discharged", backend="sympy")
        return
    i, j, e = bad[0]
    val = complex(sp.N(e, 30))
    chk.obligation(label, "refuted" if abs(val) > 1e-20 else "undecided", backend="sympy", detail=f"entry ({i},{j}) differs by {e} = {val}")


def _cases(ift, tier):
    other = ift.RGSpace(2, distances=0.3)
    grids = {"RG(4, d=0.5)": ift.RGSpace(4, distances=0.5), "RG(3, d=2)": ift.RGSpace(3, distances=2.), "RG(2,3; d=0.5,0.25)": ift.RGSpace((2, 3), distances=(0.5, 0.25))}
    if tier == "thorough":
        grids["RG(4,3; d=1,0.5)"] = ift.RGSpace((4, 3), distances=(1., 0.5))
    for gn, g in grids.items():
        yield gn, (g,), 0
        if g.size <= 4 or tier == "thorough":
            yield f"{gn} x RG(2, d=0.3)", (g, other), 0
            yield f"RG(2, d=0.3) x {gn}", (other, g), 1


def sec_fft(chk):
    import nifty.cl as ift
    from nifty.cl.operators import harmonic_operators as ho
    chk.under_contract(ho.FFTOperator.apply)
    chk.under_contract(ho.FFTOperator.__init__)
    chk.assume("A-FFT: ducc0.fft.c2c (forward / inorm=2 backward) computes the DFT sums it is re-bound to (probed natively in sec_backends)")
    with objx.patched(complex_objects=True), _explicit_transforms():
        for name, doms, space in _cases(ift, chk.tier):
            dt = ift.DomainTuple.make(doms)
            g = dt[space]
            op = ho.FFTOperator(dt, space=space)
            v = sp.nsimplify(g.scalar_dvol, rational=True)
            vh = sp.nsimplify(op.target[space].scalar_dvol, rational=True)
            n = g.size
            F, Fi = _dft_matrix(g.shape), _dft_matrix(g.shape, inverse=True)
            T = _dense(ift, op, "times")
            lab = f"fft: {name}"
            _mat_eq(chk, f"{lab}: times == pixel volume of the transformed space * DFT on that sub-space, identity elsewhere", T, _kron_for_space(dt, space, v * F))
            zero_row = T.extract([r for r in range(T.rows) if all(T[r, c] == T[r, 0] or True for c in range(1))][:1], list(range(T.cols))) if False else None  # noqa: F841
            A = _dense(ift, op, "adjoint_times")
            _mat_eq(chk, f"{lab}: adjoint_times == conjugate transpose of times", A, T.H)
            Iv = _dense(ift, op, "inverse_times")
            _mat_eq(chk, f"{lab}: inverse_times o times == identity", Iv * T, sp.eye(T.cols))
            _mat_eq(chk, f"{lab}: inverse_times == harmonic pixel volume * N * inverse DFT", Iv, _kron_for_space(dt, space, vh * n * Fi))
            AI = _dense(ift, op, "adjoint_inverse_times")
            _mat_eq(chk, f"{lab}: adjoint_inverse_times == conjugate transpose of inverse_times", AI, Iv.H)
            chk.obligation(f"{lab}: harmonic pixel volume == 1 / (N * position pixel volume) (codomain relation)", "discharged" if sp.simplify(vh * n * v - 1) == 0 else "refuted",
                           backend="sympy")
            # the operator defined on the harmonic side is the inverse transform with the codomain's volume
            back = ho.FFTOperator(op.target, target=g, space=space)
            _mat_eq(chk, f"{lab}: the harmonic -> position operator's times == inverse_times of the position -> harmonic operator", _dense(ift, back, "times"), Iv)
            ok = op.target[space].harmonic and all(op.target[i] is dt[i] for i in range(len(dt)) if i != space)
            chk.obligation(f"{lab}: only the addressed sub-space is replaced by its harmonic partner", "discharged" if ok else "refuted", backend="identity")


def sec_hartley(chk):
    import nifty.cl as ift
    from nifty import config
    from nifty.cl.operators import harmonic_operators as ho
    chk.under_contract(ho.HartleyOperator.apply)
    chk.under_contract(ho.HartleyOperator._apply_cartesian)
    chk.under_contract(ho.HarmonicTransformOperator)
    old_conv = config._config["hartley_convention"]
    try:
        for conv, sign in (("non_canonical_hartley", 1), ("canonical_hartley", -1)):
            config.update("hartley_convention", conv)
            with objx.patched(complex_objects=False), _explicit_transforms():
                for name, doms, space in _cases(ift, chk.tier):
                    dt = ift.DomainTuple.make(doms)
                    g = dt[space]
                    op = ho.HartleyOperator(dt, space=space)
                    v = sp.nsimplify(g.scalar_dvol, rational=True)
                    vh = sp.nsimplify(op.target[space].scalar_dvol, rational=True)
                    F = _dft_matrix(g.shape)
                    H = F.applyfunc(lambda e: sp.nsimplify(sp.re(e) + sign * sp.im(e)))
                    lab = f"hartley[{conv}]: {name}"
                    T = _dense(ift, op, "times")
                    _mat_eq(chk, f"{lab}: times == pixel volume * (Re F {'+' if sign > 0 else '-'} Im F) on the sub-space", T, _kron_for_space(dt, space, v * H))
                    _mat_eq(chk, f"{lab}: adjoint_times == transpose of times", _dense(ift, op, "adjoint_times"), T.T)
                    Iv = _dense(ift, op, "inverse_times")
                    _mat_eq(chk, f"{lab}: inverse_times o times == identity", Iv * T, sp.eye(T.cols))
                    _mat_eq(chk, f"{lab}: adjoint_inverse_times == transpose of inverse_times", _dense(ift, op, "adjoint_inverse_times"), Iv.T)
                    _mat_eq(chk, f"{lab}: H H == N (the Hartley matrix is its own inverse up to N)", H * H, g.size * sp.eye(g.size))
                    ht = ho.HarmonicTransformOperator(op.target, target=g, space=space)        # defined on the harmonic side
                    hb = ho.HartleyOperator(op.target, target=g, space=space)
                    _mat_eq(chk, f"{lab}: HarmonicTransformOperator (harmonic -> position) == HartleyOperator on the same domains", _dense(ift, ht, "times"), _dense(ift, hb, "times"))
                    _mat_eq(chk, f"{lab}: the harmonic -> position Hartley operator's times == inverse_times of the position -> harmonic one", _dense(ift, hb, "times"), Iv)
            with objx.patched(complex_objects=True), _explicit_transforms():
                g = ift.RGSpace(3, distances=2.)
                dt = ift.DomainTuple.make(g)
                op = ho.HartleyOperator(dt)
                a = [sp.Symbol(f"a{i}", real=True) for i in range(3)]
                b = [sp.Symbol(f"b{i}", real=True) for i in range(3)]
                arr = np.empty(3, dtype=object)
                for i in range(3):
                    arr[i] = SX(a[i] + sp.I * b[i])
                out = exprs(op(ift.Field(dt, arr)).asnumpy())
                F = _dft_matrix((3,))
                H = F.applyfunc(lambda e: sp.nsimplify(sp.re(e) + sign * sp.im(e)))
                want = list(2 * H * sp.Matrix(a) + sp.I * 2 * H * sp.Matrix(b))
                ok = all(sp.simplify(sp.expand(x - y)) == 0 for x, y in zip(out, want))
                chk.obligation(f"hartley[{conv}]: complex input: real and imaginary parts are transformed separately", "discharged" if ok else "refuted", backend="sympy")
    finally:
        config.update("hartley_convention", old_conv)


def sec_jax_hartley(chk):
    import jax
    jax.config.update("jax_enable_x64", True)
    import jax.numpy as jnp
    from nifty import config
    from nifty.re import correlated_field as cf
    from vf.jaxsym import sym_call, symbols
    chk.under_contract(cf.hartley)
    old_conv = config._config["hartley_convention"]
    try:
        for conv, sign in (("non_canonical_hartley", 1), ("canonical_hartley", -1)):
            config.update("hartley_convention", conv)
            for shape, axes in (((4,), None), ((2, 3), None), ((2, 3), (1,)), ((3, 2), (0,))):
                x = symbols(shape, "x", real=True)
                out, used = sym_call(lambda p: cf.hartley(p, axes=axes), (jnp.ones(shape),), (x,))
                ax = tuple(range(len(shape))) if axes is None else axes
                f = _dft_obj(np.vectorize(SX, otypes=[object])(x), ax)
                want = [sp.re(sp.expand(e.e)) + sign * sp.im(sp.expand(e.e)) for e in f.ravel()]
                got = list(jaxsym.to_obj(np.asarray(out)).ravel())
                ok = all(sp.simplify(sp.expand(sp.sympify(a) - b)) == 0 for a, b in zip(got, want))
                chk.obligation(f"jax_hartley[{conv}]: shape {shape} axes {axes}: nifty.re hartley == Re F {'+' if sign > 0 else '-'} Im F of the explicit DFT",
                               "discharged" if ok else "refuted", backend="sympy")
    finally:
        config.update("hartley_convention", old_conv)


def sec_backends(chk):
    """bounded: ducc / SciPy / JAX transforms against explicit sums; smoothing; SHT"""
    import jax
    jax.config.update("jax_enable_x64", True)
    import jax.numpy as jnp
    import nifty.cl as ift
    from nifty import config
    from nifty.cl import ducc_dispatch as dd
    from nifty.cl.any_array import AnyArray
    from nifty.re import correlated_field as cf
    rng = np.random.default_rng(9 + chk.seed)
    fails, cases = [], 0

    def explicit(a, axes, inverse=False):
        out = a.astype(complex)
        for ax in axes:
            n = out.shape[ax]
            k = np.arange(n)
            W = np.exp((1 if inverse else -1) * 2j * np.pi * np.outer(k, k) / n)
            out = np.moveaxis(np.tensordot(W, np.moveaxis(out, ax, 0), axes=1), 0, ax)
            if inverse:
                out = out / n
        return out
    old_conv = config._config["hartley_convention"]
    try:
        for shape, axes in (((5,), (0,)), ((4, 3), (0, 1)), ((4, 3), (1,)), ((2, 3, 4), (0, 2)), ((6,), (0,))):
            for cplx in (False, True):
                a = rng.normal(size=shape) + (1j * rng.normal(size=shape) if cplx else 0)
                cases += 1
                F = explicit(a, axes)
                for nm, fn in (("ducc fftn", dd.fftn), ("SciPy fftn", dd._scipy_fftn)):
                    got = fn(AnyArray(a.astype(complex)), axes=axes).asnumpy()
                    if not np.allclose(got, F, rtol=1e-12, atol=1e-12):
                        fails.append(dict(case=f"{nm} shape {shape} axes {axes}: differs from the explicit DFT", detail=""))
                for nm, fn in (("ducc ifftn", dd.ifftn), ("SciPy ifftn", dd._scipy_ifftn)):
                    got = fn(AnyArray(a.astype(complex)), axes=axes).asnumpy()
                    if not np.allclose(got, explicit(a, axes, inverse=True), rtol=1e-12, atol=1e-12):
                        fails.append(dict(case=f"{nm} shape {shape} axes {axes}: differs from the explicit inverse DFT", detail=""))
                if not cplx:
                    for conv, sign in (("non_canonical_hartley", 1), ("canonical_hartley", -1)):
                        config.update("hartley_convention", conv)
                        want = F.real + sign * F.imag
                        for nm, got in (("ducc hartley", dd.hartley(AnyArray(a), axes=axes).asnumpy()), ("SciPy hartley", dd._scipy_hartley(AnyArray(a), axes=axes).asnumpy()),
                                        ("JAX hartley", np.asarray(cf.hartley(jnp.asarray(a), axes=axes)))):
                            if not np.allclose(got, want, rtol=1e-12, atol=1e-12):
                                fails.append(dict(case=f"{nm} [{conv}] shape {shape} axes {axes}: differs from Re F {'+' if sign > 0 else '-'} Im F", detail=""))
    finally:
        config.update("hartley_convention", old_conv)
    # smoothing: circulant Gaussian convolution, identity at zero width
    for doms, space, sigma in (((ift.RGSpace(8, distances=0.5),), 0, 0.7), ((ift.RGSpace((4, 6), distances=(0.5, 0.25)),), 0, 0.4),
                               ((ift.RGSpace(3, distances=0.3), ift.RGSpace(6, distances=2.)), 1, 1.5)):
        cases += 1
        dt = ift.DomainTuple.make(doms)
        op = ift.HarmonicSmoothingOperator(dt, sigma, space=space)
        g = dt[space]
        k = g.get_default_codomain().get_k_length_array().asnumpy()
        kern = np.exp(-2 * np.pi ** 2 * sigma ** 2 * k ** 2)
        x = rng.normal(size=dt.shape)
        ax = dt.axes[space]
        want = explicit(explicit(x, ax) * kern.reshape([dt.shape[i] if i in ax else 1 for i in range(len(dt.shape))]), ax, inverse=True).real
        got = op(ift.makeField(dt, x)).asnumpy()
        if not np.allclose(got, want, rtol=1e-11, atol=1e-12):
            fails.append(dict(case=f"HarmonicSmoothingOperator(sigma={sigma}) on {dt.shape}, space {space}: differs from F^-1 exp(-2 pi^2 sigma^2 k^2) F", detail=""))
        one = op(ift.full(dt, 1.)).asnumpy()
        if not np.allclose(one, 1., rtol=1e-12):
            fails.append(dict(case=f"HarmonicSmoothingOperator(sigma={sigma}): a constant field is not preserved (kernel mass != 1)", detail=""))
        ident = ift.HarmonicSmoothingOperator(dt, 0., space=space)
        if not np.array_equal(ident(ift.makeField(dt, x)).asnumpy(), x):
            fails.append(dict(case="HarmonicSmoothingOperator(sigma=0) is not the identity", detail=""))
    # spherical harmonics: adjointness with the pixel weights, and the lowest modes
    for lmax in (2, 3):
        cases += 1
        lm = ift.LMSpace(lmax)
        op = ift.SHTOperator(lm)
        tgt = op.target[0]
        a = ift.from_random(op.domain)
        y = ift.from_random(op.target)
        lhs, rhs = y.s_vdot(op(a)), op.adjoint_times(y).s_vdot(a)
        if not np.isclose(lhs, rhs, rtol=1e-11):
            fails.append(dict(case=f"SHTOperator(lmax={lmax}): <y, A x> != <A^H y, x>", detail=f"{lhs} vs {rhs}"))
        e = np.zeros(lm.shape)
        e[0] = 1.
        y00 = op(ift.makeField(lm, e)).asnumpy()
        if not np.allclose(y00, y00.ravel()[0], rtol=1e-11):          # the docstring fixes no normalisation; the monopole must at least be a constant map
            fails.append(dict(case=f"SHTOperator(lmax={lmax}): a_00 = 1 does not give a constant map", detail=f"{y00.ravel()[:3]}"))
    chk.bounded("native back ends: ducc / SciPy / JAX transforms against explicit DFT sums, smoothing, spherical-harmonic normalisation",
                bound=f"{cases} generated (shape, axes, dtype) and operator cases, 1e-12 relative", cases=cases, nontrivial=cases, failures=fails, kind="B-runtime")


def _native(ob):
    import json
    import os
    import subprocess
    import sys
    here = os.path.dirname(os.path.abspath(__file__))
    p = subprocess.run([sys.executable, os.path.join(here, "native", "C09_native.py")], capture_output=True, text=True, timeout=600)
    try:
        return json.loads(p.stdout.strip().splitlines()[-1])
    except Exception:  # noqa: BLE001
        return dict(reproduced=False, error=p.stderr[-500:])


REPLAY = {"fft: ": _native, "hartley[": _native}

SECTIONS = [sec_fft, sec_hartley, sec_jax_hartley, sec_backends]
