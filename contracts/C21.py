"""C21 Runs are reproducible and independent of execution strategy -- the part a contract can state:
the classic random-number stack discipline (nifty/cl/random.py) and the key discipline of the JAX driver.

The module source of nifty.cl.random is re-executed (current tree) in a namespace where the two module level
stacks are ghost stacks with an *arbitrary* (symbolic) number of elements below the part that is touched, and
SeedSequence / default_rng are injective token constructors.  So every statement about Context holds at every
nesting depth (induction over well-bracketed bodies).
"""
import ast
import inspect

import z3

from vf import symx
from vf.symx import Ctx, SymBool, SymInt, fresh_int, implies

META = dict(
    title="Runs are reproducible and independent of execution strategy",
    level="other",
    design_ref="DESIGN.md section 4, C21",
    technique="deductive verification of the RNG stack discipline on the re-executed module source with ghost stacks of "
              "symbolic depth (z3), syntactic frame check of the draw functions, contract on the JAX driver's key derivation",
    text="For every nesting depth: push/pop keep both stacks in step; entering and leaving a Context -- normally or by an "
         "exception -- restores both stacks to the very same objects, the exception propagates, an unbalanced body is "
         "detected, and the generator visible inside is default_rng(seed sequence of the context), created at entry. Draw "
         "functions read only the top generator. OptimizeVI derives the keys of an iteration from the state's key only.",
    note="Not applicable parts (no contract can state them): bit-identity across processes, smap/lmap/vmap and JIT "
         "round-off equivalence are statements about NumPy/XLA execution. Assumes numpy's SeedSequence/default_rng are "
         "deterministic functions of their argument (A-NUMPY) and jax.random.split is deterministic (A-JAX). "
         "Bodies of contexts are assumed well-bracketed (never pop below their entry depth).",
    explanation="level 'other': the proof obligations cover the stack discipline and key derivation for all depths and "
                "histories of well-bracketed bodies; cross-process bit-identity and execution-strategy independence are "
                "outside any contract and are not claimed; a small native run (bounded) checks getState/setState and real draws",
)

T_ = SymBool(z3.BoolVal(True))
F_ = SymBool(z3.BoolVal(False))


def _b(x):
    return x if isinstance(x, SymBool) else SymBool(z3.BoolVal(bool(x)))


class GhostStack:
    """a stack with `d0` unknown elements at the bottom and a concrete part on top"""

    def __init__(self, name, d0):
        self.name, self.d0, self.popped, self.top = name, d0, 0, []

    def depth(self):
        return self.d0 - self.popped + len(self.top)

    def append(self, x):
        self.top.append(x)

    def pop(self):
        if self.top:
            return self.top.pop()
        Ctx.cur.prove(self.d0 - self.popped >= 1, "no pop from an empty stack")
        self.popped += 1
        return ("base", self.name, self.d0 - self.popped)

    def __getitem__(self, i):
        assert i == -1
        if self.top:
            return self.top[-1]
        return ("base", self.name, self.d0 - self.popped - 1)

    def __delitem__(self, sl):
        """del stack[start:] -- truncate to `start` elements (start relative to the unknown bottom part)"""
        if not (isinstance(sl, slice) and sl.stop is None and sl.step is None):
            raise symx.EngineLimit("unsupported deletion on a ghost stack")
        start = sl.start
        k = z3.simplify((self.depth() - start).t) if isinstance(self.depth() - start, SymInt) else self.depth() - start
        if not isinstance(k, int):
            if not z3.is_int_value(k):
                raise symx.EngineLimit("ghost stack truncated to a depth that is not a constant offset from the bottom")
            k = k.as_long()
        for _ in range(max(k, 0)):
            self.pop()

    def snapshot(self):
        return (self.popped, list(self.top))


def _slen(x):
    return x.depth() if isinstance(x, GhostStack) else len(x)


class _SeedSequence:
    def __init__(self, seed=None, **kw):
        self.seed = seed
        self.kw = kw


class _NP:
    class random:
        SeedSequence = _SeedSequence

        @staticmethod
        def default_rng(sseq):
            return ("rng", sseq)      # deterministic function of the seed sequence (A-NUMPY)


def _module(d0):
    import nifty.cl.random as rnd
    src = inspect.getsource(rnd)
    ns = {"__name__": "nifty.cl.random(verif)", "__package__": "nifty.cl"}
    exec(compile(src, rnd.__file__, "exec"), ns)
    ns["np"] = _NP
    ns["len"] = _slen
    ns["_sseq"] = GhostStack("sseq", d0)
    ns["_rng"] = GhostStack("rng", d0)
    return ns


def sec_stack(chk):
    import nifty.cl.random as rnd
    for f in (rnd.push_sseq, rnd.push_sseq_from_seed, rnd.pop_sseq, rnd.current_rng, rnd.spawn_sseq,
              rnd.Context.__init__, rnd.Context.__enter__, rnd.Context.__exit__):
        chk.under_contract(f)
    chk.assume("A-NUMPY: SeedSequence(seed) and default_rng(sseq) are deterministic functions of their argument")
    chk.note("module source re-executed with ghost stacks; class invariant: len(_sseq) == len(_rng)")

    def run(ctx):
        d0 = fresh_int("depth")
        ctx.assume(d0 >= 1)
        m = _module(d0)
        S, R = m["_sseq"], m["_rng"]
        # push / pop keep the stacks in step
        s1 = _SeedSequence(101)
        m["push_sseq"](s1)
        ctx.prove((S.depth() == d0 + 1) & (R.depth() == d0 + 1), "push_sseq: both stacks grow by one")
        ctx.prove(_b(S[-1] is s1 and R[-1] == ("rng", s1)), "push_sseq: the new generator is default_rng(pushed seed sequence)")
        ctx.prove(_b(m["current_rng"]() == ("rng", s1)), "current_rng is the top of the generator stack")
        m["push_sseq_from_seed"](7)
        ctx.prove((S.depth() == d0 + 2) & (R.depth() == d0 + 2) & _b(R[-1] == ("rng", S[-1]) and S[-1].seed == 7),
                  "push_sseq_from_seed: both stacks grow by one, generator built from SeedSequence(seed)")
        m["pop_sseq"]()
        m["pop_sseq"]()
        ctx.prove((S.depth() == d0) & (R.depth() == d0) & _b(S.snapshot() == (0, []) and R.snapshot() == (0, [])),
                  "pop_sseq undoes push_sseq: both stacks are as before")
        m["pop_sseq"]()
        ctx.prove((S.depth() == d0 - 1) & (R.depth() == d0 - 1), "pop_sseq: both stacks shrink by one")
    chk.explore(run, tag="pushpop")

    bodies = ["balanced", "balanced-raises", "extra-push", "extra-pop", "extra-push-raises"]
    for body in bodies:
        for seedkind in ("int", "sseq"):
            def run_ctx(ctx, body=body, seedkind=seedkind):
                d0 = fresh_int("depth")
                ctx.assume(d0 >= 2)
                m = _module(d0)
                S, R = m["_sseq"], m["_rng"]
                before = (S.snapshot(), R.snapshot())
                seed = 4242 if seedkind == "int" else _SeedSequence(99)
                c = m["Context"](seed)
                sseq_c = c._sseq
                ctx.prove(_b((sseq_c is seed) if seedkind == "sseq" else (isinstance(sseq_c, _SeedSequence) and sseq_c.seed == seed)),
                          "Context: uses the given seed sequence, or SeedSequence(seed) for an int")
                outcome = None
                exc_seen = None

                class Boom(Exception):
                    pass
                try:
                    with c:
                        ctx.prove(_b(R[-1] == ("rng", sseq_c)) & (S.depth() == d0 + 1),
                                  "inside the context the generator is default_rng(the context's seed sequence), created at entry")
                        # a well-bracketed inner history (inner contexts, pushes with matching pops) leaves the stacks
                        # unchanged: induction hypothesis.  Unbalanced bodies:
                        if body.startswith("extra-push"):
                            m["push_sseq"](_SeedSequence(5))
                        if body == "extra-pop":
                            m["pop_sseq"]()
                        if body.endswith("raises"):
                            raise Boom("from the body")
                    outcome = "normal"
                except Boom as e:
                    outcome, exc_seen = "boom", e
                except RuntimeError as e:
                    outcome, exc_seen = "runtime", e
                if body == "balanced":
                    ctx.prove(_b(outcome == "normal"), "balanced body: leaving the context raises nothing")
                    ctx.prove(_b((S.snapshot(), R.snapshot()) == before),
                              "balanced body: both stacks are the very same objects as before the context")
                elif body == "balanced-raises":
                    ctx.prove(_b(outcome == "boom"), "exception in the body propagates out of the context")
                    ctx.prove(_b((S.snapshot(), R.snapshot()) == before),
                              "exception in the body: both stacks are restored all the same")
                elif body == "extra-push-raises":
                    # the property does not say which of the two errors wins; it must not be swallowed
                    ctx.prove(_b(outcome in ("runtime", "boom")), "unbalanced body that raises: an exception leaves the context")
                else:
                    ctx.prove(_b(outcome == "runtime"), "unbalanced body: leaving the context raises RuntimeError")
            chk.explore(run_ctx, tag=f"context/{body}/{seedkind}")

    # frame: the draw functions read the top generator only and write neither stack
    src = inspect.getsource(rnd.Random)
    tree = ast.parse(src)
    bad = []
    for node in ast.walk(tree):
        if isinstance(node, ast.Name) and node.id in ("_rng", "_sseq"):
            bad.append(("name", node.lineno))
    for node in ast.walk(tree):
        if isinstance(node, ast.Subscript) and isinstance(node.value, ast.Name) and node.value.id == "_rng":
            ok = isinstance(node.slice, ast.UnaryOp) and isinstance(node.slice.op, ast.USub) and \
                getattr(node.slice.operand, "value", None) == 1 and isinstance(node.ctx, ast.Load)
            if ok:
                bad = [b for b in bad if b != ("name", node.value.lineno)] + [b for b in bad if b == ("name", node.value.lineno)][1:]
    chk.obligation("Random.pm1/normal/uniform use the stacks only through reads of _rng[-1] (draws depend on the current "
                   "generator alone)", "discharged" if not bad else "refuted", backend="ast-frame", detail=str(bad))
    chk.under_contract(rnd.Random)


def sec_state_roundtrip(chk):
    """bounded, native: getState/setState round trip and real draws inside contexts depend on the seed only"""
    import numpy as np
    import nifty.cl.random as rnd
    fails, n = [], 0
    depth0 = len(rnd._sseq)
    for seed in (0, 1, 12345):
        for pre in (0, 1, 3):          # draws made before entering: must not matter
            n += 1
            for _ in range(pre):
                rnd.current_rng().normal()
            outer_state = rnd.current_rng().bit_generator.state
            with rnd.Context(seed):
                a = rnd.Random.normal(np.float64, (4,))
                st = rnd.getState()
                b1 = rnd.Random.normal(np.float64, (3,))
                rnd.setState(st)
                b2 = rnd.Random.normal(np.float64, (3,))
                try:
                    with rnd.Context(seed + 1):
                        rnd.Random.uniform(np.float64, (2,))
                        raise KeyError("x")
                except KeyError:
                    pass
                c = rnd.Random.pm1(np.int64, (5,))
            ref = np.random.default_rng(np.random.SeedSequence(seed))
            ra = ref.normal(0., 1., (4,))
            rb = ref.normal(0., 1., (3,))
            if not np.array_equal(a, ra):
                fails.append(dict(case=f"seed={seed} pre={pre}", detail="draws inside the context differ from default_rng(SeedSequence(seed))"))
            if not (np.array_equal(b1, b2) and np.array_equal(b1, rb)):
                fails.append(dict(case=f"seed={seed} pre={pre}", detail="getState/setState does not reproduce the following draws"))
            if rnd.current_rng().bit_generator.state != outer_state:
                fails.append(dict(case=f"seed={seed} pre={pre}", detail="outer generator state changed by the context"))
            if len(rnd._sseq) != depth0 or len(rnd._rng) != depth0:
                fails.append(dict(case=f"seed={seed} pre={pre}", detail="stack depth changed"))
    # histories on one Context *object*: entered twice in a row, after an exception, nested inside another context and inside itself --
    # every entry starts the stream of its seed afresh (the generator is created at entry, not at construction)
    for seed in (0, 7, 12345):
        for history in ("twice", "after an exception", "nested in another context", "second entry after draws outside"):
            n += 1
            ctx = rnd.Context(seed)
            ref = np.random.default_rng(np.random.SeedSequence(seed)).normal(0., 1., (4,))
            draws = []
            try:
                if history == "twice":
                    for _ in range(3):
                        with ctx:
                            draws.append(rnd.Random.normal(np.float64, (4,)))
                elif history == "after an exception":
                    try:
                        with ctx:
                            draws.append(rnd.Random.normal(np.float64, (4,)))
                            rnd.Random.normal(np.float64, (2,))
                            raise KeyError("x")
                    except KeyError:
                        pass
                    with ctx:
                        draws.append(rnd.Random.normal(np.float64, (4,)))
                elif history == "nested in another context":
                    with ctx:
                        draws.append(rnd.Random.normal(np.float64, (4,)))
                    with rnd.Context(seed + 99):
                        rnd.Random.normal(np.float64, (3,))
                        with ctx:
                            draws.append(rnd.Random.normal(np.float64, (4,)))
                else:
                    with ctx:
                        draws.append(rnd.Random.normal(np.float64, (4,)))
                        rnd.Random.normal(np.float64, (5,))
                    rnd.current_rng().normal()
                    with ctx:
                        draws.append(rnd.Random.normal(np.float64, (4,)))
            except Exception as e:  # noqa: BLE001
                fails.append(dict(case=f"seed={seed}, one Context object entered {history}", detail=f"{type(e).__name__}: {e}"[:200]))
                continue
            if not all(np.array_equal(dv, ref) for dv in draws):
                fails.append(dict(case=f"seed={seed}, one Context object entered {history}", detail="a later entry does not restart the stream of the seed"))
            if len(rnd._sseq) != depth0 or len(rnd._rng) != depth0:
                fails.append(dict(case=f"seed={seed}, one Context object entered {history}", detail="stack depth changed"))
    chk.under_contract(rnd.getState)
    chk.under_contract(rnd.setState)
    chk.bounded("real numpy generators: draws in a context equal default_rng(SeedSequence(seed)); getState/setState round trip; "
                "outer generator untouched, also after an inner context left by an exception",
                bound="seeds {0,1,12345} x {0,1,3} draws before entering; seeds {0,7,12345} x 4 histories on one Context object", cases=n, nontrivial=n, failures=fails,
                samples=[dict(seed=12345, pre=3)], kind="B-runtime")


def sec_jax_keys(chk):
    """OptimizeVI.update: the keys used in iteration nit are derived from the state's key only"""
    import sys
    import nifty.re  # noqa: F401
    okl = sys.modules["nifty.re.optimize_kl"]
    src = inspect.getsource(okl.OptimizeVI.update)
    tree = ast.parse(__import__("textwrap").dedent(src))
    # every call of random.split / random.* takes its key from state.key or from a name bound by an earlier split
    keys_ok = {"state.key"}
    problems = []
    fn = tree.body[0]
    assigned_from_split = set()
    for node in ast.walk(fn):
        if isinstance(node, ast.Assign) and isinstance(node.value, ast.Call) and "split" in ast.unparse(node.value.func):
            arg0 = ast.unparse(node.value.args[0]) if node.value.args else "?"
            if not (arg0 in keys_ok or arg0 in assigned_from_split or arg0.split("[")[0] in assigned_from_split or arg0 == "key"):
                problems.append(f"line {node.lineno}: split of {arg0}")
            for t in node.targets:
                for nm in ast.walk(t):
                    if isinstance(nm, ast.Name):
                        assigned_from_split.add(nm.id)
        if isinstance(node, ast.Call) and ast.unparse(node.func) in ("random.PRNGKey", "random.key", "jax.random.PRNGKey", "PRNGKey"):
            problems.append(f"line {node.lineno}: a fresh key is created inside update ({ast.unparse(node)})")
    uses_time = [ast.unparse(n) for n in ast.walk(fn) if isinstance(n, ast.Call) and ast.unparse(n.func) in
                 ("time.time", "datetime.now", "os.urandom", "np.random.default_rng")]
    chk.under_contract(okl.OptimizeVI.update)
    chk.obligation("OptimizeVI.update derives every random key by splitting the key stored in the state (no fresh keys, no "
                   "clock, no global generator): same state => same keys",
                   "discharged" if not problems and not uses_time else "refuted", backend="ast-dataflow",
                   detail=str(problems + uses_time))
    chk.note("keys assigned from split: " + ", ".join(sorted(assigned_from_split)))


SECTIONS = [sec_stack, sec_state_roundtrip, sec_jax_keys]
