"""C26 Sample lists persist faithfully and report exact statistics.

Under contract: utilities.shareRange, sample_list._compute_local_indices, _consecutive_length, _sample_file_name,
_save_to_disk, _ensure_proper_sample_list_ending, SampleList.save, ResidualSampleList.save (re-compiled, loop cut,
ghost file system = set of sample indices), SampleListBase._list_local_sample_files, SampleListBase.average /
sample_stat, probing.StatCalculator (real class on symbolic reals), save_to_hdf5 (bounded, real h5py).
"""
import contextlib
import os
import shutil
import tempfile

import z3

from vf import symx
from vf.symx import Ctx, SymBool, SymInt, SymReal, SymSet, fresh_bool, fresh_int, fresh_real, implies, sand, snot, sor

META = dict(
    title="Sample lists persist faithfully and report exact statistics",
    level="other",
    design_ref="DESIGN.md section 4, C26",
    technique="deductive verification of the index arithmetic, the save loop (invariant over a ghost file system) and "
              "the streaming statistics (class invariant with ghost sums) on the real source, z3; bounded runs with "
              "exact oracles for file-name matching, pickling and HDF5 export",
    text="Proved for all sample counts, task counts and prior directory contents: ranges of consecutive tasks tile "
         "[0,n); save leaves exactly (old \\ {n}) u [0,n) on disk (invariant of the re-compiled save loops), hence the "
         "list found by a later load has length n and stale files are unreachable; StatCalculator keeps mean = S1/n and "
         "M2 = S2 - S1^2/n for every sequence. File-name matching, pickle/HDF5 contents and multi-task round trips are "
         "bounded runs of the real code with exact oracles.",
    note="Bounded parts (never counted as proved): directory listings with up to 111 samples and adversarial neighbours, "
         "save/overwrite/load sequences on a real temporary directory with 1-4 (thread-simulated) tasks, HDF5 export. "
         "Assumes pickle and h5py round trips are faithful (A-PICKLE), A-REAL for the statistics, A-MPI for the "
         "simulated communicator.",
    explanation="level 'other': proof obligations (index arithmetic, save-loop invariant, statistics invariant) are "
                "discharged by z3 for all inputs; regex based file selection, pickling and HDF5 are bounded stand-ins "
                "with exact oracles listed under bounded_standins",
)

T_ = SymBool(z3.BoolVal(True))
F_ = SymBool(z3.BoolVal(False))


def _b(x):
    return x if isinstance(x, SymBool) else SymBool(z3.BoolVal(bool(x)))


# ------------------------------------------------------------------------------------------------
def sec_share_range(chk):
    from nifty.cl.utilities import shareRange
    f = symx.extract(shareRange, rebind={"int": symx.sym_int_of})
    chk.under_contract(f)

    def run(ctx):
        nwork, nshares, me = fresh_int("nwork"), fresh_int("nshares"), fresh_int("me")
        ctx.assume((nwork >= 0) & (nshares >= 1) & (me >= 0) & (me < nshares))
        lo, hi = f(nwork, nshares, me)
        ctx.prove((0 <= lo) & (lo <= hi) & (hi <= nwork), "range lies within [0, nwork]")
        ctx.prove(((hi - lo) == nwork // nshares) | ((hi - lo) == nwork // nshares + 1), "sizes differ by at most one")
        if me + 1 < nshares:
            lo2, hi2 = f(nwork, nshares, me + 1)
            ctx.prove(lo2 == hi, "ranges of consecutive shares are adjacent (tile without gap or overlap)")
            ctx.prove((hi2 - lo2) <= (hi - lo), "earlier shares are never smaller")
        else:
            ctx.prove(hi == nwork, "the last share ends at nwork")
        if me == 0:
            ctx.prove(lo == 0, "the first share starts at 0")
        ctx.prove(implies(nshares > nwork, (hi - lo) <= 1), "more shares than work: ranges of size <= 1 (empty ones allowed)")
    chk.explore(run)


def sec_local_indices(chk):
    from nifty.cl.minimization.sample_list import _compute_local_indices
    chk.under_contract(_compute_local_indices)
    chk.note("bounded in the number of tasks (1..6), universal in the local counts")
    for ntask in range(1, 7):
        def run(ctx, ntask=ntask):
            counts = [fresh_int(f"n{r}") for r in range(ntask)]
            for c in counts:
                ctx.assume(c >= 0)
            rngs = []
            for r in range(ntask):
                class C:
                    def allgather(self, x, r=r):
                        ctx.prove(x == counts[r], "allgather contributes the local count")
                        return list(counts)

                    def Get_rank(self, r=r):
                        return r
                with _patched_range():
                    rngs.append(_compute_local_indices(counts[r], C()))
            ctx.prove(rngs[0][0] == 0, "rank 0 starts at 0")
            for r in range(ntask):
                ctx.prove(rngs[r][1] - rngs[r][0] == counts[r], "a rank's range has its local count as length")
                if r + 1 < ntask:
                    ctx.prove(rngs[r + 1][0] == rngs[r][1], "ranges of consecutive ranks are adjacent")
            with _patched_range():
                r0 = _compute_local_indices(counts[0], None)
            ctx.prove((r0[0] == 0) & (r0[1] == counts[0]), "without communicator: range(n_local)")
        chk.explore(run, tag=f"ntask{ntask}")


@contextlib.contextmanager
def _patched_range():
    """_compute_local_indices builds range(start, start+n): with symbolic bounds the pair is recorded instead"""
    import nifty.cl.minimization.sample_list as sl
    old = sl.__dict__.get("range")
    sl.range = lambda *a: (0, a[0]) if len(a) == 1 else (a[0], a[1])
    try:
        yield
    finally:
        if old is None:
            del sl.range
        else:
            sl.range = old


def sec_consecutive_length(chk):
    from nifty.cl.minimization.sample_list import _consecutive_length
    loops = {0: dict(entry="(res >= 0) & __vc.forall_int(lambda k: __vc.implies((0 <= k) & (k <= res), lst.has(k)))",
                     havoc="res = __vc.fresh_int('res')\n__vc.assume((res >= 0) & __vc.forall_int(lambda k: "
                           "__vc.implies((0 <= k) & (k <= res), lst.has(k))))",
                     inv="(res >= 0) & __vc.forall_int(lambda k: __vc.implies((0 <= k) & (k <= res), lst.has(k)))")}
    f = symx.extract(_consecutive_length, loops=loops)
    chk.under_contract(f)
    chk.assume("A-TERM: termination (finite list) is not verified")

    def run(ctx):
        lst = SymSet.fresh("lst")
        try:
            r = f(lst)
        except ValueError:
            ctx.prove(snot(lst.has(0)), "raises only if 0 is missing")
            return
        ctx.prove(lst.has(0), "returns only if 0 is present")
        ctx.prove(r >= 1, "result >= 1")
        ctx.prove(snot(lst.has(r)), "the result itself is missing")
        ctx.prove(symx.forall_int(lambda k: implies((0 <= k) & (k < r), lst.has(k))), "every index below the result is present")
    chk.explore(run, allowed_raises=())


# ------------------------------------------------------------------------------------------------ save loop
class FName:
    """contract view of a sample file name: '<base>.<index>.pickle' (format verified natively in section file_names)"""

    _reg = {}

    def __init__(self, index, kind="sample"):
        self.index, self.kind = index, kind
        self.id = len(FName._reg)
        FName._reg[self.id] = self

    def __format__(self, spec):
        # f"{file_name}.tmp" in _save_to_disk: the text form carries the identity
        return f"<<FNAME{self.id}>>"


class _GhostFS:
    def __init__(self, samples, mean_present):
        self.samples = samples          # SymSet of sample indices present
        self.mean = mean_present        # SymBool
        self.writes = []
        self.tmp = {}                   # temporary files (<name>.tmp): id of the target -> object

    @staticmethod
    def _fn(fn):
        if isinstance(fn, str):
            import re
            m = re.fullmatch(r"<<FNAME(\d+)>>\.tmp", fn)
            if m:
                t = FName._reg[int(m.group(1))]
                return FName((t.index, t.kind), "tmp")
            if fn.endswith(".mean.pickle.tmp"):
                return FName((None, "mean"), "tmp")
            if fn.endswith(".mean.pickle"):
                return FName(None, "mean")
            raise symx.EngineLimit(f"unexpected file name {fn!r}")
        return fn

    def replace(self, a, b):
        a, b = self._fn(a), self._fn(b)
        if a.kind != "tmp" or repr(a.index) not in self.tmp:
            raise FileNotFoundError("replace of a file that was not written")
        obj = self.tmp.pop(repr(a.index))
        self.writes.append((b, obj))
        if b.kind == "mean":
            self.mean = T_
        else:
            self.samples.add(b.index)

    def isfile(self, fn):
        fn = self._fn(fn)
        if fn.kind == "tmp":
            return repr(fn.index) in self.tmp
        if fn.kind == "mean":
            return bool(self.mean)
        return bool(self.samples.has(fn.index))

    def remove(self, fn):
        fn = self._fn(fn)
        if fn.kind == "mean":
            self.mean = F_
        else:
            self.samples.discard(fn.index)

    def create(self, fn, obj):
        fn = self._fn(fn)
        if fn.kind == "tmp":
            self.tmp[repr(fn.index)] = obj
            return
        self.writes.append((fn, obj))
        if fn.kind == "mean":
            self.mean = T_
        else:
            self.samples.add(fn.index)


def _fs_rebind(fs):
    class _File:
        def __init__(self, fn, mode):
            self.fn, self.mode = fn, mode

        def __enter__(self):
            return self

        def __exit__(self, *a):
            return False

    class _OSPath:
        isfile = staticmethod(fs.isfile)

    class _OS:
        path = _OSPath
        remove = staticmethod(fs.remove)
        replace = staticmethod(fs.replace)

    class _Pickle:
        HIGHEST_PROTOCOL = 5

        @staticmethod
        def dump(obj, f, proto=None):
            fs.create(f.fn, obj)

    class _Path:
        def __init__(self, fn):
            self.fn = fn

        def unlink(self, missing_ok=False):
            if not missing_ok and not fs.isfile(self.fn):
                raise FileNotFoundError
            fs.remove(self.fn)

    class _Pathlib:
        Path = _Path

    return {"os": _OS, "open": lambda fn, mode="r": _File(fn, mode), "pickle": _Pickle, "pathlib": _Pathlib}


@contextlib.contextmanager
def _all_tasks(comm):
    yield


class _Tok:
    def __init__(self, name):
        self.name = name


def sec_save(chk):
    import nifty.cl.minimization.sample_list as sl
    chk.stub("ensure_all_tasks_succeed: transparent context manager (re-raises when any task failed)")
    chk.stub("_sample_file_name(base, i) == '<base>.<i>.pickle' for int i (checked natively in section file_names)")
    chk.assume("A-PICKLE: pickle.dump creates the file with the object; os.remove / Path.unlink delete it")
    chk.assume("A-TERM")

    for cls_name in ("SampleList", "ResidualSampleList"):
        for overwrite in (True, False):
            for master in (True, False):
                fs_box = {}
                _ow = overwrite

                class V(symx.VC):
                    overwrite = _ow

                    def set(self, lo, hi, fs1):
                        self.lo, self.hi, self.fs1 = lo, hi, fs1

                    def inv(self, it):
                        fs = fs_box["fs"]
                        lo = self.lo
                        fresh_only = T_ if self.overwrite else symx.forall_int(
                            lambda k: implies((lo <= k) & (k < lo + it), snot(self.fs1.has(k))), name="k!w")
                        return sand(it >= 0, it <= self.hi - lo, fresh_only,
                                    fs.samples.eq_comprehension(lambda k: self.fs1.has(k) | ((lo <= k) & (k < lo + it))))

                    def havoc(self):
                        it = fresh_int("it")
                        lo = self.lo
                        Ctx.cur.assume((it >= 0) & (it <= self.hi - lo))
                        if not self.overwrite:
                            Ctx.cur.assume(symx.forall_int(lambda k: implies((lo <= k) & (k < lo + it), snot(self.fs1.has(k))),
                                                           name="k!w"))
                        k = z3.Int("k!lam")
                        fs_box["fs"].samples = SymSet(z3.Lambda([k], z3.Or(z3.Select(self.fs1.a, k),
                                                                         z3.And(lo.t <= k, k < (lo + it).t))))
                        return it
                vc = V()
                rb = {}
                loops = {0: dict(pre="__it0 = 0", cond="__it0 < (__vc.hi - __vc.lo)",
                                 bind="ii = __it0\nisample = __vc.lo + __it0", step="__it0 = __it0 + 1",
                                 entry="__vc.inv(__it0)", havoc="__it0 = __vc.havoc()", inv="__vc.inv(__it0)")}

                def run(ctx, cls_name=cls_name, overwrite=overwrite, master=master, vc=vc):
                    n = fresh_int("n_samples")
                    lo, hi = fresh_int("lo"), fresh_int("hi")
                    ctx.assume((n >= 1) & (0 <= lo) & (lo <= hi) & (hi <= n))
                    s0 = SymSet.fresh("disk")
                    fs = _GhostFS(s0.copy(), fresh_bool("mean_present"))
                    fs_box["fs"] = fs
                    rbl = _fs_rebind(fs)
                    ending = symx.extract(sl._ensure_proper_sample_list_ending,
                                          rebind=dict(rbl, ensure_all_tasks_succeed=_all_tasks))
                    save_disk = symx.extract(sl._save_to_disk, rebind=rbl)

                    class Comm:
                        def Get_size(self):
                            return 2

                        def Get_rank(self):
                            return 0 if master else 1

                    def ending_hook(fname, ow, comm):
                        ending(fname, ow, comm)
                        vc.set(lo, hi, fs.samples.copy())
                    cls = getattr(sl, cls_name)
                    f = symx.extract(cls.save, loops=loops, vc=vc,
                                     rebind=dict(_sample_file_name=lambda base, i: FName(i),
                                                 _ensure_proper_sample_list_ending=ending_hook,
                                                 ensure_all_tasks_succeed=_all_tasks, _save_to_disk=save_disk))
                    objs = symx.SymSeq(hi - lo, lambda i: _Tok(("item", i)))

                    class Self:
                        n_samples = n
                        local_indices = "range(lo, hi)"
                        comm = Comm()
                        MPI_master = master
                        _s = objs
                        _r = objs
                        _n = objs
                        _m = _Tok("mean")
                    raised = False
                    try:
                        # the mean file name is an f-string: represent it through open()/isfile on a FName by re-binding
                        f(Self(), _Base(), overwrite)
                    except RuntimeError:
                        raised = True
                    if raised:
                        clash = s0.has(n) if master else F_
                        # some target existed
                        ctx.prove(_b(not overwrite), "save raises only when overwrite=False")
                        return
                    if master:
                        ctx.prove(fs.samples.eq_comprehension(lambda k: (s0.has(k) & (k != n)) | ((lo <= k) & (k < hi))),
                                  "after save (master): files on disk == (old \\ {n}) u [lo, hi)")
                    else:
                        ctx.prove(fs.samples.eq_comprehension(lambda k: s0.has(k) | ((lo <= k) & (k < hi))),
                                  "after save (other rank): files on disk == old u [lo, hi)")
                    if not overwrite:
                        ctx.prove(symx.forall_int(lambda k: implies((lo <= k) & (k < hi), snot(s0.has(k)))),
                                  "overwrite=False succeeds only if none of the written files existed")
                        if master:
                            ctx.prove(snot(s0.has(n)), "overwrite=False succeeds only if the 'next' sample file did not exist")
                    if cls_name == "ResidualSampleList":
                        ctx.prove(_b(master) == _b(any(fn.kind == "mean" for fn, _ in fs.writes)),
                                  "the mean file is written by the master only")
                chk.explore(run, tag=f"{cls_name}/overwrite={overwrite}/{'master' if master else 'rank1'}")
    chk.under_contract(sl.SampleList.save)
    chk.under_contract(sl.ResidualSampleList.save)
    chk.under_contract(sl._save_to_disk)
    chk.under_contract(sl._ensure_proper_sample_list_ending)

    # composition: all ranks together (tiling from sections share_range/local_indices) + _consecutive_length contract
    def run_comp(ctx):
        n = fresh_int("n")
        ctx.assume(n >= 1)
        s0 = SymSet.fresh("disk")
        k = z3.Int("k!c")
        after = SymSet(z3.Lambda([k], z3.Or(z3.And(z3.Select(s0.a, k), k != n.t), z3.And(k >= 0, k < n.t))))
        r = fresh_int("r")
        ctx.assume((r >= 1) & snot(after.has(r)) & symx.forall_int(lambda j: implies((0 <= j) & (j < r), after.has(j))))
        ctx.prove(r == n, "a load after save(n) finds exactly n samples whatever longer list was on disk before "
                          "(stale files beyond n are unreachable)")
    chk.explore(run_comp, tag="composition")


class _Base:
    """file_name_base: f'{base}.mean.pickle' must become the mean FName"""

    def __format__(self, spec):
        return "BASE"


# ------------------------------------------------------------------------------------------------ statistics
def sec_stat_calculator(chk):
    from nifty.cl.probing import StatCalculator
    chk.under_contract(StatCalculator.add)
    chk.under_contract(StatCalculator.mean.fget)
    chk.under_contract(StatCalculator.var.fget)
    chk.assume("A-REAL; values are treated per pixel (element-wise code), real-valued")

    def run(ctx):
        sc = StatCalculator()
        ctx.prove(_b(sc._count == 0), "a new calculator has no samples")
        try:
            sc.mean
            ctx.prove(F_, "mean of nothing raises")
        except RuntimeError:
            pass
        # arbitrary reachable state with n >= 1 samples: ghost sums S1, S2
        n = fresh_int("n")
        s1, s2 = fresh_real("S1"), fresh_real("S2")
        ctx.assume(n >= 0)
        if n == 0:
            pass
        else:
            sc._count = n
            sc._mean = s1 / n
            sc._M2 = s2 - s1 * s1 / n
        v = fresh_real("v")
        sc.add(v)
        n1 = n + 1
        s1n, s2n = (v if isinstance(n, int) else s1 + v), None
        if bool(n == 0):
            s1n, s2n = v, v * v
        else:
            s1n, s2n = s1 + v, s2 + v * v
        ctx.prove(sc._count == n1, "add: count advances by one")
        ctx.prove(sc._mean * n1 == s1n, "add: mean == S1/n (class invariant preserved)")
        ctx.prove(sc._M2 == s2n - s1n * s1n / n1, "add: M2 == S2 - S1^2/n (class invariant preserved)")
        ctx.prove(sc.mean * n1 == s1n, "mean property returns S1/n")
        try:
            var = sc.var
            ctx.prove(n1 >= 2, "var returns only for n >= 2")
            ctx.prove(var * (n1 - 1) == s2n - s1n * s1n / n1, "var == (S2 - S1^2/n)/(n-1): the unbiased variance")
        except RuntimeError:
            ctx.prove(n1 < 2, "var raises only for n < 2")
    chk.explore(run)


def sec_average(chk):
    """average/_average_2tuple/sample_stat: structure over the global list, with allreduce_sum as its C23 contract"""
    import nifty.cl.minimization.sample_list as sl
    chk.stub("utilities.allreduce_sum(local, comm) == sum over the concatenation of the local lists in rank order (C23)")

    class Sum:
        def __init__(self, items):
            self.items = list(items)

        def __truediv__(self, n):
            return ("avg", tuple(self.items), n)

    calls = []

    class Ut:
        @staticmethod
        def allreduce_sum(lst, comm):
            calls.append((list(lst), comm))
            return Sum(lst)

    fa = symx.extract(sl.SampleListBase.average, rebind={"utilities": Ut})
    f2 = symx.extract(sl.SampleListBase._average_2tuple, rebind={"utilities": Ut})
    fp = symx.extract(sl.SampleListBase._prepare_average)
    chk.under_contract(fa)
    chk.under_contract(f2)
    chk.under_contract(fp)

    def run(ctx):
        nloc = 3
        n = fresh_int("n_global")

        class L:
            n_samples = n
            comm = _comm = "COMM"
            local_indices = range(nloc)

            def local_iterator(self):
                return iter(["s0", "s1", "s2"])
            _prepare_average = lambda self, op: fp(self, op)  # noqa: E731
        calls.clear()
        r = fa(L(), lambda s: ("op", s))
        ctx.prove(_b(r == ("avg", (("op", "s0"), ("op", "s1"), ("op", "s2")), n)),
                  "average == allreduce_sum([op(s) for local s]) / n_samples (global count)")
        ctx.prove(_b(calls[-1][1] == "COMM"), "average reduces over the list's communicator")
        calls.clear()
        a, b = f2(L(), lambda s: (("a", s), ("b", s)))
        ctx.prove(_b(a == ("avg", (("a", "s0"), ("a", "s1"), ("a", "s2")), n) and b == ("avg", (("b", "s0"), ("b", "s1"), ("b", "s2")), n)),
                  "_average_2tuple averages both components over the global count")

        class E(L):
            local_indices = range(0)
        calls.clear()
        f2(E(), lambda s: (s, s))
        ctx.prove(_b(all(c[0] == [] for c in calls) and len(calls) == 2),
                  "_average_2tuple: a rank without samples still takes part in both reductions with empty lists")
    chk.explore(run)


# ------------------------------------------------------------------------------------------------ bounded parts
def sec_file_names(chk):
    """real _sample_file_name and _list_local_sample_files on ghost directory listings (exact oracle)"""
    import re
    import nifty.cl.minimization.sample_list as sl
    from nifty.cl.utilities import shareRange
    fails, ncase, nontriv, samples = [], 0, 0, []
    # _sample_file_name
    for base in ("out/last", "a.b", "x"):
        for i in (0, 7, 10, 123):
            ncase += 1
            if sl._sample_file_name(base, i) != f"{base}.{i}.pickle":
                fails.append(dict(case=f"_sample_file_name({base!r},{i})", detail=sl._sample_file_name(base, i)))
    for bad in (1.0, "1", None):
        ncase += 1
        try:
            sl._sample_file_name("x", bad)
            fails.append(dict(case=f"_sample_file_name('x', {bad!r})", detail="did not raise TypeError"))
        except TypeError:
            pass

    class C:
        def __init__(self, n, r):
            self.n, self.r = n, r

        def Get_size(self):
            return self.n

        def Get_rank(self):
            return self.r
    bases = ["last", "samples_3", "pickle", "it.5", "s+1", "run(2)", "a[0]"]
    for base in bases:
        for n in (1, 2, 3, 9, 10, 11, 12, 25, 100, 101, 111):
            for stale in ((), (n + 1, n + 2), (n + 5,)):
                listing = [f"{base}.{i}.pickle" for i in range(n)] + [f"{base}.{i}.pickle" for i in stale]
                listing += [f"{base}.mean.pickle", f"{base}_b.0.pickle", f"x{base}.0.pickle", "other.0.pickle", f"{base}.txt",
                            f"{base}.0.pickle.bak", f"{base}.{n}.pickle.tmp"]
                present = set(listing)
                for ntask in (1, 2, 3, 4):
                    ncase += 1
                    nontriv += (n >= 2)
                    got = []
                    err = None
                    orig_listdir, orig_isfile = sl.os.listdir, sl.os.path.isfile
                    d = os.path.abspath("ghostdir")
                    sl.os.listdir = lambda p: list(listing)
                    sl.os.path.isfile = lambda p: os.path.basename(p) in present
                    try:
                        for r in range(ntask):
                            files = sl.SampleListBase._list_local_sample_files(os.path.join(d, base), None if ntask == 1 else C(ntask, r))
                            lo, hi = shareRange(n, ntask, r)
                            want = [os.path.join(d, f"{base}.{i}.pickle") for i in range(lo, hi)]
                            if files != want:
                                err = f"rank {r}/{ntask}: got {[os.path.basename(x) for x in files][:4]}... ({len(files)} files), " \
                                      f"want indices [{lo},{hi})"
                                break
                            got += files
                    except Exception as e:  # noqa: BLE001
                        err = f"{type(e).__name__}: {e}"
                    finally:
                        sl.os.listdir, sl.os.path.isfile = orig_listdir, orig_isfile
                    if err:
                        fails.append(dict(case=f"base={base!r} n={n} stale={stale} ntask={ntask}", detail=err))
                    elif len(samples) < 3 and n >= 11 and stale:
                        samples.append(dict(base=base, n=n, stale=stale, ntask=ntask, selected=len(got)))
    chk.under_contract(sl.SampleListBase._list_local_sample_files)
    chk.under_contract(sl._sample_file_name)
    chk.bounded("load selects exactly the files <base>.<i>.pickle, i in this task's share of [0,n), n = consecutive samples present",
                bound="7 base names (incl. regex metacharacters) x n in {1,2,3,9,10,11,12,25,100,101,111} x stale files beyond a gap "
                      "x 1-4 tasks, neighbouring files of other lists in the directory",
                cases=ncase, nontrivial=nontriv, failures=fails, samples=samples, kind="B-runtime")


def _mk_field(rng, dom, multi):
    import nifty.cl as ift
    import numpy as np
    if multi:
        return ift.MultiField.from_dict({"a": ift.makeField(dom, rng.normal(size=dom.shape)),
                                         "b": ift.makeField(dom, rng.normal(size=dom.shape))})
    return ift.makeField(dom, rng.normal(size=dom.shape))


def _same(a, b):
    import nifty.cl as ift
    import numpy as np
    if isinstance(a, ift.MultiField):
        return set(a.keys()) == set(b.keys()) and all(np.array_equal(a[k].asnumpy(), b[k].asnumpy()) for k in a.keys())
    return np.array_equal(a.asnumpy(), b.asnumpy())


def sec_roundtrip(chk):
    """real save / overwrite / load sequences on a temporary directory, 1-4 tasks (threads), exact comparison"""
    import numpy as np
    import nifty.cl as ift
    from vf.fakempi import run_ranks
    from nifty.cl.utilities import shareRange
    rng = np.random.default_rng(1234 + chk.seed)
    dom = ift.DomainTuple.make(ift.UnstructuredDomain(3))
    fails, ncase, nontriv, samples = [], 0, 0, []
    tmp = tempfile.mkdtemp(prefix="verif-c26-")
    try:
        seqs = [(3,), (12, 5), (5, 12), (11, 11), (2, 1), (25, 11, 3)]
        for residual in (False, True):
            for multi in (False, True):
                for seq in seqs:
                    for (nsave, nload) in ((1, 1), (1, 3), (3, 2), (4, 1), (2, 4)):
                        ncase += 1
                        nontriv += len(seq) > 1
                        base = os.path.join(tmp, f"c{ncase}", "lst")
                        os.makedirs(os.path.dirname(base))
                        err = None
                        try:
                            for nn in seq:
                                mean = _mk_field(rng, dom, multi)
                                items = [_mk_field(rng, dom, multi) for _ in range(nn)]
                                negs = [bool(rng.integers(2)) for _ in range(nn)]

                                def save(comm, r):
                                    nt = 1 if comm is None else comm.Get_size()
                                    lo, hi = shareRange(nn, nt, r)
                                    if residual:
                                        sl = ift.ResidualSampleList(mean, items[lo:hi], negs[lo:hi], comm=comm)
                                    else:
                                        sl = ift.SampleList(items[lo:hi], comm=comm, domain=mean.domain)
                                    sl.save(base, overwrite=True)
                                    return True
                                if nsave == 1:
                                    save(None, 0)
                                else:
                                    _, errs, w = run_ranks(nsave, save)
                                    if any(errs) or w.violations:
                                        raise RuntimeError(f"save with {nsave} tasks: {[repr(e) for e in errs if e]} {w.violations}")
                            want = [mean.flexible_addsub(it, ng) for it, ng in zip(items, negs)] if residual else items
                            cls = ift.ResidualSampleList if residual else ift.SampleList

                            def load(comm, r):
                                sl = cls.load(base, comm=comm)
                                return [sl.local_item(i) for i in range(sl.n_local_samples)], sl.n_samples
                            if nload == 1:
                                parts = [load(None, 0)]
                            else:
                                parts, errs, w = run_ranks(nload, load)
                                if any(errs) or w.violations:
                                    raise RuntimeError(f"load with {nload} tasks: {[repr(e) for e in errs if e]} {w.violations}")
                            got = [x for p, _ in parts for x in p]
                            if any(nn_ != len(want) for _, nn_ in parts):
                                err = f"n_samples after load {[n_ for _, n_ in parts]} != {len(want)} saved last"
                            elif len(got) != len(want) or not all(_same(a, b) for a, b in zip(got, want)):
                                err = f"loaded samples differ from the {len(want)} samples saved last (got {len(got)})"
                        except Exception as e:  # noqa: BLE001
                            err = f"{type(e).__name__}: {e}"
                        if err:
                            fails.append(dict(case=f"residual={residual} multi={multi} saves={seq} tasks(save,load)=({nsave},{nload})", detail=err))
                        elif len(samples) < 3 and len(seq) > 1:
                            samples.append(dict(residual=residual, multi=multi, saves=seq, save_tasks=nsave, load_tasks=nload, loaded=len(got)))
                        shutil.rmtree(os.path.dirname(base), ignore_errors=True)
                        if len(fails) >= 6:
                            break
        chk.bounded("save / overwrite / load sequences reproduce exactly the samples saved last",
                    bound="6 save sequences (counts up to 25, longer-then-shorter and shorter-then-longer) x plain/residual x "
                          "Field/MultiField x (save tasks, load tasks) in {(1,1),(1,3),(3,2),(4,1),(2,4)}, real pickle files",
                    cases=ncase, nontrivial=nontriv, failures=fails, samples=samples, kind="B-runtime")
        # statistics incl. HDF5 export against numpy
        import h5py
        f2, n2 = [], 0
        for nn in (1, 2, 3, 7):
            for multi in (False, True):
                n2 += 1
                items = [_mk_field(rng, dom, multi) for _ in range(nn)]
                sl = ift.SampleList(items)
                m, v = sl.sample_stat()
                keys = ["a", "b"] if multi else [None]
                fn = os.path.join(tmp, f"s{n2}.h5")
                sl.save_to_hdf5(fn, mean=True, std=(nn > 1), samples=True)
                with h5py.File(fn, "r") as fh:
                    for k in keys:
                        arr = np.array([(it[k] if k else it).asnumpy() for it in items])
                        mm = (m[k] if k else m).asnumpy()
                        vv = (v[k] if k else v).asnumpy()
                        ref_v = arr.var(axis=0, ddof=1) if nn > 1 else np.zeros_like(mm)
                        if not (np.allclose(mm, arr.mean(axis=0), rtol=1e-13, atol=1e-13) and np.allclose(vv, ref_v, rtol=1e-11, atol=1e-13)):
                            f2.append(dict(case=f"sample_stat n={nn} multi={multi}", detail="mean/variance differ from numpy mean / var(ddof=1)"))
                        hm = np.array(fh["stats/mean/" + k] if k else fh["stats/mean"])
                        if not np.array_equal(hm, mm):
                            f2.append(dict(case=f"hdf5 n={nn} multi={multi}", detail="exported mean differs from in-memory mean"))
                        if nn > 1:
                            hs = np.array(fh["stats/standard deviation/" + k] if k else fh["stats/standard deviation"])
                            if not np.allclose(hs, np.sqrt(vv), rtol=1e-14):
                                f2.append(dict(case=f"hdf5 n={nn} multi={multi}", detail="exported std differs from sqrt(variance)"))
                        for i in range(nn):
                            hsamp = np.array(fh[f"samples/{i}/" + k] if k else fh[f"samples/{i}"])
                            if not np.array_equal(hsamp, arr[i]):
                                f2.append(dict(case=f"hdf5 n={nn} multi={multi}", detail=f"exported sample {i} differs"))
        # floating point: samples with a large common offset (|mean| / scatter = 1e5 .. 1e7); the statistics must stay accurate (the
        # streaming update is numerically stable; a sum-of-squares formula is not) -- assumption A-REAL does not cover this, so it is run natively
        for offset, scatter in ((1e5, 1e-2), (1e7, 1.), (-3e6, 0.5)):
            for nn in (3, 8):
                n2 += 1
                vals = [offset + scatter * rng.standard_normal(dom.shape) for _ in range(nn)]
                sl = ift.SampleList([ift.makeField(dom, a) for a in vals])
                m, v = sl.sample_stat()
                arr = np.array(vals)
                cen = arr - arr.mean(axis=0)
                ref_v = (cen * cen).sum(axis=0) / (nn - 1)                 # two-pass reference on centred data
                if not (np.allclose(m.asnumpy(), arr.mean(axis=0), rtol=1e-14) and np.allclose(v.asnumpy(), ref_v, rtol=1e-6)):
                    f2.append(dict(case=f"sample_stat with offset {offset:g} and scatter {scatter:g}, n={nn}: variance loses accuracy (relative error "
                                        f"{np.max(np.abs(v.asnumpy() / ref_v - 1)):.1e})", detail=""))
        chk.bounded("sample_stat and HDF5 export equal numpy mean / unbiased variance / the samples",
                    bound="n in {1,2,3,7} x Field/MultiField, tolerance 1e-11 relative on the variance (documented float "
                          "tolerance of the streaming update); samples with offsets up to 1e7 times their scatter: 1e-6", cases=n2, nontrivial=n2 - 2, failures=f2,
                    samples=[dict(n=7, multi=True)], kind="B-runtime")
    finally:
        shutil.rmtree(tmp, ignore_errors=True)


SECTIONS = [sec_share_range, sec_local_indices, sec_consecutive_length, sec_save, sec_stat_calculator, sec_average,
            sec_file_names, sec_roundtrip]
