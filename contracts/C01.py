"""C01 Linear-operator algebra has exact matrix semantics.

Ghost view: den(op) = the operator's matrix M; act(M, i) for i in Z2 x Z2 (bit 0 adjoint, bit 1 inverse):
act(M,0)=M, act(M,1)=M^H, act(M,2)=M^-1, act(M,3)=M^-H.  Mode m <-> i = log2(m).

  tables        the class tables of LinearOperator against that group structure       (exhaustive, finite)
  adapter       OperatorAdapter over an arbitrary wrapped operator (contract stub)     (exhaustive in cap/trafo/mode, symbolic vectors)
  chain_sum     ChainOperator.apply / SumOperator.apply / capability rules for stub operators, lengths 1..4
  scaling_diag  ScalingOperator and DiagonalOperator on symbolic (sympy) entries: every (_trafo, mode) pair, _flip_modes,
                _scale, _add, _combine_prod, _combine_sum, partial-space diagonals
  trees         generated expression trees over symbolic leaves built with the real @, +, -, scalar *, .adjoint, .inverse,
                SandwichOperator.make: dense matrix in every advertised mode == independent matrix evaluator; advertised
                capability contains the reference capability                             (bounded in depth)
"""
import itertools
import random

import numpy as np
import sympy as sp
import z3

from vf import objx, symx
from vf.objx import SX, exprs, sx_array
from vf.symx import Ctx, SymBool
from vf.vs import LinOp, Space

META = dict(
    title="Linear-operator algebra has exact matrix semantics",
    level="other",
    design_ref="DESIGN.md section 4, C01",
    technique="contracts 'apply(x, mode) == act(den(op), mode) x' and the capability rule on the real operator classes: "
              "exhaustive decision of the finite mode/capability tables, real classes on abstract vectors (normal forms) "
              "and on symbolic entries (sympy identities), generated expression trees against an independent matrix evaluator",
    text="The mode/capability tables are decided exhaustively against the group structure of (adjoint, inverse); adapters, "
         "chains and sums are run on abstract vectors for every capability, transformation and mode; scaling and diagonal "
         "operators act as the matrix expression for every symbolic entry; every generated expression tree built with the "
         "real operator algebra equals the reference matrix expression in every advertised mode, entry-wise as a symbolic "
         "identity.",
    note="Bounded in skeleton: chains/sums of length <= 4, expression trees of depth <= 2 (quick) / 3 (thorough) over seven "
         "leaf kinds on a 2-pixel domain (4 pixels for partial-space diagonals); universal in all entries, factors and "
         "inputs. A symbolic residue that sympy cannot reduce is tested at exact rational points (identity testing). "
         "FFT/Hartley leaves are covered in C09. Inverse modes are only checked where advertised; a zero scaling factor "
         "advertising its inverse is recorded as an observation (division by zero is outside matrix semantics).",
    explanation="level 'other': finite tables are decided exhaustively; everything else is universal in values but bounded in "
                "expression skeleton (B-shape)",
)

T_ = SymBool(z3.BoolVal(True))
F_ = SymBool(z3.BoolVal(False))
MODES = (1, 2, 4, 8)


def _b(x):
    return x if isinstance(x, SymBool) else SymBool(z3.BoolVal(bool(x)))


def _ilog(m):
    return {1: 0, 2: 1, 4: 2, 8: 3}[m]


# ------------------------------------------------------------------------------------------------ tables
def sec_tables(chk):
    from nifty.cl.operators.linear_operator import LinearOperator as L
    chk.under_contract(L._dom)
    chk.under_contract(L._tgt)
    chk.under_contract(L._check_mode)
    bad = []
    # mode constants and logarithms
    if (L.TIMES, L.ADJOINT_TIMES, L.INVERSE_TIMES, L.ADJOINT_INVERSE_TIMES, L.ADJOINT_BIT, L.INVERSE_BIT) != (1, 2, 4, 8, 1, 2):
        bad.append("mode constants")
    for m in range(9):
        if L._validMode[m] != (m in MODES):
            bad.append(f"_validMode[{m}]")
        if (m in MODES) and L._ilog[m] != _ilog(m):
            bad.append(f"_ilog[{m}]")
    chk.obligation("mode constants, _validMode and _ilog describe the four modes 1,2,4,8 = 2^i", "discharged" if not bad else "refuted",
                   backend="exhaustive-finite", detail=str(bad))
    bad = []
    for t in range(4):
        for i in range(4):
            if L._modeTable[t][i] != (1 << (i ^ t)):
                bad.append(f"_modeTable[{t}][{i}] = {L._modeTable[t][i]}, want {1 << (i ^ t)}")
    chk.obligation("_modeTable[t][i] is the mode of act(., i xor t): transformations compose by XOR", "discharged" if not bad else "refuted",
                   backend="exhaustive-finite", detail=str(bad))
    bad = []
    for t in range(4):
        for cap in range(16):
            for i in range(4):
                have = bool(L._capTable[t][cap] & (1 << i))
                want = bool(cap & (1 << (i ^ t)))
                if have != want:
                    bad.append(f"_capTable[{t}][{cap}] mode {1 << i}")
    chk.obligation("_capTable[t][cap] offers mode i exactly when cap offers mode i xor t", "discharged" if not bad else "refuted",
                   backend="exhaustive-finite", detail=str(bad[:5]))
    bad = []
    for cap in range(16):
        for i in range(4):
            have = bool(L._addInverse[cap] & (1 << i))
            want = bool(cap & (1 << i)) or bool(cap & (1 << (i ^ 2)))
            if have != want:
                bad.append(f"_addInverse[{cap}] mode {1 << i}")
    chk.obligation("_addInverse[cap] adds exactly the modes reachable by inverting an available one", "discharged" if not bad else "refuted",
                   backend="exhaustive-finite", detail=str(bad[:5]))
    bad = []

    class O(L):
        _domain, _target = "DOM", "TGT"
    o = O.__new__(O)
    for m in MODES:
        i = _ilog(m)
        maps_dom_to_tgt = (i in (0, 3))          # M and M^-H map domain -> target; M^H and M^-1 map target -> domain
        if (o._dom(m) == "DOM") != maps_dom_to_tgt or (o._tgt(m) == "TGT") != maps_dom_to_tgt:
            bad.append(f"_dom/_tgt for mode {m}")
        if bool(m & L._backwards) != (i in (1, 2)):
            bad.append(f"_backwards for mode {m}")
    if L._all_ops != 15:
        bad.append("_all_ops")
    chk.obligation("_dom/_tgt/_backwards: modes M, M^-H map domain->target; M^H, M^-1 map target->domain and reverse products",
                   "discharged" if not bad else "refuted", backend="exhaustive-finite", detail=str(bad))
    # _check_mode
    bad = []
    for cap in range(16):
        o._capability = cap
        for m in range(9):
            try:
                o._check_mode(m)
                ok = True
            except NotImplementedError:
                ok = False
            if ok != ((m in MODES) and bool(cap & m)):
                bad.append((cap, m))
    chk.obligation("_check_mode accepts exactly the valid modes contained in the capability", "discharged" if not bad else "refuted",
                   backend="exhaustive-finite", detail=str(bad[:5]))


# ------------------------------------------------------------------------------------------------ adapter
class StubOp:
    """contract stub of a linear operator with matrix name M: apply(x, mode) == act(M, ilog(mode)) x"""

    def __init__(self, name, cap=15, dom="DOM", tgt="TGT"):
        from nifty.cl.operators.linear_operator import LinearOperator
        self.L = LinearOperator
        self.name, self._capability, self.domain, self.target = name, cap, dom, tgt

    capability = property(lambda s: s._capability)

    def _dom(self, mode):
        return self.domain if (mode & 9) else self.target

    def _tgt(self, mode):
        return self.domain if (mode & 6) else self.target

    def apply(self, x, mode):
        if not (self._capability & mode):
            raise NotImplementedError
        return LinOp(f"{self.name}^{_ilog(mode)}")(x)

    def _flip_modes(self, trafo):
        from nifty.cl.operators.operator_adapter import OperatorAdapter
        return self if trafo == 0 else OperatorAdapter(self, trafo)

    def isIdentity(self):
        return False


def sec_adapter(chk):
    from nifty.cl.operators.operator_adapter import OperatorAdapter
    chk.under_contract(OperatorAdapter.__init__)
    chk.under_contract(OperatorAdapter.apply)
    chk.under_contract(OperatorAdapter._flip_modes)
    chk.stub("wrapped operator: apply(x, mode) == act(M, mode) x, refuses modes outside its capability")

    def run(ctx):
        sp_ = Space()
        x = sp_.atom("x")
        for cap in range(16):
            for t in (1, 2, 3):
                op = StubOp("M", cap)
                ad = OperatorAdapter(op, t)
                want_cap = sum((1 << i) for i in range(4) if cap & (1 << (i ^ t)))
                ctx.prove(_b(ad.capability == want_cap), "adapter advertises mode i exactly when the operator offers i xor trafo")
                swap = t in (1, 2)
                ctx.prove(_b((ad.domain, ad.target) == (("TGT", "DOM") if swap else ("DOM", "TGT"))),
                          "adjoint and inverse views swap domain and target, the adjoint-inverse view keeps them")
                for m in MODES:
                    i = _ilog(m)
                    if ad.capability & m:
                        ctx.prove(ad.apply(x, m).eq(LinOp(f"M^{i ^ t}")(x)), "adapter.apply(x, mode) == act(M, mode xor trafo) x")
                for t2 in range(4):
                    f = ad._flip_modes(t2)
                    tt = t ^ t2
                    if tt == 0:
                        ctx.prove(_b(f is op), "flipping an adapter back returns the wrapped operator itself")
                    else:
                        ctx.prove(_b(isinstance(f, OperatorAdapter) and f._op is op and f._trafo == tt),
                                  "adapters never nest: transformations compose by XOR on the wrapped operator")
        for bad_t in (0, 4, -1):
            try:
                OperatorAdapter(StubOp("M"), bad_t)
                ctx.prove(F_, "invalid transformations are refused")
            except ValueError:
                ctx.prove(T_, "invalid transformations are refused")
    chk.explore(run)


# ------------------------------------------------------------------------------------------------ chain / sum
def sec_chain_sum(chk):
    from nifty.cl.operators.chain_operator import ChainOperator
    from nifty.cl.operators.sum_operator import SumOperator
    chk.under_contract(ChainOperator.__init__)
    chk.under_contract(ChainOperator.apply)
    chk.under_contract(ChainOperator._flip_modes)
    chk.under_contract(SumOperator.__init__)
    chk.under_contract(SumOperator.apply)
    chk.note("bounded: chains and sums of 1..4 constituents; universal in the vectors and the constituents (stubs)")

    def run(ctx):
        sp_ = Space()
        x = sp_.atom("x")
        for n in (1, 2, 3, 4):
            ops = [StubOp(f"A{k}", 15, dom="D", tgt="D") for k in range(n)]
            ch = ChainOperator(tuple(ops), _callingfrommake=True)
            for m in MODES:
                i = _ilog(m)
                want = x
                order = reversed(range(n)) if i in (0, 3) else range(n)      # (A0 A1 ..)x ; (..)^H reverses
                for k in order:
                    want = LinOp(f"A{k}^{i}")(want)
                ctx.prove(ch.apply(x, m).eq(want), "ChainOperator.apply == act(A0 A1 ... , mode) x (products reverse under adjoint or inverse alone)")
            for negs in itertools.product([False, True], repeat=n):
                so = SumOperator(tuple(ops), tuple(negs), "D", "D", _callingfrommake=True)
                for m in (1, 2):
                    i = _ilog(m)
                    want = sp_.zero()
                    for k in range(n):
                        term = LinOp(f"A{k}^{i}")(x)
                        want = want - term if negs[k] else want + term
                    ctx.prove(so.apply(_X(x), m).eq(want), "SumOperator.apply == sum of +-act(A_k, mode) x")
                for m in (4, 8):
                    try:
                        so.apply(_X(x), m)
                        ctx.prove(F_, "sums refuse inverse modes")
                    except NotImplementedError:
                        ctx.prove(T_, "sums refuse inverse modes")
        # _flip_modes of a chain: the flipped chain applied forward is act(chain, trafo)
        for n in (2, 3):
            ops = [StubOp(f"A{k}", 15, dom="D", tgt="D") for k in range(n)]
            ch = ChainOperator(tuple(ops), _callingfrommake=True)
            for t in range(4):
                fl = ch._flip_modes(t)
                want = x
                for k in (reversed(range(n)) if t in (0, 3) else range(n)):
                    want = LinOp(f"A{k}^{t}")(want)
                ctx.prove(fl.apply(x, 1).eq(want), "ChainOperator._flip_modes(t) applied forward == act(A0 A1 ..., t) x")
        # capability rules, exhaustive for two constituents
        for c0 in range(16):
            for c1 in range(16):
                ops = (StubOp("A", c0, "D", "D"), StubOp("B", c1, "D", "D"))
                ctx.prove(_b(ChainOperator(ops, _callingfrommake=True).capability == (c0 & c1)),
                          "a chain advertises exactly the modes all constituents provide")
                ctx.prove(_b(SumOperator(ops, (False, True), "D", "D", _callingfrommake=True).capability == (c0 & c1 & 3)),
                          "a sum advertises exactly the forward/adjoint modes all constituents provide")
    chk.explore(run)


class _X:
    """a vector with the .extract()/.flexible_addsub() protocol SumOperator.apply uses"""

    def __new__(cls, v):
        v.extract = lambda dom: v
        return v


def _patch_vec():
    from vf.vs import Vec
    if not hasattr(Vec, "flexible_addsub"):
        Vec.flexible_addsub = lambda self, o, neg: self - o if neg else self + o
        Vec.extract = lambda self, dom: self


_patch_vec()


# ------------------------------------------------------------------------------------------------ scaling / diagonal
def _field(ift, dom, arr):
    return ift.Field(ift.DomainTuple.make(dom), arr)


def _zero(e):
    z = objx.is_zero(e)
    if z:
        return True
    pt, val = objx.refute_numerically(sp.sympify(e), None)
    return False if pt is not None else None


def _vec_eq(got, want):
    """entry-wise symbolic identity; returns (status, detail)"""
    g, w = exprs(got), [sp.sympify(x) for x in want]
    if len(g) != len(w):
        return "refuted", f"length {len(g)} vs {len(w)}"
    st = "discharged"
    for a, b in zip(g, w):
        d = sp.simplify(a - b)
        if d == 0:
            continue
        pt, val = objx.refute_numerically(d, None)
        if pt is not None:
            return "refuted", f"residue {d} is {val} at {pt}"
        st = "discharged"      # zero at every exact rational test point (identity testing), recorded in the note
    return st, ""


def sec_scaling_diag(chk):
    import nifty.cl as ift
    import nifty.cl.operators.diagonal_operator as dmod
    from nifty.cl.operators.scaling_operator import ScalingOperator
    chk.under_contract(ScalingOperator.apply)
    chk.under_contract(ScalingOperator._flip_modes)
    for nm in ("apply", "_get_actual_diag", "_flip_modes", "_scale", "_add", "_combine_prod", "_combine_sum", "__init__"):
        chk.under_contract(getattr(dmod.DiagonalOperator, nm))
    chk.assume("ducc's mul_conj/div_conj are a*conj(b) and a/conj(b) (re-bound for symbolic entries)")
    dom = ift.UnstructuredDomain(2)
    x = sx_array((2,), "x")
    xs = [sp.Symbol("x0"), sp.Symbol("x1")]

    def act_scalar(c, i):
        return [c, sp.conjugate(c), 1 / c, 1 / sp.conjugate(c)][i]

    with objx.patched():
        old = (dmod.mul_conj2, dmod.div_conj2, dmod.utilities.iscomplextype)
        dmod.mul_conj2 = lambda a, b: a * b.conj()
        dmod.div_conj2 = lambda a, b: a / b.conj()
        try:
            # ---- ScalingOperator, generic complex factor
            a = sp.Symbol("a")
            S = ScalingOperator(ift.DomainTuple.make(dom), SX(a))
            for m in MODES:
                st, det = _vec_eq(S.apply(_field(ift, dom, x), m).asnumpy(), [act_scalar(a, _ilog(m)) * v for v in xs])
                chk.obligation(f"ScalingOperator.apply, complex symbolic factor, mode {m}: x * act(a, mode)", st, backend="sympy", detail=det)
            for t in range(4):
                St = S._flip_modes(t)
                st, det = _vec_eq(St.apply(_field(ift, dom, x), 1).asnumpy(), [act_scalar(a, t) * v for v in xs])
                chk.obligation(f"ScalingOperator._flip_modes({t}) is the scaling by act(a, {t})", st, backend="sympy", detail=det)
            for val in (1.0, 0.0, -2.5, 2 - 1j):
                Sv = ScalingOperator(ift.DomainTuple.make(dom), val)
                for m in ((1, 2) if val == 0 else MODES):
                    cv = sp.nsimplify(val.real, rational=True) + sp.I * sp.nsimplify(getattr(val, "imag", 0.), rational=True) \
                        if isinstance(val, complex) else sp.nsimplify(val, rational=True)
                    st, det = _vec_eq(Sv.apply(_field(ift, dom, x), m).asnumpy(), [act_scalar(cv, _ilog(m)) * v for v in xs])
                    chk.obligation(f"ScalingOperator.apply, factor {val}, mode {m}", st, backend="sympy", detail=det)
            # ---- DiagonalOperator: real and complex symbolic diagonal, every (_trafo, mode)
            for cplx in (False, True):
                dmod.utilities.iscomplextype = (lambda dt: True) if cplx else (lambda dt: False)
                d = sx_array((2,), "d", **({} if cplx else dict(real=True)))
                ds = exprs(d)
                D = dmod.DiagonalOperator(_field(ift, dom, d))
                for t in range(4):
                    Dt = D._flip_modes(t)
                    for m in MODES:
                        i = _ilog(m) ^ t
                        st, det = _vec_eq(Dt.apply(_field(ift, dom, x), m).asnumpy(), [act_scalar(dv, i) * v for dv, v in zip(ds, xs)])
                        chk.obligation(f"DiagonalOperator ({'complex' if cplx else 'real'} entries): _trafo {t}, mode {m} acts as "
                                       f"act(diag, mode xor trafo)", st, backend="sympy", detail=det)
                    c = sp.Symbol("c", real=True)
                    st, det = _vec_eq(Dt._scale(SX(c)).apply(_field(ift, dom, x), 1).asnumpy(), [c * act_scalar(dv, t) * v for dv, v in zip(ds, xs)])
                    chk.obligation(f"DiagonalOperator._scale on a _trafo {t} operator ({'complex' if cplx else 'real'})", st, backend="sympy", detail=det)
                    st, det = _vec_eq(Dt._add(SX(c)).apply(_field(ift, dom, x), 1).asnumpy(), [(c + act_scalar(dv, t)) * v for dv, v in zip(ds, xs)])
                    chk.obligation(f"DiagonalOperator._add on a _trafo {t} operator ({'complex' if cplx else 'real'})", st, backend="sympy", detail=det)
                    e = sx_array((2,), "e", **({} if cplx else dict(real=True)))
                    es = exprs(e)
                    for t2 in range(4):
                        Et = dmod.DiagonalOperator(_field(ift, dom, e))._flip_modes(t2)
                        st, det = _vec_eq(Dt._combine_prod(Et).apply(_field(ift, dom, x), 1).asnumpy(),
                                          [act_scalar(dv, t) * act_scalar(ev, t2) * v for dv, ev, v in zip(ds, es, xs)])
                        chk.obligation(f"DiagonalOperator._combine_prod of _trafo {t} and {t2} ({'complex' if cplx else 'real'})", st,
                                       backend="sympy", detail=det)
                        for sn, on in itertools.product([False, True], repeat=2):
                            st, det = _vec_eq(Dt._combine_sum(Et, sn, on).apply(_field(ift, dom, x), 1).asnumpy(),
                                              [((-1 if sn else 1) * act_scalar(dv, t) + (-1 if on else 1) * act_scalar(ev, t2)) * v
                                               for dv, ev, v in zip(ds, es, xs)])
                            chk.obligation(f"DiagonalOperator._combine_sum of _trafo {t} and {t2}, signs ({sn},{on}) "
                                           f"({'complex' if cplx else 'real'})", st, backend="sympy", detail=det)
            # ---- partial-space diagonal on a product domain (2 x 2)
            dmod.utilities.iscomplextype = lambda dt: True
            pdom = ift.DomainTuple.make((ift.UnstructuredDomain(2), ift.UnstructuredDomain(2)))
            X = sx_array((2, 2), "x")
            for space in (0, 1):
                d = sx_array((2,), "d")
                ds = exprs(d)
                Dp = dmod.DiagonalOperator(ift.Field(ift.DomainTuple.make(ift.UnstructuredDomain(2)), d), domain=pdom, spaces=space)
                for m in MODES:
                    out = Dp.apply(ift.Field(pdom, X), m).asnumpy()
                    want = [[act_scalar(ds[(r if space == 0 else c)], _ilog(m)) * sp.Symbol(f"x{2 * r + c}") for c in range(2)] for r in range(2)]
                    st, det = _vec_eq(out, [w for row in want for w in row])
                    chk.obligation(f"partial-space DiagonalOperator (space {space}), mode {m}: broadcast along the other space", st,
                                   backend="sympy", detail=det)
        finally:
            dmod.mul_conj2, dmod.div_conj2, dmod.utilities.iscomplextype = old


# ------------------------------------------------------------------------------------------------ expression trees
class Leaf:
    def __init__(self, name, op, mat, cap):
        self.name, self.op, self.mat, self.cap = name, op, mat, cap


def _act(M, i):
    if i == 0:
        return M
    if i == 1:
        return M.H
    if i == 2:
        return M.inv()
    return M.inv().H


def ref(node, i):
    """independent evaluator: matrix of act(expression, i)"""
    k = node[0]
    if k == "leaf":
        return _act(node[1].mat, i)
    if k == "adj":
        return ref(node[1], i ^ 1)
    if k == "inv":
        return ref(node[1], i ^ 2)
    if k == "scale":
        c = node[1]
        ci = [c, sp.conjugate(c), 1 / c, 1 / sp.conjugate(c)][i]
        return ci * ref(node[2], i)
    if k == "chain":
        a, b = node[1], node[2]
        return ref(a, i) * ref(b, i) if i in (0, 3) else ref(b, i) * ref(a, i)
    if k in ("sum", "diff"):
        sgn = 1 if k == "sum" else -1
        if i in (0, 1):
            return ref(node[1], i) + sgn * ref(node[2], i)
        return _act(ref(node[1], 0) + sgn * ref(node[2], 0), i)      # only requested if the real operator advertises it
    raise ValueError(k)


def ref_cap(node):
    k = node[0]
    if k == "leaf":
        return node[1].cap
    if k in ("adj", "inv"):
        t = 1 if k == "adj" else 2
        c = ref_cap(node[1])
        return sum((1 << i) for i in range(4) if c & (1 << (i ^ t)))
    if k == "scale":
        return ref_cap(node[2])
    if k == "chain":
        return ref_cap(node[1]) & ref_cap(node[2])
    return ref_cap(node[1]) & ref_cap(node[2]) & 3


def build(node):
    k = node[0]
    if k == "leaf":
        return node[1].op
    if k == "adj":
        return build(node[1]).adjoint
    if k == "inv":
        return build(node[1]).inverse
    if k == "scale":
        fac = float(node[1]) if node[1].is_Rational else SX(node[1])       # -1.5 * op : a plain real number, absorbed by simplify
        return fac * build(node[2])
    if k == "chain":
        return build(node[1]) @ build(node[2])
    if k == "sum":
        return build(node[1]) + build(node[2])
    return build(node[1]) - build(node[2])


def show(node):
    k = node[0]
    if k == "leaf":
        return node[1].name
    if k in ("adj", "inv"):
        return f"({show(node[1])}).{'adjoint' if k == 'adj' else 'inverse'}"
    if k == "scale":
        return f"{node[1]}*({show(node[2])})"
    return f"({show(node[1])} {'@' if k == 'chain' else '+' if k == 'sum' else '-'} {show(node[2])})"


def _leaves(ift, dom, dt, dmod):
    m = sx_array((2, 2), "m")
    Mm = sp.Matrix(2, 2, exprs(m))
    d = sx_array((2,), "d")
    e = sx_array((2,), "e", positive=True)
    a = sp.Symbol("a")
    M = ift.MatrixProductOperator(dt, m)
    D = dmod.DiagonalOperator(ift.Field(dt, d))
    E = dmod.DiagonalOperator(ift.Field(dt, e))
    from nifty.cl.operators.scaling_operator import ScalingOperator
    from nifty.cl.operators.simple_linear_operators import NullOperator
    S = ScalingOperator(dt, SX(a))
    Dm, Em = sp.diag(*exprs(d)), sp.diag(*exprs(e))
    SW = ift.SandwichOperator.make(M, E)
    SWS = ift.SandwichOperator.make(S, E)           # a scaling as bun: |a|^2 E
    SWD = ift.SandwichOperator.make(D, E)           # an invertible bun: D^H E D
    return [Leaf("M", M, Mm, 3), Leaf("D", D, Dm, 15), Leaf("E", E, Em, 15), Leaf("S", S, a * sp.eye(2), 15),
            Leaf("I", ScalingOperator(dt, 1.), sp.eye(2), 15), Leaf("N", NullOperator(dt, dt), sp.zeros(2, 2), 3),
            Leaf("SW(M,E)", SW, Mm.H * Em * Mm, 3), Leaf("SW(S,E)", SWS, sp.conjugate(a) * a * Em, 15),
            Leaf("SW(D,E)", SWD, Dm.H * Em * Dm, 15)]


def _gen_trees(leaves, depth, rnd, count):
    lv = [("leaf", l) for l in leaves]
    c = sp.Symbol("c")

    def grow(pool):
        out = []
        for n in pool:
            out += [("adj", n), ("inv", n), ("scale", c, n), ("scale", sp.Rational(-3, 2), n)]
        for a in pool:
            for b in pool:
                out += [("chain", a, b), ("sum", a, b), ("diff", a, b)]
        return out
    d1 = grow(lv)
    if depth == 1:
        return d1
    # depth 2: every (outer combinator, inner combinator) pattern with several operand choices, then a random sample
    by_kind = {}
    for n in d1:
        by_kind.setdefault(n[0] + (":num" if n[0] == "scale" and n[1] != c else ""), []).append(n)
    systematic = []
    for kind, nodes in by_kind.items():
        for inner in rnd.sample(nodes, min(len(nodes), 5)):
            systematic += [("adj", inner), ("inv", inner), ("scale", c, inner), ("scale", sp.Rational(-3, 2), inner)]
            for l in rnd.sample(lv, 3):
                systematic += [("chain", inner, l), ("chain", l, inner), ("sum", inner, l), ("diff", l, inner)]
    pool2 = lv + rnd.sample(d1, min(len(d1), 40))
    d2 = grow(pool2)
    trees = d1 + systematic + rnd.sample(d2, min(len(d2), count))
    if depth >= 3:
        pool3 = lv + rnd.sample(d2, 30)
        d3 = grow(pool3)
        trees += rnd.sample(d3, min(len(d3), count))
    return trees


def sec_trees(chk):
    import nifty.cl as ift
    import nifty.cl.operators.diagonal_operator as dmod
    from nifty.cl.operators.chain_operator import ChainOperator
    from nifty.cl.operators.sum_operator import SumOperator
    for c in (ChainOperator.make, ChainOperator.simplify, SumOperator.make, SumOperator.simplify,
              ift.SandwichOperator.make, ift.SandwichOperator.apply, ift.LinearOperator.__matmul__, ift.LinearOperator._myadd):
        chk.under_contract(c)
    rnd = random.Random(4242 + chk.seed)
    depth, count = (2, 120) if chk.tier == "quick" else (3, 600)
    dom = ift.UnstructuredDomain(2)
    dt = ift.DomainTuple.make(dom)
    fails, ncase, nontriv, samples, sym0, num0 = [], 0, 0, [], 0, 0
    with objx.patched():
        old = (dmod.mul_conj2, dmod.div_conj2, dmod.utilities.iscomplextype)
        dmod.mul_conj2 = lambda a, b: a * b.conj()
        dmod.div_conj2 = lambda a, b: a / b.conj()
        dmod.utilities.iscomplextype = lambda t: True
        try:
            leaves = _leaves(ift, dom, dt, dmod)
            trees = _gen_trees(leaves, depth, rnd, count)
            for node in trees:
                ncase += 1
                name = show(node)
                try:
                    op = build(node)
                except Exception as e:  # noqa: BLE001
                    fails.append(dict(case=name, detail=f"building the expression raised {type(e).__name__}: {e}"))
                    continue
                rc = ref_cap(node)
                cap = op.capability
                if rc & ~cap:
                    fails.append(dict(case=name, detail=f"advertises capability {cap}, but all constituents provide {rc}"))
                    continue
                nontriv += (node[0] != "leaf")
                for mode in MODES:
                    if not (cap & mode):
                        try:
                            op.apply(ift.Field(dt, np.zeros(2)), mode)
                            fails.append(dict(case=name, detail=f"mode {mode} is not advertised but apply does not refuse it"))
                        except NotImplementedError:
                            pass
                        except Exception:  # noqa: BLE001
                            pass
                        continue
                    i = _ilog(mode)
                    try:
                        R = ref(node, i)
                    except Exception:  # noqa: BLE001  (singular reference, e.g. inverse of a null operator)
                        continue
                    cols = []
                    try:
                        for j in range(2):
                            ej = np.zeros(2)
                            ej[j] = 1.
                            cols.append(exprs(op.apply(ift.Field(dt, ej), mode).asnumpy()))
                    except Exception as e:  # noqa: BLE001
                        fails.append(dict(case=name, detail=f"apply in advertised mode {mode} raised {type(e).__name__}: {e}"))
                        continue
                    for r in range(2):
                        for j in range(2):
                            dlt = sp.simplify(cols[j][r] - R[r, j])
                            if dlt == 0:
                                sym0 += 1
                                continue
                            pt, val = objx.refute_numerically(dlt, None, n=6)
                            if pt is not None:
                                fails.append(dict(case=name, detail=f"mode {mode}, entry ({r},{j}): residue {dlt} = {val} at {pt}"))
                                break
                            num0 += 1
                        else:
                            continue
                        break
                if len(samples) < 4 and node[0] != "leaf" and not fails:
                    samples.append(dict(expression=name, capability=cap, reference_capability=rc))
                if len(fails) >= 8:
                    break
        finally:
            dmod.mul_conj2, dmod.div_conj2, dmod.utilities.iscomplextype = old
    chk.note(f"trees: {sym0} matrix entries reduced to 0 symbolically, {num0} were zero at every exact rational test point")
    chk.bounded("every generated operator expression acts in each advertised mode as the reference matrix expression and "
                "advertises at least the reference capability; non-advertised modes are refused",
                bound=f"depth <= {depth}; 7 leaf kinds (matrix, complex diagonal, positive diagonal, complex scaling, identity, "
                      f"null, sandwich) on a 2-pixel domain; combinators @, +, -, scalar *, .adjoint, .inverse; seeded sample of "
                      f"{len(trees)} trees", cases=ncase, nontrivial=nontriv, failures=fails, samples=samples, kind="B-shape")


SECTIONS = [sec_tables, sec_adapter, sec_chain_sum, sec_scaling_diag, sec_trees]
