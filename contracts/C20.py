"""C20 Linear Gaussian problems: Wiener filter and VI give the exact posterior.

For d = R s + n, n ~ N(0, N), s ~ N(0, 1) the posterior is N(m, D) with D = (R^T N^-1 R + 1)^-1, m = D R^T N^-1 d.
Contracts (post-conditions taken from the property), with R, N, d symbolic so that every identity holds for all values:
  nifty.re  wiener_filter_posterior(signal_space=True)   .pos == m            (Engine J on the jaxpr of the real function)
            wiener_filter_posterior(signal_space=False)  .pos == m            (data-space system (R R^T + N) y = d, m = R^T y)
            model_is_linear=False at an arbitrary position p: .pos == the Wiener filter of the linearised model,
                (J^T N^-1 J + 1) m == J^T N^-1 (d - f(p) + J p);  for a linear model this is m again, independent of p
            its samples: pos +- r with r linear in the white noise, zero mean, covariance D (so: exact posterior samples)
  nifty.cl  WienerFilterCurvature(R, N, S=1).inverse_times(R^T N^-1 d) == m;  the curvature is D^-1;  its samples have covariance D
            the sampled KL energy of the linear model has zero gradient at m (mirrored linear samples), i.e. m is the MGVI fixed point
The conjugate gradient is replaced by an exact solve (A-CGEXACT; its contract is C14/C15), white noise by symbols (L-COV).
The push-through identity R^T N^-1 (R R^T + N) = (R^T N^-1 R + 1) R^T that links the two solution paths is discharged as a
sympy matrix identity for symbolic R and N.
"""
import numpy as np
import sympy as sp

from vf import jaxsym, objx
from vf.jaxsym import NoiseFeed, exact_cg, linear_form, sym_call, symbols
from vf.objx import SX, eq_status, exprs

META = dict(
    title="Linear Gaussian problems: Wiener filter and VI give the exact posterior",
    level="other",
    design_ref="DESIGN.md section 4, C20",
    technique="post-condition 'result == (R^T N^-1 R + 1)^-1 R^T N^-1 d' (and sample covariance == (R^T N^-1 R + 1)^-1) on the real "
              "wiener_filter_posterior (jaxpr evaluated on symbols, Engine J), WienerFilterCurvature and the sampled KL energy "
              "(real classes on symbolic fields, Engine O), for symbolic responses, noise covariances and data; CG replaced by an "
              "exact solve (A-CGEXACT), white noise by symbols; push-through lemma discharged as a symbolic matrix identity",
    text="For symbolic 2x2, 2x3 (more parameters than data), 3x2 and rank-deficient responses, symbolic diagonal noise and data: the "
         "JAX Wiener filter returns the exact posterior mean when solved in signal space and in data space and, for a model declared "
         "non-linear, the Wiener filter of its linearisation at an arbitrary expansion point (for linear models again the exact mean); "
         "its samples are mean +- residual with residuals linear in the noise, of zero mean and with the exact posterior covariance; "
         "the classic WienerFilterCurvature inverts to the exact mean and samples with the exact covariance; the sampled KL energy "
         "of the linear model is stationary at the exact mean.",
    note="Universal in all matrix entries, noise variances, data and expansion points; bounded in the shapes. Assumed: A-CGEXACT "
         "(CG returns the exact solution; C14/C15 carry its contract), L-COV (covariance of a linear form in white noise). Convergence "
         "of *empirical* sample covariances is a statistical statement and is not checked.",
    explanation="level 'other': symbolic identities on the real code for enumerated shapes, exact solve assumed for CG",
)


def _eq(chk, label, got, want, **kw):
    if len(got) != len(want):
        chk.obligation(label, "refuted", backend="sympy", detail=f"{len(got)} entries, expected {len(want)}")
        return
    worst = ("discharged", "sympy", "")
    for a, b in zip(got, want):
        st = eq_status(sp.sympify(a), sp.sympify(b), n=5, simplify_seconds=4, **kw)
        if st[0] != "discharged":
            worst = st
            break
        if st[1] != "sympy":
            worst = st
    chk.obligation(label, worst[0], backend=worst[1], detail=worst[2])


def _shapes(tier):
    out = [("2x2", 2, 2, None), ("2x3 (more parameters than data)", 2, 3, None), ("rank-deficient 2x2 (second row = c * first row)", 2, 2, "rank1")]
    if tier == "thorough":
        out.append(("3x2", 3, 2, None))
    return out


def _setup(nd, ns, special, ordered=False):
    R = symbols((nd, ns), "R", real=True)
    if special == "rank1":
        c = sp.Symbol("c", real=True)
        R = R.copy()
        for j in range(ns):
            R[1, j] = c * R[0, j]
    w = symbols((nd,), "w", positive=True)            # inverse noise variances
    if ordered:             # noise variances as increasing sums of positive symbols: DiagonalOperator's min() is then decidable for sympy
        u = symbols((nd,), "u", positive=True)
        w = np.array([1 / sum(u[:i + 1]) for i in range(nd)], dtype=object)
    d = symbols((nd,), "d", real=True)
    Rm = sp.Matrix(nd, ns, list(R.ravel()))
    Ninv = sp.diag(*list(w))
    Dinv = Rm.T * Ninv * Rm + sp.eye(ns)
    rhs = list(Rm.T * Ninv * sp.Matrix(list(d)))
    # the exact posterior mean m is characterised by (R^T N^-1 R + 1) m == R^T N^-1 d; `m` below is the callable that maps a candidate
    # to the residual pair (lhs entries, rhs entries) of that linear system (no closed-form inverse is formed)
    return R, w, d, Rm, Ninv, Dinv, rhs


def _is_mean(chk, label, got, Dinv, rhs):
    _eq(chk, label, list(Dinv * sp.Matrix([sp.sympify(e) for e in got])), rhs)


def sec_push_through(chk):
    for name, nd, ns, special in _shapes("thorough"):
        R, w, d, Rm, Ninv, Dinv, m = _setup(nd, ns, special)
        N = sp.diag(*[1 / x for x in w])
        lhs = Rm.T * Ninv * (Rm * Rm.T + N)
        rhs = Dinv * Rm.T
        _eq(chk, f"push_through: {name}: R^T N^-1 (R R^T + N) == (R^T N^-1 R + 1) R^T", list(lhs), list(rhs))


def sec_wiener_re(chk):
    import jax
    jax.config.update("jax_enable_x64", True)
    import jax.numpy as jnp
    import nifty.re as jft
    from nifty.re import evi
    chk.under_contract(evi.wiener_filter_posterior)
    chk.assume("A-CGEXACT: the conjugate gradient is replaced by an exact (Gaussian elimination) solve; A-REAL; A-JAXTRACE")
    key = jax.random.PRNGKey(0)
    for name, nd, ns, special in _shapes(chk.tier):
        R, w, d, Rm, Ninv, Dinv, m = _setup(nd, ns, special)
        ex = (jnp.ones((nd, ns)), jnp.ones(nd), jnp.ones(nd))

        def lh_of(R_, w_, d_):
            return jft.Gaussian(d_, noise_cov_inv=w_).amend(lambda x: R_ @ x, domain=jft.ShapeWithDtype((ns,)))
        for space in (True, False):
            def run(R_, w_, d_, space=space):
                s, _ = evi.wiener_filter_posterior(lh_of(R_, w_, d_), key=key, n_samples=0, draw_linear_kwargs=dict(cg=exact_cg), jit=False,
                                                   signal_space=space, noise_covariance=lambda t: t / w_)
                return s.pos
            out, used = sym_call(run, ex, (R, w, d))
            _is_mean(chk, f"wiener_re: {name}: {'signal' if space else 'data'}-space solution == (R^T N^-1 R + 1)^-1 R^T N^-1 d", list(jaxsym.to_obj(np.asarray(out)).ravel()), Dinv, m)
        # declared non-linear, linear in fact: the expansion point must not matter
        p = symbols((ns,), "p", real=True)

        def run_lin(R_, w_, d_, p_):
            s, _ = evi.wiener_filter_posterior(lh_of(R_, w_, d_), p_, key=key, n_samples=0, draw_linear_kwargs=dict(cg=exact_cg), jit=False, model_is_linear=False)
            return s.pos
        out, _ = sym_call(run_lin, ex + (jnp.ones(ns),), (R, w, d, p))
        _is_mean(chk, f"wiener_re: {name}: model_is_linear=False at an arbitrary position: still the exact posterior mean of the linear model",
                 list(jaxsym.to_obj(np.asarray(out)).ravel()), Dinv, m)

        def run_lin_d(R_, w_, d_, p_):
            s, _ = evi.wiener_filter_posterior(lh_of(R_, w_, d_), p_, key=key, n_samples=0, draw_linear_kwargs=dict(cg=exact_cg), jit=False, model_is_linear=False,
                                               signal_space=False, noise_covariance=lambda t: t / w_)
            return s.pos
        out, _ = sym_call(run_lin_d, ex + (jnp.ones(ns),), (R, w, d, p))
        _is_mean(chk, f"wiener_re: {name}: model_is_linear=False, data space, arbitrary position: the exact posterior mean",
                 list(jaxsym.to_obj(np.asarray(out)).ravel()), Dinv, m)
    # a genuinely non-linear model: the Wiener filter of the linearisation
    nd = ns = 2
    R, w, d, Rm, Ninv, _, _ = _setup(nd, ns, None)
    p = symbols((ns,), "p", real=True)
    fx = [sp.exp(v) for v in Rm * sp.Matrix(list(p))]
    J = sp.Matrix([[sp.diff(f, v) for v in p] for f in fx])
    rhs = J.T * Ninv * (sp.Matrix(list(d)) - sp.Matrix(fx) + J * sp.Matrix(list(p)))
    Dl = J.T * Ninv * J + sp.eye(ns)

    def run_nl(R_, w_, d_, p_):
        lh = jft.Gaussian(d_, noise_cov_inv=w_).amend(lambda x: jnp.exp(R_ @ x), domain=jft.ShapeWithDtype((ns,)))
        s, _ = evi.wiener_filter_posterior(lh, p_, key=key, n_samples=0, draw_linear_kwargs=dict(cg=exact_cg), jit=False, model_is_linear=False)
        return s.pos
    out, _ = sym_call(run_nl, (jnp.ones((nd, ns)), jnp.ones(nd), jnp.ones(nd), jnp.ones(ns)), (R, w, d, p))
    _is_mean(chk, "wiener_re: non-linear model exp(R x): solution of (J^T N^-1 J + 1) m == J^T N^-1 (d - f(p) + J p)", list(jaxsym.to_obj(np.asarray(out)).ravel()), Dl, list(rhs))


def sec_samples_re(chk):
    """the samples of wiener_filter_posterior: mean +- residual, residual covariance == exact posterior covariance"""
    import jax
    jax.config.update("jax_enable_x64", True)
    import jax.numpy as jnp
    import nifty.re as jft
    from nifty.re import evi
    chk.under_contract(evi.draw_linear_residual)
    chk.under_contract(evi.sample_likelihood)
    chk.lemma("L-COV: the covariance of C xi for white xi is C C^T")
    key = jax.random.PRNGKey(0)
    for name, nd, ns, special in _shapes(chk.tier)[:2]:
        R, w, d, Rm, Ninv, Dinv, m = _setup(nd, ns, special)
        nxi = nd + ns          # one likelihood draw (data shape) and one prior draw (parameter shape) per sample
        xi = symbols((nxi,), "xi", real=True)

        def run(R_, w_, d_, xi_):
            lh = jft.Gaussian(d_, noise_cov_inv=w_).amend(lambda x: R_ @ x, domain=jft.ShapeWithDtype((ns,)))
            old = evi.random_like
            evi.random_like = NoiseFeed(xi_)
            try:
                s, _ = evi.wiener_filter_posterior(lh, key=key, n_samples=1, residual_map="vmap", draw_linear_kwargs=dict(cg=exact_cg), jit=False)
            finally:
                evi.random_like = old
            return s.pos, s.samples
        (pos, smp), used = sym_call(run, (jnp.ones((nd, ns)), jnp.ones(nd), jnp.ones(nd), jnp.ones(nxi)), (R, w, d, xi))
        pos = list(jaxsym.to_obj(np.asarray(pos)).ravel())
        smp = jaxsym.to_obj(np.asarray(smp))
        lab = f"samples_re: {name}"
        chk.obligation(f"{lab}: one key gives two samples (a residual and its mirror image)", "discharged" if smp.shape == (2, ns) else "refuted", backend="identity",
                       detail=str(smp.shape))
        if smp.shape != (2, ns):
            continue
        r0 = [smp[0, j] - pos[j] for j in range(ns)]
        r1 = [smp[1, j] - pos[j] for j in range(ns)]
        _eq(chk, f"{lab}: the second sample is the exact mirror image: residuals add up to zero, the sample average is the posterior mean", [a + b for a, b in zip(r0, r1)], [0] * ns)
        try:
            const, C = linear_form(r0, list(xi))
        except ValueError as e:
            chk.obligation(f"{lab}: the residual is linear in the white noise", "refuted", backend="sympy", detail=str(e)[:300])
            continue
        chk.obligation(f"{lab}: the residual is linear in the white noise", "discharged", backend="sympy")
        _eq(chk, f"{lab}: the residual has zero mean", const, [0] * ns)
        _eq(chk, f"{lab}: residual covariance times (R^T N^-1 R + 1) == identity (exact posterior covariance)", list((C * C.T) * Dinv), list(sp.eye(ns)))


def _matrix_operator(ift, dom, tgt, M):
    """sidecar LinearOperator standing for an arbitrary linear response: times = M x, adjoint_times = M^T y (real symbolic M)"""
    from nifty.cl.operators.linear_operator import LinearOperator

    class Response(LinearOperator):
        def __init__(self):
            self._domain, self._target = dom, tgt
            self._capability = self.TIMES | self.ADJOINT_TIMES

        def apply(self, x, mode):
            self._check_input(x, mode)
            v = sp.Matrix([e for e in exprs(x.asnumpy())])
            out = (M * v) if mode == self.TIMES else (M.T * v)
            arr = np.empty(len(out), dtype=object)
            for i, e in enumerate(out):
                arr[i] = SX(e)
            return ift.Field(tgt if mode == self.TIMES else dom, arr)
    return Response()


def sec_classic(chk):
    """WienerFilterCurvature and the MGVI fixed point on the real classic classes"""
    import nifty.cl as ift
    import nifty.cl.minimization.kl_energies as kle
    import nifty.cl.operators.inversion_enabler as ie
    import nifty.cl.operators.sampling_enabler as se
    from nifty.cl.library.wiener_filter_curvature import WienerFilterCurvature
    from vf.ofield import ExactCG, SXNoise, dense_matrix, flat, isnan_real, np_proxy, sym_field
    chk.under_contract(WienerFilterCurvature)
    chk.under_contract(ie.InversionEnabler.apply)
    chk.assume("A-CGEXACT: ConjugateGradient inside InversionEnabler / SamplingEnabler is replaced by the exact solution (C14 proves its contract)")
    ExactCG.ift = ift
    ExactCG.simplify = False
    old = (ie.ConjugateGradient, se.ConjugateGradient)
    ie.ConjugateGradient = se.ConjugateGradient = ExactCG
    noise = SXNoise()
    try:
        with objx.patched(noise), np_proxy(kle, isnan=isnan_real):
            # the classic operator chain on fully symbolic 2x3 / 3x2 responses exceeds sympy's reach (no result within 15 minutes): the thorough tier
            # adds the rank-deficient 2x2 response only; the JAX sections cover the other shapes
            shapes = [sh for sh in _shapes(chk.tier) if (sh[1], sh[2]) == (2, 2)] if chk.tier == "thorough" else _shapes(chk.tier)[:1]
            for name, nd, ns, special in shapes:
                R, w, d, Rm, Ninv, Dinv, m = _setup(nd, ns, special, ordered=True)
                sdom, ddom = ift.DomainTuple.make(ift.UnstructuredDomain(ns)), ift.DomainTuple.make(ift.UnstructuredDomain(nd))
                Rarr = np.empty((nd, ns), dtype=object)
                for i in range(nd):
                    for j in range(ns):
                        Rarr[i, j] = SX(R[i, j])
                Rop = _matrix_operator(ift, sdom, ddom, Rm)        # a generic linear response (sidecar operator with the symbolic matrix R)
                narr = np.empty(nd, dtype=object)
                for i in range(nd):
                    narr[i] = SX(1 / w[i])
                Nop = ift.DiagonalOperator(ift.Field(ddom, narr), sampling_dtype=float)
                Sop = ift.ScalingOperator(sdom, 1., float)
                darr = np.empty(nd, dtype=object)
                for i in range(nd):
                    darr[i] = SX(d[i])
                dfield = ift.Field(ddom, darr)
                curv = WienerFilterCurvature(Rop, Nop, Sop, "IC", "IC")
                j = Rop.adjoint_times(Nop.inverse_times(dfield))
                got = flat(curv.inverse_times(j))
                lab = f"classic: {name}"
                _is_mean(chk, f"{lab}: WienerFilterCurvature.inverse_times(R^T N^-1 d) == exact posterior mean", got, Dinv, m)
                _eq(chk, f"{lab}: the curvature is R^T N^-1 R + 1", list(dense_matrix(ift, curv)), list(Dinv))
                noise.src.clear()
                ift.random.push_sseq_from_seed(9)
                try:
                    smp = curv.draw_sample(from_inverse=True)
                finally:
                    ift.random.pop_sseq()
                ExactCG.discharge(chk, lab)
                const, C = noise.coefficient_matrix(flat(smp))
                _eq(chk, f"{lab}: a sample of the inverse curvature has zero mean", const, [0] * ns)
                _eq(chk, f"{lab}: its covariance times (R^T N^-1 R + 1) == identity", list((C * C.T) * Dinv), list(sp.eye(ns)))
                # MGVI fixed point: the sampled KL of the linear model is stationary at the exact mean
                dnum = [sp.Rational(1, 2), sp.Rational(-5, 4), sp.Integer(2)][:nd]      # the energy derives its sampling dtype from the data: floats here
                lh = ift.GaussianEnergy(data=ift.makeField(ddom, np.array([float(v) for v in dnum])), inverse_covariance=Nop.inverse) @ Rop
                H = ift.StandardHamiltonian(lh, ic_samp="IC", prior_sampling_dtype=float)
                mnum = list((Dinv.subs({d[i]: dnum[i] for i in range(nd)})).LUsolve(sp.Matrix(m).subs({d[i]: dnum[i] for i in range(nd)})))
                marr = np.empty(ns, dtype=object)
                for i in range(ns):
                    marr[i] = SX(mnum[i])
                mean = ift.Field(sdom, marr)
                noise.src.clear()
                ift.random.push_sseq_from_seed(9)
                try:
                    kl = kle.SampledKLEnergy(mean, H, 1, None, mirror_samples=True)
                finally:
                    ift.random.pop_sseq()
                _eq(chk, f"{lab}: the sampled KL energy (one mirrored pair of linear samples) has zero gradient at the exact posterior mean", flat(kl.gradient), [0] * ns)
                res = [s for s in kl.samples.iterator()]
                r0 = [a - b for a, b in zip(flat(res[0]), mnum)]
                const, C = noise.coefficient_matrix(r0)
                _eq(chk, f"{lab}: the MGVI samples at the exact mean have the exact posterior covariance", list((C * C.T) * Dinv), list(sp.eye(ns)))
    finally:
        ie.ConjugateGradient, se.ConjugateGradient = old


def sec_kl_re(chk):
    """MAP / VI through the JAX driver: the Newton metric is the sample average of J^T N^-1 J + 1 -- with no samples (MAP) the full Hessian of
    the Hamiltonian at the position, which makes one exact Newton step of a linear Gaussian problem land on the posterior mean
    (the obligations of C19's kl_re section, re-discharged here on the same real functions)"""
    from contracts import C19
    C19.sec_kl_re(chk)


SECTIONS = [sec_push_through, sec_wiener_re, sec_samples_re, sec_classic, sec_kl_re]
