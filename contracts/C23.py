"""C23 Distributed summation is partition-independent and cannot deadlock.

Function under contract: nifty.cl.utilities.allreduce_sum with _send/_recv/_bcast.
  pairing   (proof, Engine S, all nobj / partitions / ranks): one iteration of the re-compiled pairing loops,
            run for two symbolic ranks p and q over a symbolic ownership map: "p receives from q at (step, j)"
            <=> "q sends to p at (step, j)"; labels (step, j) strictly increase; collectives are unconditional.
  exhaustive(bounded stand-in, exhaustive for the property's own quantifier): every ordered partition of
            nobj <= 8 summands over <= 4 ranks (710 cases): the real allreduce_sum runs once per rank against a
            recording communicator with a non-associative symbolic '+'; every rank must return the single-process
            term; all interleavings of the recorded send/recv/collective events under synchronous-send semantics
            are explored for deadlocks; every receive must name its source (deterministic matching).
"""
import ast
import inspect
import itertools
import queue
import threading

import z3

from vf import symx
from vf.symx import Ctx, SymBool, SymInt, fresh_int, implies, sand, snot, sor

META = dict(
    title="Distributed summation is partition-independent and cannot deadlock",
    level="other",
    design_ref="DESIGN.md section 4, C23",
    technique="contracts on the communication sites of the real allreduce_sum: symbolic pairing proof (z3) for all "
              "sizes, plus exhaustive run of the real function against a contract-checking recording communicator over "
              "the property's own bounded quantifier with interleaving exploration of the recorded events",
    text="Proved for every nobj, ownership map and pair of ranks: the send and receive sites are mirror images with "
         "strictly increasing labels and unconditional collectives (so, with lemma L-RDV, no deadlock under synchronous "
         "sends). Exhaustively for all 710 ordered partitions of <= 8 summands over <= 4 ranks: every rank returns the very "
         "term of the single-process pairwise tree and no interleaving of the recorded events deadlocks.",
    note="The unbounded tree-equality invariant is not attempted (bounded: nobj <= 8, ntask <= 4, exhaustive there). "
         "Assumes mpi4py point-to-point FIFO per pair and collective semantics (A-MPI); lemma L-RDV (totally ordered, "
         "pairwise matched rendezvous events cannot deadlock) is stated, not machine-checked.",
    exhaustive=True,
    explanation="proof obligations (pairing, ordering, unconditional collectives) are discharged by z3 for all sizes; the "
                "equality of summation trees and the absence of deadlock are decided by exhaustive enumeration of the "
                "property's own bounded quantifier (counted under bounded_standins, not under discharged)",
)


# ------------------------------------------------------------------------------ pairing proof
class _BodyDone(Exception):
    pass


def sec_pairing(chk):
    import nifty.cl.utilities as ut
    chk.lemma("L-RDV: sequential processes whose rendezvous events carry labels from a total order, each process's events "
              "increasing, each label shared by exactly one sender and the matching receiver, cannot deadlock")
    chk.assume("A-MPI: collectives (allgather/allreduce/bcast) complete when every rank calls them")
    who_f = z3.Function("who", z3.IntSort(), z3.IntSort())

    class Who:
        def __getitem__(self, k):
            k = k.t if isinstance(k, SymInt) else z3.IntVal(int(k))
            return SymInt(who_f(k))

    class GhostVals:
        """vals[] with opaque contents; only the access pattern matters here"""

        def __init__(self):
            self.writes = []

        def __getitem__(self, k):
            return _Tok()

        def __setitem__(self, k, v):
            self.writes.append((k, v))

    class _Tok:
        def __add__(self, o):
            return _Tok()

        __radd__ = __add__

    class V(symx.VC):
        def h0(self):
            s = self.state
            return s["vals"], Who(), s["nobj"], s["rank"], s["step"], "DT"

        def h1(self):
            return self.state["j"]

        def tail1(self, j, it1, step):
            Ctx.cur.prove(it1 > j, "inner loop: the label j strictly increases")
            return True

        def tail0(self, step, old):
            return step > old

        def stop(self, why):
            raise _BodyDone(why)

    vc = V()
    events = []

    def _recv(comm, source, dtype):
        events.append(("recv", source))
        return _Tok()

    def _send(comm, obj, dest, dtype):
        events.append(("send", dest))

    class Comm0:
        """concrete 1-rank communicator for the set-up code before the loops (the loop state is havocked afterwards)"""

        def Get_rank(self):
            return 0

        def allgather(self, x):
            return [x]

        def allreduce(self, x):
            return x

    loops = {0: dict(entry="True", havoc="vals, who, nobj, rank, step, dtype = __vc.h0()\n__old_step = step",
                     inv="__vc.tail0(step, __old_step)"),
             1: dict(entry="(2*step) > 0", havoc="__it1 = __vc.h1()", inv="__vc.tail1(j, __it1, step)")}
    f = symx.extract(ut.allreduce_sum, loops=loops,
                     rebind={"_recv": _recv, "_send": _send, "_bcast": lambda comm, obj, root: obj}, vc=vc)
    chk.under_contract(f)

    def one(rank, st):
        events.clear()
        vc.state = dict(st, rank=rank, vals=GhostVals())
        try:
            f([_Tok()], Comm0())
            return None      # left the loops without executing an inner body
        except _BodyDone as e:
            return list(events), str(e)

    def run(ctx):
        nobj, step, j = fresh_int("nobj"), fresh_int("step"), fresh_int("j")
        p, q = fresh_int("p"), fresh_int("q")
        ctx.assume((nobj >= 1) & (step >= 1) & (j >= 0) & (p >= 0) & (q >= 0) & (p != q))
        st = dict(nobj=nobj, step=step, j=j)
        rp = one(p, st)
        rq = one(q, st)
        if rp is None or rq is None:
            return
        ep, _ = rp
        eq, _ = rq
        ctx.cover("inner body executed for both ranks")
        ctx.prove(SymBool(z3.BoolVal(len(ep) <= 1 and len(eq) <= 1)), "at most one message per rank and label")
        for (a, ea, b, eb, A, B) in ((p, ep, q, eq, "p", "q"), (q, eq, p, ep, "q", "p")):
            recv = [x for k, x in ea if k == "recv"]
            send_b = [x for k, x in eb if k == "send"]
            if recv:
                s = recv[0]
                has = sand(*[SymBool(z3.BoolVal(True))]) if send_b else SymBool(z3.BoolVal(False))
                ctx.prove(implies(s == b, has & ((send_b[0] == a) if send_b else False)),
                          "a receive from rank b at label (step, j) is matched by b's send to the receiver at the same label")
                ctx.prove(s != a, "no rank receives from itself")
            send = [x for k, x in ea if k == "send"]
            recv_b = [x for k, x in eb if k == "recv"]
            if send:
                d = send[0]
                has = SymBool(z3.BoolVal(bool(recv_b)))
                ctx.prove(implies(d == b, has & ((recv_b[0] == a) if recv_b else False)),
                          "a send to rank b at label (step, j) is matched by b's receive from the sender at the same label")
                ctx.prove(d != a, "no rank sends to itself")
    chk.explore(run, covers=["inner body executed for both ranks"])

    # outer loop: labels increase (step doubles) -- the tail obligation of loop 0
    def run_outer(ctx):
        nobj, step = fresh_int("nobj"), fresh_int("step")
        ctx.assume((nobj >= 1) & (step >= 1))
        events.clear()
        vc.state = dict(nobj=nobj, step=step, j=nobj, rank=fresh_int("p"), vals=GhostVals())   # inner loop exits at once
        try:
            f([_Tok()], Comm0())
        except _BodyDone:
            ctx.cover("outer tail reached")
    chk.explore(run_outer, tag="outer", covers=["outer tail reached"])

    # collectives are executed unconditionally by every rank (syntactic dominance check on the real source)
    src = inspect.getsource(ut.allreduce_sum)
    tree = ast.parse(src)
    bad = []

    class Vis(ast.NodeVisitor):
        def __init__(self):
            self.guards = []

        def visit_If(self, node):
            self.guards.append(ast.unparse(node.test))
            for s in node.body:
                self.visit(s)
            self.guards[-1] = "not (" + self.guards[-1] + ")"
            for s in node.orelse:
                self.visit(s)
            self.guards.pop()

        def visit_While(self, node):
            self.guards.append("loop")
            self.generic_visit(node)
            self.guards.pop()

        visit_For = visit_While

        def visit_Call(self, node):
            name = ast.unparse(node.func)
            if name in ("comm.allgather", "comm.allreduce", "_bcast", "comm.bcast"):
                g = [x for x in self.guards if "comm is None" not in x]
                if g:
                    bad.append((name, g))
            self.generic_visit(node)
    Vis().visit(tree)
    chk.obligation("collectives (allgather, allreduce, _bcast) are not guarded by rank-dependent conditions or loops",
                   "discharged" if not bad else "refuted", backend="ast-dominance", detail=str(bad))


# ------------------------------------------------------------------------------ exhaustive runs
class Term:
    """summand with a non-associative, non-commutative symbolic '+'"""
    __slots__ = ("t",)

    def __init__(self, t):
        self.t = t

    def __add__(self, o):
        if not isinstance(o, Term):
            return NotImplemented
        return Term(("+", self.t, o.t))

    def __eq__(self, o):
        return isinstance(o, Term) and self.t == o.t

    def __hash__(self):
        return hash(self.t)

    def __repr__(self):
        def s(t):
            return t if isinstance(t, str) else f"({s(t[1])}+{s(t[2])})"
        return s(self.t)


class ContractViolation(Exception):
    pass


class World:
    abort = False

    def __init__(self, n):
        self.n = n
        self.q = {(a, b): queue.Queue() for a in range(n) for b in range(n)}
        self.any_q = {b: queue.Queue() for b in range(n)}
        self.coll = {}
        self.lock = threading.Lock()
        self.cv = threading.Condition(self.lock)
        self.traces = [[] for _ in range(n)]
        self.violations = []
        self.coll_count = [0] * n

    def collective(self, rank, name, value, combine):
        idx = self.coll_count[rank]
        self.coll_count[rank] += 1
        self.traces[rank].append(("coll", name, idx))
        with self.cv:
            slot = self.coll.setdefault(idx, dict(name=name, vals={}))
            if slot["name"] != name:
                self.violations.append(f"collective mismatch at #{idx}: {slot['name']} vs {name}")
            slot["vals"][rank] = value
            self.cv.notify_all()
            ok = self.cv.wait_for(lambda: len(slot["vals"]) == self.n or self.abort, timeout=6)
            if self.abort and len(slot["vals"]) != self.n:
                raise ContractViolation("aborted: another rank violated a communication contract")
            if not ok:
                raise TimeoutError(f"collective {name} #{idx} not reached by all ranks")
        return combine([slot["vals"][r] for r in range(self.n)])


class Comm:
    """recording communicator with contract checks on every call (mpi4py signatures)"""

    def __init__(self, w, rank):
        self.w, self.rank = w, rank

    def Get_size(self):
        return self.w.n

    def Get_rank(self):
        return self.rank

    def allgather(self, x):
        return self.w.collective(self.rank, "allgather", x, list)

    def allreduce(self, x):
        return self.w.collective(self.rank, "allreduce", x, lambda vs: sum(vs[1:], vs[0]))

    def bcast(self, obj, root=0):
        return self.w.collective(self.rank, f"bcast[{root}]", obj, lambda vs: vs[root])

    def Bcast(self, buf, root=0):
        out = self.w.collective(self.rank, f"Bcast[{root}]", buf.copy(), lambda vs: vs[root])
        buf[...] = out

    def send(self, obj, dest):
        if not (0 <= dest < self.w.n) or dest == self.rank:
            self.w.violations.append(f"rank {self.rank}: send to invalid dest {dest}")
        self.w.traces[self.rank].append(("send", dest))
        self.w.q[(self.rank, dest)].put(obj)

    Send = send

    def recv(self, source=None):
        if source is None:
            self.w.violations.append(f"rank {self.rank}: receive does not name its source (wildcard matching is "
                                     f"schedule dependent)")
            self.w.traces[self.rank].append(("recv", None))
            self.w.abort = True
            raise ContractViolation("wildcard receive")
        self.w.traces[self.rank].append(("recv", source))
        for _ in range(300):
            try:
                return self.w.q[(source, self.rank)].get(timeout=0.02)
            except queue.Empty:
                if getattr(self.w, "abort", False):
                    raise ContractViolation("aborted: another rank violated a communication contract")
        raise TimeoutError(f"rank {self.rank}: no message from {source}")

    def Recv(self, buf, source=None):
        v = self.recv(source)
        buf[...] = v


def _run_partition(fn, parts, mk):
    """run the real function once per rank (threads, buffered sends); returns (results, world)"""
    n = len(parts)
    w = World(n)
    res = [None] * n
    errs = [None] * n
    k = 0
    vals = []
    for cnt in parts:
        vals.append([mk(k + i) for i in range(cnt)])
        k += cnt

    def work(r):
        try:
            res[r] = fn(vals[r], Comm(w, r))
        except BaseException as e:  # noqa: BLE001
            errs[r] = e
    th = [threading.Thread(target=work, args=(r,), daemon=True) for r in range(n)]
    for t in th:
        t.start()
    for t in th:
        t.join(12)
    hung = any(t.is_alive() for t in th)
    return res, errs, w, hung


def _interleavings_deadlock_free(traces):
    """explore all interleavings of the recorded events under synchronous-send semantics (a send completes
    only together with the matching receive); returns (ok, states, transitions, witness)"""
    n = len(traces)
    start = tuple([0] * n)
    final = tuple(len(t) for t in traces)
    seen = {start}
    stack = [start]
    transitions = 0
    while stack:
        st = stack.pop()
        if st == final:
            continue
        nxt = []
        cur = [traces[r][st[r]] if st[r] < len(traces[r]) else None for r in range(n)]
        # collective: all ranks at a collective with the same name and index
        if all(c is not None and c[0] == "coll" for c in cur) and len({c[1:] for c in cur}) == 1:
            nxt.append(tuple(s + 1 for s in st))
        for a in range(n):
            ca = cur[a]
            if ca is None or ca[0] != "send":
                continue
            b = ca[1]
            cb = cur[b] if 0 <= b < n else None
            if cb is not None and cb[0] == "recv" and (cb[1] == a or cb[1] is None):
                t = list(st)
                t[a] += 1
                t[b] += 1
                nxt.append(tuple(t))
        if not nxt:
            return False, len(seen), transitions, dict(state=st, blocked=[str(c) for c in cur])
        for t in nxt:
            transitions += 1
            if t not in seen:
                seen.add(t)
                stack.append(t)
    return True, len(seen), transitions, None


def _partitions(nobj, ntask):
    if ntask == 1:
        yield (nobj,)
        return
    for first in range(nobj + 1):
        for rest in _partitions(nobj - first, ntask - 1):
            yield (first,) + rest


def _case(args):
    nobj, parts = args
    import nifty.cl.utilities as ut
    mk = lambda k: Term(f"x{k}")  # noqa: E731
    serial = ut.allreduce_sum([mk(k) for k in range(nobj)], None)
    res, errs, w, hung = _run_partition(ut.allreduce_sum, parts, mk)
    fails = []
    if hung:
        fails.append("a rank did not finish (buffered sends)")
    for r, e in enumerate(errs):
        if e is not None:
            fails.append(f"rank {r} raised {type(e).__name__}: {e}")
    for v in w.violations:
        fails.append("contract: " + v)
    if not fails:
        for r in range(len(parts)):
            if not (isinstance(res[r], Term) and res[r] == serial):
                fails.append(f"rank {r} returned {res[r]!r}, single-process tree is {serial!r}")
        ok, states, trans, wit = _interleavings_deadlock_free(w.traces)
        if not ok:
            fails.append(f"deadlock under synchronous sends: {wit}")
    else:
        states = trans = 0
    nontrivial = sum(1 for c in parts if c) >= 2 and nobj >= 2
    return dict(nobj=nobj, parts=parts, fails=fails, states=states, transitions=trans, nontrivial=nontrivial,
                tree=repr(serial), nmsg=sum(1 for t in w.traces for e in t if e[0] == "send"))


def sec_exhaustive(chk):
    import nifty.cl.utilities as ut
    chk.under_contract(ut.allreduce_sum)
    chk.under_contract(ut._send)
    chk.under_contract(ut._recv)
    chk.under_contract(ut._bcast)
    chk.assume("A-MPI: point-to-point messages between one pair of ranks are FIFO; collectives as documented")
    cases = [(nobj, parts) for nobj in range(1, 9) for ntask in range(1, 5) for parts in _partitions(nobj, ntask)]
    from multiprocessing.pool import ThreadPool
    out = []
    for c in cases:
        out.append(_case(c))
        if sum(1 for o in out if o["fails"]) >= 8:     # enough witnesses; do not wait for hundreds of time-outs
            break
    failures = [dict(case=f"nobj={o['nobj']} partition={o['parts']}", detail="; ".join(o["fails"][:3])) for o in out if o["fails"]]
    samples = [dict(nobj=o["nobj"], partition=o["parts"], tree=o["tree"], messages=o["nmsg"], interleaving_states=o["states"])
               for o in out if o["nontrivial"]][::97][:4]
    chk.bounded("every rank returns the single-process summation tree; no interleaving of its send/recv/collective events "
                "deadlocks under synchronous sends; every receive names its source",
                bound="all ordered partitions of nobj <= 8 summands over ntask <= 4 ranks incl. empty ranks (exhaustive)",
                cases=len(out), nontrivial=sum(1 for o in out if o["nontrivial"]), failures=failures, samples=samples,
                kind="B-shape (exhaustive for the property's quantifier)")
    chk.note(f"interleaving exploration: {sum(o['states'] for o in out)} states, {sum(o['transitions'] for o in out)} transitions in total")
    # zero summands: both variants refuse consistently
    r = []
    for comm in (None,):
        try:
            ut.allreduce_sum([], comm)
            r.append("returned")
        except Exception as e:  # noqa: BLE001
            r.append(type(e).__name__)
    chk.note(f"zero summands, single process: {r[0]}")


def sec_dtypes(chk):
    """the typed message paths (ndarray, Field, MultiField) with floats whose sum depends on the tree"""
    import numpy as np
    import nifty.cl as ift
    import nifty.cl.utilities as ut
    dom = ift.UnstructuredDomain(3)
    base = [1e16, 1.0, -1e16, 3.0, 1e-3, -7.0, 2e16, -2e16]

    def mk_arr(k):
        return np.array([base[k], base[(k + 3) % 8], base[(k + 5) % 8]])
    makers = {
        "ndarray": mk_arr,
        "Field": lambda k: ift.makeField(dom, mk_arr(k)),
        "MultiField": lambda k: ift.MultiField.from_dict({"a": ift.makeField(dom, mk_arr(k)), "b": ift.makeField(dom, -mk_arr(k))}),
        "float": lambda k: base[k],
    }

    def same(a, b):
        if isinstance(a, ift.MultiField):
            return all(np.array_equal(a[k].asnumpy(), b[k].asnumpy()) for k in a.keys())
        if isinstance(a, ift.Field):
            return np.array_equal(a.asnumpy(), b.asnumpy())
        return np.array_equal(np.asarray(a), np.asarray(b))
    failures, ncase, nontriv, samples = [], 0, 0, []
    for name, mk in makers.items():
        for nobj in (3, 5, 8):
            for ntask in (2, 3, 4):
                for parts in list(_partitions(nobj, ntask))[::5]:
                    ncase += 1
                    serial = ut.allreduce_sum([mk(k) for k in range(nobj)], None)
                    res, errs, w, hung = _run_partition(ut.allreduce_sum, parts, mk)
                    f = []
                    if hung or any(e is not None for e in errs):
                        f.append(f"hung={hung} errors={[repr(e) for e in errs if e is not None][:2]}")
                    f += ["contract: " + v for v in w.violations]
                    if not f:
                        for r in range(ntask):
                            if not same(res[r], serial):
                                f.append(f"rank {r}: result differs bitwise from the single-process sum")
                        ok, _, _, wit = _interleavings_deadlock_free(w.traces)
                        if not ok:
                            f.append(f"deadlock under synchronous sends: {wit}")
                    nontriv += sum(1 for c in parts if c) >= 2
                    if f:
                        failures.append(dict(case=f"dtype={name} nobj={nobj} partition={parts}", detail="; ".join(f[:3])))
                        if len(failures) >= 6:
                            break
                    elif len(samples) < 3 and sum(1 for c in parts if c) >= 3:
                        samples.append(dict(dtype=name, nobj=nobj, partition=parts,
                                            events_rank0=[str(e) for e in w.traces[0]][:8]))
    chk.bounded("typed message paths: bit-identical result on every rank and deadlock-free interleavings",
                bound="dtypes float/ndarray/Field/MultiField; nobj in {3,5,8}; ntask in {2,3,4}; every 5th ordered partition",
                cases=ncase, nontrivial=nontriv, failures=failures, samples=samples, kind="B-runtime")


SECTIONS = [sec_pairing, sec_exhaustive, sec_dtypes]
