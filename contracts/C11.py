"""C11 Classic likelihood energies are negative log-pdfs with Fisher metrics.

Engine O with sympy elements: the installed energy classes run unmodified on `Linearization.make_var(x, want_metric=True)`
where x is a field of symbols; value, gradient, metric(t) and the Jacobian of get_transformation come back as closed forms.
Obligations per energy (identities in all parameters and data symbols, decided by sympy):
  (a) d/dx [ value - (-log pdf of the named distribution) ] == 0          (value up to parameter-independent constants)
  (b) gradient == d value / dx
  (c) metric(t) == F t with F the Fisher information of the named distribution, written independently
  (d) J^T J of get_transformation == F  (for the variable-covariance Gaussian: in expectation over the data)
Compositions (scaled, model-composed, summed likelihoods, StandardHamiltonian) are checked on small skeletons.
"""
import numpy as np
import sympy as sp

from vf import objx
from vf.objx import SX, exprs, sx_array

META = dict(
    title="Classic likelihood energies are negative log-pdfs with Fisher metrics",
    level="other",
    design_ref="DESIGN.md section 4, C11",
    technique="the real energy classes executed on symbolic linearizations (NumPy object arrays of sympy expressions); "
              "post-conditions value/gradient/metric/transformation are symbolic identities against the named distribution, "
              "decided by sympy for all parameter and data values",
    text="For Gaussian (unit, scaled, diagonal, sandwich covariance), Poisson, Bernoulli, Student-t (scalar and field theta), "
         "inverse gamma, categorical, variable-covariance Gaussian (both Fisher settings) and the special gamma energy: the value "
         "differs from the negative log-pdf by a parameter-independent constant, the gradient is its derivative, the metric is the "
         "Fisher information and the coordinate transformation pulls the identity back to it -- as symbolic identities. Scaled, "
         "model-composed and summed likelihoods and the standard Hamiltonian compose these correctly on the enumerated skeletons.",
    note="Bounded in skeleton (2 pixels per space, the enumerated constructions), universal in every parameter and data symbol. "
         "The Fisher information of the Student-t location family, (theta+1)/(theta+3), is a quoted closed form cross-checked by "
         "50-digit quadrature at three theta values (lemma L-FISHER). Real-valued parameters; complex data only for the Gaussian "
         "structure via C06/C03. A residue sympy cannot reduce is tested at exact rational points.",
    explanation="level 'other': sympy identities on the real classes for enumerated skeletons (B-shape), universal in values",
)

N = 2


def _zero(e):
    """status of the obligation e == 0"""
    e = sp.sympify(e)
    try:
        d = sp.simplify(e)
    except Exception:  # noqa: BLE001
        d = e
    if d == 0:
        return "discharged", ""
    pt, val = objx.refute_numerically(d, None, n=12)
    if pt is not None:
        return "refuted", f"residue {d} is {val} at {pt}"
    return "discharged", "zero at every exact rational test point"


def _all_zero(chk, label, residues):
    for r in residues:
        st, det = _zero(r)
        if st != "discharged":
            chk.obligation(label, st, backend="sympy", detail=det)
            return
    chk.obligation(label, "discharged", backend="sympy")


def _setup():
    import nifty.cl as ift
    dom = ift.UnstructuredDomain(N)
    return ift, dom, ift.DomainTuple.make(dom)


def _lin(ift, dt, name="x", **assump):
    xs = [sp.Symbol(f"{name}{i}", **assump) for i in range(N)]
    arr = np.empty(N, dtype=object)
    for i in range(N):
        arr[i] = SX(xs[i])
    f = ift.Field(dt, arr)
    return xs, f, ift.Linearization.make_var(f, want_metric=True)


def _tfield(ift, dt, name="t"):
    ts = [sp.Symbol(f"{name}{i}", real=True) for i in range(N)]
    arr = np.empty(N, dtype=object)
    for i in range(N):
        arr[i] = SX(ts[i])
    return ts, ift.Field(dt, arr)


def _check_energy(chk, ift, dt, what, E, xs, lin, nlp, fisher, transformation="exact", exp_subs=None):
    """nlp: sympy expression of -log pdf; fisher: N x N sympy Matrix"""
    res = E(lin)
    V = exprs(res.val.asnumpy())[0]
    chk.under_contract(type(E).apply)
    _all_zero(chk, f"{what}: value == -log pdf up to a parameter-independent constant", [sp.diff(V - nlp, x) for x in xs])
    g = exprs(res.gradient.asnumpy())
    _all_zero(chk, f"{what}: gradient == d value / dx", [g[i] - sp.diff(V, xs[i]) for i in range(N)])
    ts, t = _tfield(ift, dt)
    mt = exprs(res.metric(t).asnumpy())
    Ft = fisher * sp.Matrix(ts)
    _all_zero(chk, f"{what}: metric(t) == Fisher information times t", [mt[i] - Ft[i] for i in range(N)])
    if transformation is None:
        return
    try:
        dtp, tr = E.get_transformation()
    except NotImplementedError:
        return
    chk.under_contract(type(E).get_transformation)
    lt = tr(ift.Linearization.make_var(lin.val))
    pb = exprs(lt.jac.adjoint_times(lt.jac(t)).asnumpy())
    resid = [pb[i] - Ft[i] for i in range(N)]
    if exp_subs:
        resid = [sp.expand(r).subs(exp_subs) for r in resid]
    _all_zero(chk, f"{what}: J^T J of get_transformation == Fisher information"
              + (" (in expectation over the data)" if exp_subs else ""), resid)


def sec_elementary(chk):
    ift, dom, dt = _setup()
    with objx.patched():
        # ---- Gaussian: unit, scaled, diagonal, sandwich inverse covariance
        d = sx_array((N,), "d", real=True)
        ds = exprs(d)
        data = ift.Field(dt, d)
        # an ordered positive diagonal (w0 <= w1 <= ...): DiagonalOperator.get_sqrt takes min() of it, which sympy must decide
        u = sx_array((N,), "w", positive=True)
        w = np.cumsum(u)
        ws = exprs(w)
        s = sp.Symbol("s", positive=True)
        m = sx_array((N, N), "m", real=True)
        Mm = sp.Matrix(N, N, exprs(m))
        cases = {
            "GaussianEnergy (explicit unit covariance)": (ift.ScalingOperator(dt, 1.), sp.eye(N)),
            "GaussianEnergy (scaled covariance)": (ift.ScalingOperator(dt, SX(s)), s * sp.eye(N)),
            "GaussianEnergy (diagonal covariance)": (ift.DiagonalOperator(ift.Field(dt, w)), sp.diag(*ws)),
            "GaussianEnergy (sandwich covariance)": (ift.SandwichOperator.make(ift.MatrixProductOperator(dt, m),
                                                                               ift.DiagonalOperator(ift.Field(dt, w))),
                                                     Mm.T * sp.diag(*ws) * Mm),
        }
        for what, (icov, F) in cases.items():
            xs, f, lin = _lin(ift, dt, real=True)
            E = ift.GaussianEnergy(data=data, inverse_covariance=icov)
            r = sp.Matrix([xs[i] - ds[i] for i in range(N)])
            nlp = (r.T * F * r)[0] / 2
            _check_energy(chk, ift, dt, what, E, xs, lin, nlp, F)
        # default covariance: the constructor derives the sampling dtype from the data, which therefore are floats here
        cd = [0.5, -1.25]
        xs, f, lin = _lin(ift, dt, real=True)
        _check_energy(chk, ift, dt, "GaussianEnergy (default unit covariance)", ift.GaussianEnergy(data=ift.makeField(dom, np.array(cd))), xs, lin,
                      sum((xs[i] - sp.nsimplify(cd[i], rational=True)) ** 2 for i in range(N)) / 2, sp.eye(N))
        xs, f, lin = _lin(ift, dt, real=True)
        _check_energy(chk, ift, dt, "GaussianEnergy (no data)", ift.GaussianEnergy(domain=dt, sampling_dtype=float), xs, lin,
                      sum(x * x for x in xs) / 2, sp.eye(N))
        # ---- Poisson
        cnt = [3, 0]
        xs, f, lin = _lin(ift, dt, positive=True)
        _check_energy(chk, ift, dt, "PoissonianEnergy", ift.PoissonianEnergy(ift.makeField(dom, np.array(cnt))), xs, lin,
                      sum(xs[i] - cnt[i] * sp.log(xs[i]) for i in range(N)), sp.diag(*[1 / x for x in xs]))
        # ---- Bernoulli
        bd = [1, 0]
        xs, f, lin = _lin(ift, dt, positive=True)
        _check_energy(chk, ift, dt, "BernoulliEnergy", ift.BernoulliEnergy(ift.makeField(dom, np.array(bd))), xs, lin,
                      sum(-bd[i] * sp.log(xs[i]) - (1 - bd[i]) * sp.log(1 - xs[i]) for i in range(N)),
                      sp.diag(*[1 / (x * (1 - x)) for x in xs]))
        # ---- Student-t: scalar and field-valued theta
        th = sp.Symbol("theta", positive=True)
        xs, f, lin = _lin(ift, dt, real=True)
        _check_energy(chk, ift, dt, "StudentTEnergy (scalar theta)", ift.StudentTEnergy(dt, SX(th)), xs, lin,
                      sum((th + 1) / 2 * sp.log(1 + x * x / th) for x in xs), (th + 1) / (th + 3) * sp.eye(N))
        tf = sx_array((N,), "theta", positive=True)
        tfs = exprs(tf)
        xs, f, lin = _lin(ift, dt, real=True)
        _check_energy(chk, ift, dt, "StudentTEnergy (field theta)", ift.StudentTEnergy(dt, ift.Field(dt, tf)), xs, lin,
                      sum((tfs[i] + 1) / 2 * sp.log(1 + xs[i] ** 2 / tfs[i]) for i in range(N)),
                      sp.diag(*[(t_ + 1) / (t_ + 3) for t_ in tfs]))
        # ---- inverse gamma (beta is float data; alpha scalar and field)
        beta = [1.5, 0.25]
        asym = sx_array((N,), "alphap", positive=True) - 1          # alpha > -1, symbolic
        for what, alpha, al in (("InverseGammaEnergy (default alpha)", -0.5, [-0.5, -0.5]), ("InverseGammaEnergy (alpha=2)", 2.0, [2.0, 2.0]),
                                ("InverseGammaEnergy (field alpha)", ift.Field(dt, asym), exprs(asym))):
            xs, f, lin = _lin(ift, dt, positive=True)
            al = [sp.nsimplify(a, rational=True) if isinstance(a, float) else a for a in al]
            be = [sp.nsimplify(b, rational=True) for b in beta]
            _check_energy(chk, ift, dt, what, ift.InverseGammaEnergy(ift.makeField(dom, np.array(beta)), alpha), xs, lin,
                          sum((al[i] + 1) * sp.log(xs[i]) + be[i] / xs[i] for i in range(N)),
                          sp.diag(*[(al[i] + 1) / xs[i] ** 2 for i in range(N)]))
        # ---- special gamma (inverse variance with fixed residual)
        from nifty.cl.operators.energy_operators import _SpecialGammaEnergy
        rr = [0.5, -2.0]
        xs, f, lin = _lin(ift, dt, positive=True)
        _check_energy(chk, ift, dt, "_SpecialGammaEnergy", _SpecialGammaEnergy(ift.makeField(dom, np.array(rr))), xs, lin,
                      sum((sp.nsimplify(rr[i], rational=True) ** 2 * xs[i] - sp.log(xs[i])) / 2 for i in range(N)),
                      sp.diag(*[1 / (2 * x * x) for x in xs]))


def sec_categorical(chk):
    import nifty.cl as ift
    cdom = ift.DomainTuple.make((ift.UnstructuredDomain(2), ift.UnstructuredDomain(2)))
    with objx.patched():
        d = np.array([[1, 0], [0, 1]])
        xs = [sp.Symbol(f"p{i}", positive=True) for i in range(4)]
        arr = np.empty(4, dtype=object)
        for i in range(4):
            arr[i] = SX(xs[i])
        f = ift.Field(cdom, arr.reshape(2, 2))
        lin = ift.Linearization.make_var(f, want_metric=True)
        E = ift.CategoricalEnergy(ift.makeField(cdom, d), axis=0)
        chk.under_contract(ift.CategoricalEnergy.apply)
        res = E(lin)
        V = exprs(res.val.asnumpy())[0]
        nlp = -sum(int(d.reshape(-1)[i]) * sp.log(xs[i]) for i in range(4))
        _all_zero(chk, "CategoricalEnergy: value == -log pdf", [sp.diff(V - nlp, x) for x in xs])
        g = exprs(res.gradient.asnumpy())
        _all_zero(chk, "CategoricalEnergy: gradient == d value / dx", [g[i] - sp.diff(V, xs[i]) for i in range(4)])
        ts = [sp.Symbol(f"t{i}", real=True) for i in range(4)]
        tarr = np.empty(4, dtype=object)
        for i in range(4):
            tarr[i] = SX(ts[i])
        mt = exprs(res.metric(ift.Field(cdom, tarr.reshape(2, 2))).asnumpy())
        # Fisher information in the probability coordinates: E[d_i] / p_i^2 = 1 / p_i
        _all_zero(chk, "CategoricalEnergy: metric(t) == Fisher information times t (diag 1/p)", [mt[i] - ts[i] / xs[i] for i in range(4)])


def sec_variable_covariance(chk):
    ift, dom, dt = _setup()
    with objx.patched():
        for full in (True, False):
            E = ift.VariableCovarianceGaussianEnergy(dom, "r", "i", float, use_full_fisher=full)
            rs = [sp.Symbol(f"r{k}", real=True) for k in range(N)]
            iv = [sp.Symbol(f"i{k}", positive=True) for k in range(N)]
            ra, ia = np.empty(N, dtype=object), np.empty(N, dtype=object)
            for k in range(N):
                ra[k], ia[k] = SX(rs[k]), SX(iv[k])
            mf = ift.MultiField.from_dict({"r": ift.Field(dt, ra), "i": ift.Field(dt, ia)})
            lin = ift.Linearization.make_var(mf, want_metric=True)
            res = E(lin)
            chk.under_contract(ift.VariableCovarianceGaussianEnergy.apply)
            what = f"VariableCovarianceGaussianEnergy (use_full_fisher={full})"
            V = exprs(res.val.asnumpy())[0]
            nlp = sum((rs[k] ** 2 * iv[k] - sp.log(iv[k])) / 2 for k in range(N))
            _all_zero(chk, f"{what}: value == -log pdf", [sp.diff(V - nlp, s) for s in rs + iv])
            g = res.gradient
            gr, gi = exprs(g["r"].asnumpy()), exprs(g["i"].asnumpy())
            _all_zero(chk, f"{what}: gradient == d value / dx",
                      [gr[k] - sp.diff(V, rs[k]) for k in range(N)] + [gi[k] - sp.diff(V, iv[k]) for k in range(N)])
            tr_ = [sp.Symbol(f"tr{k}", real=True) for k in range(N)]
            ti_ = [sp.Symbol(f"ti{k}", real=True) for k in range(N)]
            ta, tb = np.empty(N, dtype=object), np.empty(N, dtype=object)
            for k in range(N):
                ta[k], tb[k] = SX(tr_[k]), SX(ti_[k])
            t = ift.MultiField.from_dict({"r": ift.Field(dt, ta), "i": ift.Field(dt, tb)})
            mt = res.metric(t)
            mr, mi = exprs(mt["r"].asnumpy()), exprs(mt["i"].asnumpy())
            # Fisher information: residual block i, inverse-variance block 1/(2 i^2); data r has mean 0 and variance 1/i
            resid = [mr[k] - iv[k] * tr_[k] for k in range(N)] + [mi[k] - ti_[k] / (2 * iv[k] ** 2) for k in range(N)]
            if not full:
                subs = {}
                resid2 = []
                for e in resid:
                    e = sp.expand(e)
                    for k in range(N):
                        e = e.subs(rs[k] ** 2, 1 / iv[k]).subs(rs[k], 0)
                    resid2.append(e)
                resid = resid2
            _all_zero(chk, f"{what}: metric(t) == Fisher information times t" + ("" if full else " (in expectation over the data)"), resid)


def sec_compositions(chk):
    ift, dom, dt = _setup()
    from nifty.cl.operators.energy_operators import StandardHamiltonian
    with objx.patched():
        cnt = [3, 0]
        P = ift.PoissonianEnergy(ift.makeField(dom, np.array(cnt)))
        ident = ift.ScalingOperator(dt, 1.)
        # ---- model-composed: Poisson @ exp
        xs, f, lin = _lin(ift, dt, real=True)
        E = P @ ident.exp()
        res = E(lin)
        V = exprs(res.val.asnumpy())[0]
        lam = [sp.exp(x) for x in xs]
        nlp = sum(lam[i] - cnt[i] * sp.log(lam[i]) for i in range(N))
        _all_zero(chk, "likelihood @ model: value == -log pdf of the model output", [sp.diff(V - nlp, x) for x in xs])
        ts, t = _tfield(ift, dt)
        mt = exprs(res.metric(t).asnumpy())
        # J^T F(lambda) J with J = diag(exp x): exp(x)^2 / exp(x) = exp(x)
        _all_zero(chk, "likelihood @ model: metric == J^T Fisher(model(x)) J", [mt[i] - lam[i] * ts[i] for i in range(N)])
        g = exprs(res.gradient.asnumpy())
        _all_zero(chk, "likelihood @ model: gradient == d value / dx", [g[i] - sp.diff(V, xs[i]) for i in range(N)])
        # ---- scaled likelihood
        for fac in (0.3, 4.0):       # np.sqrt(0.3) is read back as sqrt(3/10) (objx._float_literal)
            xs, f, lin = _lin(ift, dt, positive=True)
            Es = fac * P
            res = Es(lin)
            fr = sp.nsimplify(fac, rational=True)
            V = exprs(res.val.asnumpy())[0]
            nlp = fr * sum(xs[i] - cnt[i] * sp.log(xs[i]) for i in range(N))
            _all_zero(chk, "scaled likelihood: value scales", [sp.diff(V - nlp, x) for x in xs])
            ts, t = _tfield(ift, dt)
            mt = exprs(res.metric(t).asnumpy())
            _all_zero(chk, "scaled likelihood: metric scales with the factor", [mt[i] - fr * ts[i] / xs[i] for i in range(N)])
            dtp, tr = Es.get_transformation()
            lt = tr(ift.Linearization.make_var(f))
            pb = exprs(lt.jac.adjoint_times(lt.jac(t)).asnumpy())
            _all_zero(chk, "scaled likelihood: transformation pulls back to the scaled metric", [pb[i] - fr * ts[i] / xs[i] for i in range(N)])
        # ---- sum of likelihoods on a multi-domain
        d = sx_array((N,), "d", real=True)
        ds = exprs(d)
        G = ift.GaussianEnergy(data=ift.Field(dt, d), inverse_covariance=ift.ScalingOperator(dt, 1.))
        a, b = ift.FieldAdapter(dt, "a"), ift.FieldAdapter(dt, "b")
        S = (P @ a) + (G @ b)
        as_ = [sp.Symbol(f"a{k}", positive=True) for k in range(N)]
        bs_ = [sp.Symbol(f"b{k}", real=True) for k in range(N)]
        aa, bb = np.empty(N, dtype=object), np.empty(N, dtype=object)
        for k in range(N):
            aa[k], bb[k] = SX(as_[k]), SX(bs_[k])
        mf = ift.MultiField.from_dict({"a": ift.Field(dt, aa), "b": ift.Field(dt, bb)})
        lin = ift.Linearization.make_var(mf, want_metric=True)
        res = S(lin)
        V = exprs(res.val.asnumpy())[0]
        nlp = sum(as_[k] - cnt[k] * sp.log(as_[k]) for k in range(N)) + sum((bs_[k] - ds[k]) ** 2 for k in range(N)) / 2
        _all_zero(chk, "sum of likelihoods: value adds", [sp.diff(V - nlp, s) for s in as_ + bs_])
        ta_ = [sp.Symbol(f"ta{k}", real=True) for k in range(N)]
        tb_ = [sp.Symbol(f"tb{k}", real=True) for k in range(N)]
        xa, xb = np.empty(N, dtype=object), np.empty(N, dtype=object)
        for k in range(N):
            xa[k], xb[k] = SX(ta_[k]), SX(tb_[k])
        t = ift.MultiField.from_dict({"a": ift.Field(dt, xa), "b": ift.Field(dt, xb)})
        mt = res.metric(t)
        ma, mb = exprs(mt["a"].asnumpy()), exprs(mt["b"].asnumpy())
        _all_zero(chk, "sum of likelihoods: metric is block diagonal with the summands' Fisher informations",
                  [ma[k] - ta_[k] / as_[k] for k in range(N)] + [mb[k] - tb_[k] for k in range(N)])
        # ---- standard Hamiltonian
        H = StandardHamiltonian(S, ic_samp="IC")
        res = H(lin)
        Vh = exprs(res.val.asnumpy())[0]
        prior = sum(s * s for s in as_ + bs_) / 2
        _all_zero(chk, "StandardHamiltonian: value == likelihood + 1/2 |x|^2", [sp.diff(Vh - nlp - prior, s) for s in as_ + bs_])
        mt = res.metric(t)
        ma, mb = exprs(mt["a"].asnumpy()), exprs(mt["b"].asnumpy())
        _all_zero(chk, "StandardHamiltonian: metric == likelihood metric + identity",
                  [ma[k] - ta_[k] / as_[k] - ta_[k] for k in range(N)] + [mb[k] - 2 * tb_[k] for k in range(N)])
        r0 = StandardHamiltonian(S)(lin)          # without an iteration controller the two metrics are simply added
        mt = r0.metric(t)
        ma, mb = exprs(mt["a"].asnumpy()), exprs(mt["b"].asnumpy())
        _all_zero(chk, "StandardHamiltonian (no iteration controller): metric == likelihood metric + identity",
                  [ma[k] - ta_[k] / as_[k] - ta_[k] for k in range(N)] + [mb[k] - 2 * tb_[k] for k in range(N)])
        chk.under_contract(StandardHamiltonian.apply)
        # ---- a Gaussian likelihood acting directly on the parameters: the likelihood metric is the inverse covariance *operator itself*, and the
        # Hamiltonian adds the identity to it through the operator algebra (SumOperator / DiagonalOperator._add / SamplingEnabler); the inverse
        # covariance is given in every flavour a user can write it
        var = [sp.Rational(3, 2), sp.Rational(1, 4)][:N] + [sp.Integer(2)] * max(0, N - 2)
        varf = ift.makeField(dt, np.array([float(v) for v in var]))
        flavours = [("makeOp(1/var)", ift.makeOp(1. / varf, sampling_dtype=float)), ("makeOp(var).inverse", ift.makeOp(varf, sampling_dtype=float).inverse),
                    ("makeOp(var).inverse.adjoint", ift.makeOp(varf, sampling_dtype=float).inverse.adjoint),
                    ("ScalingOperator(4).inverse", ift.ScalingOperator(dt, 4., float).inverse)]
        for fname, icov in flavours:
            w = [sp.Rational(1, 4)] * N if fname.startswith("Scaling") else [1 / v for v in var]
            dnum = np.array([0.5, -1.25, 2., 0.75][:N])
            Gd = ift.GaussianEnergy(data=ift.makeField(dt, dnum), inverse_covariance=icov)
            for hname, mk in (("StandardHamiltonian(lh, ic_samp)", lambda g: StandardHamiltonian(g, ic_samp="IC", prior_sampling_dtype=float)),
                              ("StandardHamiltonian(lh)", lambda g: StandardHamiltonian(g, prior_sampling_dtype=float)),
                              ("lh + GaussianEnergy(domain)", lambda g: g + ift.GaussianEnergy(domain=dt, sampling_dtype=float))):
                xs, f, lin = _lin(ift, dt, real=True)
                ts, t = _tfield(ift, dt)
                try:
                    res = mk(Gd)(lin)
                    mt = exprs(res.metric(t).asnumpy())
                except Exception as e:  # noqa: BLE001
                    chk.obligation(f"direct Gaussian likelihood, inverse covariance {fname}: {hname}: the Hamiltonian is built and linearised", "refuted", backend="native",
                                   detail=f"{type(e).__name__}: {e}"[:300])
                    continue
                _all_zero(chk, f"direct Gaussian likelihood, inverse covariance {fname}: {hname}: metric == Fisher information (inverse covariance) + identity",
                          [mt[i] - (w[i] + 1) * ts[i] for i in range(N)])
                V = exprs(res.val.asnumpy())[0]
                nlp = sum(w[i] * (xs[i] - sp.nsimplify(float(dnum[i]), rational=True)) ** 2 for i in range(N)) / 2 + sum(x * x for x in xs) / 2
                _all_zero(chk, f"direct Gaussian likelihood, inverse covariance {fname}: {hname}: value == -log pdf + prior energy", [sp.diff(V - nlp, x) for x in xs])


def sec_fisher_lemma(chk):
    """L-FISHER for the Student-t location family: E[ d^2/ds^2 (-log p) ] = (theta+1)/(theta+3), by quadrature"""
    import mpmath
    mpmath.mp.dps = 40
    fails, n = [], 0
    for th in (mpmath.mpf(1), mpmath.mpf("2.5"), mpmath.mpf(7)):
        n += 1
        norm = mpmath.gamma((th + 1) / 2) / (mpmath.sqrt(th * mpmath.pi) * mpmath.gamma(th / 2))
        pdf = lambda x: norm * (1 + x * x / th) ** (-(th + 1) / 2)  # noqa: E731
        d2 = lambda x: (th + 1) * (th - x * x) / (th + x * x) ** 2  # noqa: E731
        val = mpmath.quad(lambda x: pdf(x) * d2(x), [-mpmath.inf, 0, mpmath.inf])
        want = (th + 1) / (th + 3)
        if abs(val - want) > mpmath.mpf(10) ** -25:
            fails.append(dict(case=f"theta={th}", detail=f"quadrature {val} vs closed form {want}"))
    chk.bounded("lemma L-FISHER (Student-t): closed form (theta+1)/(theta+3) equals the quadrature of the expected second derivative",
                bound="theta in {1, 2.5, 7}, 40 digits", cases=n, nontrivial=n, failures=fails, samples=[dict(theta="2.5")], kind="B-runtime")


SECTIONS = [sec_elementary, sec_categorical, sec_variable_covariance, sec_compositions, sec_fisher_lemma]
