"""C25 The classic VI driver resumes after a crash with identical results.

Under contract: cl/minimization/optimize_kl.py: optimize_kl with its persistence helpers (_file_name_by_strategy,
_pickle_save_values/_load_values, _save/_load_random_state, _minisanity's history files, _report_to_logger_and_file)
and cl/minimization/sample_list.py: ResidualSampleList/SampleList.save/load, _save_to_disk,
_ensure_proper_sample_list_ending, _list_local_sample_files.  Both module sources are re-executed (current tree) in
name spaces where open/pickle/os/pathlib are the ghost file system (vf/ghostfs.py), the random module is a ghost RNG
stack and everything numerical is a deterministic token function (the KL result of an iteration is a function of the
previous mean AND of the seed sequence on top of the RNG stack).

For every save strategy and every micro-step k of the uninterrupted run (bounded: 3 iterations, 2 samples): the
process dies at k; optimize_kl(resume=True) is run on the crashed file system; it must not raise and must return the
sample list and mean of the uninterrupted run.  A second section checks that the seed sequence used in iteration i
does not depend on where the run was resumed (fresh_stochasticity chains).
"""
import inspect
import itertools

from vf.ghostfs import Crash, GhostFS

META = dict(
    title="The classic VI driver resumes after a crash with identical results",
    level="other",
    design_ref="DESIGN.md section 4, C25",
    technique="contract 'resume == uninterrupted run' checked over the ghost file system: the re-executed real driver and "
              "sample-list persistence code, a crash fork after every micro-step (fault enumeration over a bounded run), "
              "deterministic token semantics for the numerics",
    text="Every file-system micro-step (truncate, partial write/dump, write/dump, close, remove, unlink) of a 3-iteration run "
         "with 2 samples is a crash point, for save strategies 'all' and 'latest', sampled and zero-sample iterations; after "
         "each crash the real driver is run again with resume=True on the crashed ghost file system and must return the "
         "uninterrupted result. Crash windows in which the current tree cannot resume or resumes silently wrong are listed "
         "as known findings.",
    note="Bounded: 3 iterations, 2 (mirrored: 4) samples, single task, no plots/exports. Numerics are deterministic tokens "
         "(assumed: minimisation and sampling are deterministic functions of the mean and of the RNG stack). A-PICKLE; a torn "
         "pickle raises on load; directory creation and durability ordering of a real file system are not modelled.",
    explanation="level 'other': fault enumeration of a bounded run of the real persistence code over a ghost file system with "
                "an exact oracle (the uninterrupted result); not an unbounded proof",
)


class Tok(tuple):
    """deterministic token standing for a field / multi-field"""

    def __new__(cls, *a):
        return super().__new__(cls, a)

    domain = "MDOM"
    dtype = "float64"

    def extract(self, dom):
        return self

    def at(self, device_id):
        return self

    def unite(self, o):
        return Tok("unite", self, o)


class SS(tuple):
    """ghost SeedSequence: a token; SeedSequence(ss.entropy, spawn_key=ss.spawn_key, pool_size=ss.pool_size) is the same stream"""

    @property
    def entropy(self):
        return self

    spawn_key = pool_size = None


class GhostRNG:
    def __init__(self):
        self.stack = [("root",)]
        self.spawned = 0

    def getState(self):
        return ("rngstate", tuple(self.stack), self.spawned)

    def setState(self, st):
        if not (isinstance(st, tuple) and st and st[0] == "rngstate"):
            raise EOFError("cannot unpickle random state")
        self.stack, self.spawned = list(st[1]), st[2]

    def spawn_sseq(self, n, parent=None):
        out = [SS(("child", self.stack[-1], self.spawned + j)) for j in range(n)]
        self.spawned += n
        return out

    def push_sseq(self, s):
        self.stack.append(s)

    def pop_sseq(self):
        self.stack.pop()


class _SeedSeq:
    """np.random.SeedSequence(entropy, spawn_key=..., pool_size=...) of an existing one: the same stream"""

    def __new__(cls, entropy=None, spawn_key=None, pool_size=None):
        return entropy


class World:
    """one process: ghost FS + ghost RNG + re-executed modules"""

    def __init__(self, files=None, crash_at=None):
        import nifty.cl.minimization.optimize_kl as okl_real
        import nifty.cl.minimization.sample_list as sl_real
        self.fs = GhostFS(files, crash_at)
        self.rng = GhostRNG()
        rb = self.fs.rebind()
        w = self
        # ---- sample_list module
        ns_sl = {"__name__": sl_real.__name__ + "(verif)", "__package__": sl_real.__package__, "__file__": sl_real.__file__}
        exec(compile(inspect.getsource(sl_real), sl_real.__file__, "exec"), ns_sl)
        ns_sl.update(open=rb["open"], pickle=rb["pickle"], os=rb["os"], pathlib=rb["pathlib"])

        class RSL(ns_sl["ResidualSampleList"]):
            def __init__(self, mean, residuals, neg, comm=None):
                self._m, self._r, self._n, self._comm = mean, tuple(residuals), tuple(neg), comm
                self.local_indices = range(len(self._r))
                self._n_samples = len(self._r)
                self._domain = "MDOM"

            def key(self):
                return ("RSL", self._m, self._r, self._n)

            def at(self, mean):
                return RSL(mean, self._r, self._n)

        class SL(ns_sl["SampleList"]):
            def __init__(self, samples, comm=None, domain=None):
                self._s, self._comm = list(samples), comm
                self.local_indices = range(len(self._s))
                self._n_samples = len(self._s)
                self._domain = "MDOM"

            def key(self):
                return ("SL", tuple(self._s))
        self.RSL, self.SL = RSL, SL
        # ---- optimize_kl module
        ns = {"__name__": okl_real.__name__ + "(verif)", "__package__": okl_real.__package__, "__file__": okl_real.__file__}
        exec(compile(inspect.getsource(okl_real), okl_real.__file__, "exec"), ns)

        class _NP:
            class random:
                SeedSequence = _SeedSeq

        class LHDomain:
            pass

        class LH:
            from nifty.cl.domain_tuple import DomainTuple as _DT
            target = _DT.scalar_domain()
            domain = LHDomain()

            def __matmul__(self, o):
                return self

        class Energy:
            """KL energy of iteration i: a deterministic function of the mean and of the current seed sequence"""

            def __init__(self, i, mean, sampled):
                self.i, self.mean, self.sampled = i, mean, sampled
                self.seed = w.rng.stack[-1]
                self.position = Tok("pos", i, mean, self.seed)
                self.value = float(i) + 0.5

            @property
            def samples(self):
                return RSL(self.position, [Tok("res", self.i, j, self.seed) for j in range(2)], [False, True])

        class Hist(list):
            pass
        self.iter_box = {}

        def skl(mean_iter, ham, n, nlm, **kw):
            return Energy(w.iter_box["i"], mean_iter, True)

        def ea(mean_iter, ham, **kw):
            return Energy(w.iter_box["i"], mean_iter, False)

        def likelihood(i):
            w.iter_box["i"] = i
            return LH()

        class MF:
            @staticmethod
            def union(lst):
                return Tok("union", *lst)
        self.likelihood = likelihood
        ns.update(open=rb["open"], pickle=rb["pickle"], makedirs=rb["makedirs"], replace=rb["os"].replace, isfile=rb["isfile"], isdir=rb["isdir"],
                  np=_NP, push_sseq=self.rng.push_sseq, pop_sseq=self.rng.pop_sseq, spawn_sseq=self.rng.spawn_sseq,
                  MultiDomain=LHDomain, MultiField=MF, CountingOperator=lambda d: _Count(), StandardHamiltonian=lambda *a, **k: "HAM",
                  EnergyAdapter=ea, SampledKLEnergy=skl, SampleList=SL, ResidualSampleList=RSL, EnergyHistory=Hist,
                  check_MPI_synced_random_state=lambda c: None, check_MPI_equality=lambda *a, **k: None,
                  _barrier=lambda c: None, _normal_initialize=lambda mf, dom, **k: mf, _want_metric=lambda m: True,
                  _single_value_sample_list=lambda fld, comm: SL([fld]), _plot_energy_history=lambda *a: None,
                  _plot_minisanity_history=lambda *a: None, warn=lambda *a, **k: None,
                  _export_operators=lambda *a: None)     # nothing is exported (export_operator_outputs is empty)
        self.ns = ns

    def run(self, resume, strategy, n_samples, n_it=3, fresh=None, initial_mean=Tok("mean0")):
        """calls the re-executed real optimize_kl; returns (sample-list key, mean)"""
        import nifty.cl.extra as extra
        import nifty.cl.random as rnd
        from nifty.cl.logger import logger as _logger
        old = (extra.minisanity, rnd.getState, rnd.setState)
        extra.minisanity = lambda *a, **k: ("report", {"redchisq": {"data_residuals": {"d": {"mean": 1.0, "std": 0.0}},
                                                                    "latent_variables": {"x": {"mean": 1.0, "std": 0.0}}},
                                                       "scmean": {"data_residuals": {"d": {"mean": 0.0, "std": 0.0}},
                                                                  "latent_variables": {"x": {"mean": 0.0, "std": 0.0}}}})
        rnd.getState, rnd.setState = self.rng.getState, self.rng.setState
        lvl = _logger.level
        _logger.setLevel(100)
        try:
            kw = dict(output_directory="OUT", resume=resume, save_strategy=strategy, initial_position=initial_mean,
                      plot_energy_history=False, plot_minisanity_history=False, sanity_checks=False,
                      return_final_position=True)
            if fresh is not None:
                kw["fresh_stochasticity"] = fresh
            mini = lambda e: (e, 0)  # noqa: E731  -- the 'minimised' energy is the deterministic token energy itself
            sl, mean = self.ns["optimize_kl"](self.likelihood, n_it, n_samples, lambda i: mini, lambda i: "IC", **kw)
            return sl.key(), mean
        finally:
            extra.minisanity, rnd.getState, rnd.setState = old
            _logger.setLevel(lvl)


class _Count:
    def report(self):
        return "count"


def _window(step):
    """classify a micro-step by the file it touches (the identity of a known finding)"""
    import re
    s = step
    s = re.sub(r"iteration_\d+", "iteration_K", s)
    s = re.sub(r"\.\d+\.pickle", ".J.pickle", s)
    return s


def _enumerate(chk, strategy, n_samples):
    ref_w = World()
    ref = ref_w.run(False, strategy, n_samples)
    nsteps = ref_w.fs.steps
    log = list(ref_w.fs.log)
    fails, samples, nontriv = [], [], 0
    seen_windows = {}
    for k in range(1, nsteps + 1):
        w = World(crash_at=k)
        try:
            w.run(False, strategy, n_samples)
            raise RuntimeError(f"no crash at step {k}")
        except Crash as c:
            where = str(c)
        w2 = World(files=w.fs.snapshot())
        nontriv += 1
        try:
            got = w2.run(True, strategy, n_samples)
            verdict = "ok" if got == ref else "silently wrong: resumed result differs from the uninterrupted run"
        except Exception as e:  # noqa: BLE001
            verdict = f"resume raises {type(e).__name__}: {str(e)[:80]}"
        # which iteration was running?
        done = sum(1 for s in log[:k] if s.startswith("close last_finished_iteration"))
        if verdict != "ok":
            win = f"{_window(where)} -> {verdict.split(':')[0]}"
            if win not in seen_windows:
                seen_windows[win] = 0
                fails.append(dict(case=f"save_strategy={strategy} n_samples={n_samples}; crash at '{_window(where)}'",
                                  detail=f"{verdict} (first at micro-step {k} of {nsteps}, {done} iteration(s) marked finished)"))
            seen_windows[win] += 1
        elif len(samples) < 3:
            samples.append(dict(strategy=strategy, n_samples=n_samples, crash_at=k, step=where, resume="identical"))
    chk.note(f"strategy={strategy} n_samples={n_samples}: {nsteps} micro-steps; failing windows: "
             + "; ".join(f"{w} x{n}" for w, n in seen_windows.items()))
    return nsteps, nontriv, fails, samples, log


def _sec(chk, strategy, n_samples):
    import nifty.cl.minimization.optimize_kl as okl
    import nifty.cl.minimization.sample_list as sl
    for f in (okl.optimize_kl, okl._pickle_save_values, okl._pickle_load_values, okl._save_random_state, okl._load_random_state,
              okl._file_name_by_strategy, okl._minisanity, okl._report_to_logger_and_file, sl.ResidualSampleList.save,
              sl.ResidualSampleList.load, sl.SampleList.save, sl.SampleList.load, sl._save_to_disk, sl._load_from_disk,
              sl._ensure_proper_sample_list_ending, sl.SampleListBase._list_local_sample_files):
        chk.under_contract(f)
    chk.assume("numerics are deterministic functions of (mean, seed sequence on top of the RNG stack) -- token semantics")
    chk.assume("A-PICKLE: load(dump(x)) == x; a torn pickle raises on load; a truncated text file reads as its prefix")
    nsteps, nontriv, fails, samples, log = _enumerate(chk, strategy, n_samples)
    chk.bounded(f"resume after a crash at any micro-step returns the uninterrupted sample list and mean "
                f"(save_strategy={strategy}, {'sampled' if n_samples else 'zero-sample'} iterations)",
                bound="3 iterations, 2 residuals (mirrored), single task; every micro-step of the ghost file system is a crash point",
                cases=nsteps, nontrivial=nontriv, failures=fails, samples=samples, kind="B-fault-enumeration")


def sec_all_sampled(chk):
    _sec(chk, "all", 2)


def sec_latest_sampled(chk):
    _sec(chk, "latest", 2)


def sec_all_map(chk):
    _sec(chk, "all", 0)


def sec_latest_map(chk):
    _sec(chk, "latest", 0)


def sec_seed_chain(chk):
    """the seed sequence of iteration i is S(i) = spawn[i] if fresh(i) else S(i-1), wherever the run was resumed"""
    fails, n, samples = [], 0, []
    n_it = 5
    for pattern in itertools.product([True, False], repeat=n_it - 1):
        fresh_tab = (True,) + pattern
        fresh = lambda i, t=fresh_tab: t[i]  # noqa: E731
        ref_w = World()
        ref = ref_w.run(False, "all", 2, n_it=n_it, fresh=fresh)
        # kill between complete iterations: replay the run up to the end of iteration k, then resume
        # an iteration is complete when its commit marker has been written (current layout: replaced atomically;
        # older layout: the marker file was closed)
        marks = [j for j, s in enumerate(ref_w.fs.log)
                 if s.startswith("replace last_finished_iteration") or s == "close last_finished_iteration"]
        if len(marks) < n_it:
            raise RuntimeError("cannot locate the end of the iterations in the micro-step log")
        for kill_after in range(n_it - 1):
            n += 1
            crash_step = marks[kill_after] + 2      # the first micro-step after iteration kill_after was committed
            w = World(crash_at=crash_step)
            try:
                w.run(False, "all", 2, n_it=n_it, fresh=fresh)
                continue
            except Crash:
                pass
            w2 = World(files=w.fs.snapshot())
            try:
                got = w2.run(True, "all", 2, n_it=n_it, fresh=fresh)
                ok = got == ref
                detail = "resumed result differs from the uninterrupted run (a later iteration used another seed sequence)"
            except Exception as e:  # noqa: BLE001
                ok, detail = False, f"resume raises {type(e).__name__}: {e}"
            if not ok:
                fails.append(dict(case=f"fresh_stochasticity={fresh_tab}, killed after iteration {kill_after} finished", detail=detail))
            elif len(samples) < 2:
                samples.append(dict(fresh=fresh_tab, killed_after=kill_after, resume="identical"))
    chk.bounded("a run killed between two complete iterations and resumed uses the same seed sequences as the uninterrupted run "
                "for every fresh_stochasticity pattern", bound="5 iterations, all 16 patterns, every kill point between iterations",
                cases=n, nontrivial=n, failures=fails, samples=samples, kind="B-fault-enumeration")


SECTIONS = [sec_all_sampled, sec_latest_sampled, sec_all_map, sec_latest_map, sec_seed_chain]
