"""C24 The JAX VI driver resumes after a crash with identical results.

Function under contract: nifty.re.optimize_kl.optimize_kl (re-compiled, main loop cut).  OptimizeVI.update is
its contract: a deterministic function of (samples, state) (key discipline: C21); open/pickle/os are the ghost
file system of vf/ghostfs.py with a crash point after every micro-step.

Inductive formulation (any number of iterations): the trajectory of the uninterrupted run is T(0), T(1), ...;
  invariant at the head of iteration i:  last.pkl is absent (i == 0, fresh directory) or holds T(i) completely;
  crash obligation: after a crash at any micro-step of iteration i, calling the same function with resume=True
  does not raise and enters its loop in state T(i) or T(i+1) with the configuration restored -- from there it is
  the uninterrupted run (determinism), hence finishes with the same samples and state.
"""
import sys

import z3

from vf import symx
from vf.ghostfs import Crash, GhostFS
from vf.symx import Ctx, SymBool, SymInt, fresh_int, sor

META = dict(
    title="The JAX VI driver resumes after a crash with identical results",
    level="proof",
    design_ref="DESIGN.md section 4, C24",
    technique="deductive verification over a ghost file system: loop invariant on the re-compiled driver, a crash fork "
              "after every micro-step of an iteration, resume obligation 're-enters the uninterrupted trajectory'; z3 for "
              "the symbolic iteration index; native crash replay with a killed write",
    text="For every iteration count and every iteration index: whatever micro-step (truncate, partial dump, dump, close, "
         "replace, partial write, write) the process dies at, a restart with resume=True loads a complete state, does not "
         "raise and continues from T(i) or T(i+1) with the configuration restored, i.e. finishes as the uninterrupted run.",
    note="OptimizeVI.update is a deterministic function of (samples incl. keys, state) -- assumed here, its key discipline "
         "is C21. A-PICKLE: load(dump(x)) == x, a torn file raises on load; os.replace is atomic; a fresh output directory "
         "is assumed (a stale last.pkl of an earlier run in the same directory is outside the claim). Directory creation, "
         "fsync/durability ordering of the real file system are not modelled.",
)

T_ = SymBool(z3.BoolVal(True))
F_ = SymBool(z3.BoolVal(False))
CFG = {"cfg": "CONFIG"}


def _b(x):
    return x if isinstance(x, SymBool) else SymBool(z3.BoolVal(bool(x)))


class Tok:
    """component of a trajectory state, identified by kind and iteration index"""

    def __init__(self, kind, i):
        self.kind, self.i = kind, i

    def same(self, o):
        if not isinstance(o, Tok) or o.kind != self.kind:
            return F_
        return _b(self.i == o.i)

    def __repr__(self):
        return f"{self.kind}[{self.i}]"


class _Captured(BaseException):
    pass


class _Log:
    def info(self, *a, **k):
        pass

    warning = error = debug = info


def _traj(okl, i):
    """T(i): the (samples, state) of the uninterrupted run after i iterations"""
    if isinstance(i, int) and i == 0:       # the start: a position, no samples yet
        s = okl.Samples(pos=Tok("pos", 0), samples=None, keys=None)
    else:
        s = okl.Samples(pos=Tok("pos", i), samples=Tok("smpl", i), keys=Tok("keys", i))
    st = okl.OptimizeVIState(nit=i, key=Tok("key", i), sample_state=Tok("sst", i), minimization_state=Tok("mst", i), config=CFG)
    return s, st


def _same_state(okl, samples, st, i, need_cfg=True):
    ts, tst = _traj(okl, i)
    ok = _b(isinstance(samples, okl.Samples)) & _b(isinstance(st, okl.OptimizeVIState))
    if not (isinstance(samples, okl.Samples) and isinstance(st, okl.OptimizeVIState)):
        return F_
    parts = []
    for a, b in ((samples._pos, ts._pos), (samples._samples, ts._samples), (samples._keys, ts._keys), (st.key, tst.key),
                 (st.sample_state, tst.sample_state), (st.minimization_state, tst.minimization_state)):
        parts.append(T_ if (a is None and b is None) else (a.same(b) if isinstance(a, Tok) else F_))
    parts.append(_b(st.nit == i))
    if need_cfg:
        parts.append(_b(st.config == CFG))
    return ok & symx.sand(*parts)


class OptVI:
    """contract of OptimizeVI: deterministic update along the trajectory"""

    def __init__(self, okl, n_total):
        self.okl, self.n_total_iterations = okl, n_total

    def init_state(self, key, **kw):
        return self.okl.OptimizeVIState(nit=0, key=Tok("key", 0), sample_state=Tok("sst", 0),
                                        minimization_state=Tok("mst", 0), config=CFG)

    def update(self, samples, st):
        i = st.nit
        ok = _same_state(self.okl, samples, st, i)
        Ctx.cur.prove(ok, "update is called with a complete trajectory state T(i) (all fields incl. sample keys and configuration)")
        return _traj(self.okl, i + 1)

    def get_status_message(self, samples, st, name=""):
        return "status"


def _okl():
    import nifty.re  # noqa: F401
    return sys.modules["nifty.re.optimize_kl"]


def _extract(okl, fs, vc, cut=True):
    rb = dict(fs.rebind())
    rb["logger"] = _Log()
    loops = None
    if cut:
        loops = {0: dict(entry="__vc.entry(locals())", havoc="samples, opt_vi_st, __it0 = __vc.havoc(locals())",
                         inv="__vc.tail(locals())")}
    return symx.extract(okl.optimize_kl, loops=loops, rebind=rb, vc=vc)


def sec_crash_points(chk):
    okl = _okl()
    chk.stub("OptimizeVI.update: deterministic function of (samples, state): T(i) -> T(i+1) (ASSUMED; key discipline in C21)")
    chk.assume("A-PICKLE: load(dump(x)) == x; loading a partially written pickle raises; os.replace is atomic")
    chk.assume("fresh output directory (no last.pkl of an earlier run)")
    chk.lemma("determinism: two runs that enter the loop with equal (samples, state, configuration) finish equal")
    ODIR = "out"
    LAST = "out/last.pkl"

    class V(symx.VC):
        mode = "run"

        def entry(self, L):
            if self.mode == "resume":
                self.captured = (L["samples"], L["opt_vi_st"])
                raise _Captured()
            fs = self.fs
            return _b(LAST not in fs.files) & _same_state(okl, L["samples"], L["opt_vi_st"], 0)

        def havoc(self, L):
            i = fresh_int("i")
            Ctx.cur.assume((i >= 0) & (i <= L["__hi0"]))
            fs = self.fs
            fs.files.pop(LAST, None)
            if i == 0:
                i = 0                                    # fresh directory: nothing written yet
            else:
                s, st = _traj(okl, i)
                fs.files[LAST] = ("complete", (s, st._replace(config={})))
            fs.steps = 0
            fs.log = []
            fs.crash_at = self.crash_at
            self.i = i
            s, st = _traj(okl, i)
            return s, st, i

        def tail(self, L):
            fs = self.fs
            i1 = self.i + 1
            st, c = fs.files.get(LAST, ("absent", None))
            ok = _b(st == "complete")
            if st == "complete":
                ok = ok & _same_state(okl, c[0], c[1], i1, need_cfg=False) & _same_state(okl, L["samples"], L["opt_vi_st"], i1)
            self.body_ticks = fs.steps
            self.body_log = list(fs.log)
            return ok
    vc = V()

    def call(fs, resume, n_total, mode):
        vc.fs, vc.mode = fs, mode
        f = _extract(okl, fs, vc)
        # the restarted script passes the same initial position again
        return f(None, Tok("pos", 0), key="KEY", n_total_iterations=n_total, n_samples=2,
                 odir=ODIR, resume=resume, _optimize_vi=OptVI(okl, n_total))

    def resume_obligation(ctx, files, where, i, n_total, pre_loop=False):
        fs2 = GhostFS(files)
        try:
            call(fs2, True, n_total, "resume")
            ctx.prove(F_, f"resume after a crash {where}: reaches its iteration loop")
        except _Captured:
            s, st = vc.captured
            if pre_loop:
                okk = _same_state(okl, _with_pos(okl, s), st, 0)
            else:
                okk = sor(_same_state(okl, s, st, i), _same_state(okl, s, st, i + 1))
            ctx.prove(okk, "resume after a crash re-enters the uninterrupted trajectory: its loop starts in T(i) or T(i+1) "
                           "with all fields and the configuration restored")
        except (EOFError, Exception) as e:  # noqa: BLE001
            ctx.prove(F_, "resume after a crash never raises")
            ctx.notes.append(f"{where}: {type(e).__name__}: {e}")

    def _with_pos(okl_, s):
        return s

    # how many micro-steps has one iteration?  (concrete: count them on a crash-free body)
    probe = {}

    def run_probe(ctx):
        n_total = fresh_int("n_total")
        ctx.assume(n_total >= 1)
        vc.crash_at = None
        fs = GhostFS()
        try:
            call(fs, False, n_total, "run")
        except symx.PathEnd:
            probe["ticks"] = max(probe.get("ticks", 0), getattr(vc, "body_ticks", 0))
            probe["log"] = getattr(vc, "body_log", [])
            raise
    chk.explore(run_probe, tag="invariant")
    nt = probe.get("ticks", 0)
    chk.note(f"micro-steps of one iteration: {probe.get('log')}")
    if nt == 0:
        chk.obligation("one iteration performs file-system micro-steps", "undecided", detail="no micro-steps recorded")
        return

    for k in range(1, nt + 1):
        def run(ctx, k=k):
            n_total = fresh_int("n_total")
            ctx.assume(n_total >= 1)
            vc.crash_at = k
            fs = GhostFS()
            try:
                call(fs, False, n_total, "run")
                return
            except Crash as c:
                where = f"at micro-step {k} of an iteration ({c})"
                ctx.cover("crash taken")
                files = fs.snapshot()
            resume_obligation(ctx, files, where, vc.i, n_total)
        chk.explore(run, tag="crash", covers=["crash taken"])
        chk.sample(dict(crash_at_micro_step=k, step=probe["log"][k - 1] if k <= len(probe["log"]) else "?"))

    # crashes before the first iteration (creation/truncation of minisanity.txt): nothing to lose, resume starts fresh
    def run_pre(ctx):
        n_total = fresh_int("n_total")
        ctx.assume(n_total >= 1)
        for k in (1, 2, 3):
            fs = GhostFS(crash_at=k)
            vc.crash_at = None
            vc.fs, vc.mode = fs, "resume"          # stop at loop entry if no crash happens before
            f = _extract(okl, fs, vc)
            try:
                f(None, Tok("pos", 0), key="KEY", n_total_iterations=n_total, n_samples=2, odir=ODIR, resume=False,
                  _optimize_vi=OptVI(okl, n_total))
            except _Captured:
                continue
            except Crash as c:
                files = fs.snapshot()
                fs2 = GhostFS(files)
                vc.fs, vc.mode = fs2, "resume"
                f2 = _extract(okl, fs2, vc)
                try:
                    f2(None, Tok("pos", 0), key="KEY", n_total_iterations=n_total, n_samples=2, odir=ODIR, resume=True,
                       _optimize_vi=OptVI(okl, n_total))
                    ctx.prove(F_, "resume after a crash before the first iteration reaches its loop")
                except _Captured:
                    s, st = vc.captured
                    ctx.prove(_b(s._pos is not None and isinstance(s._pos, Tok) and s._pos.i == 0) & _b(st.nit == 0) & _b(st.config == CFG),
                              "resume after a crash before the first iteration starts from the given position with a fresh state")
    chk.explore(run_pre, tag="before-first-iteration")
    chk.under_contract(okl.optimize_kl)


def sec_resume_variants(chk):
    """resume given as a path; resume=True without file; minisanity.txt truncated only when not resuming (concrete, ghost FS)"""
    okl = _okl()

    def run(ctx):
        n_total = 3
        base = dict(key="KEY", n_total_iterations=n_total, n_samples=2, odir="out", _optimize_vi=OptVI(okl, n_total))
        fs = GhostFS()
        f = symx.extract(okl.optimize_kl, rebind=dict(fs.rebind(), logger=_Log()))
        s, st = f(None, Tok("pos", 0), resume=False, **base)
        ctx.prove(_same_state(okl, s, st, 3), "an uninterrupted run returns T(n)")
        ctx.prove(_b(fs.files["out/last.pkl"][0] == "complete") &
                  _same_state(okl, fs.files["out/last.pkl"][1][0], fs.files["out/last.pkl"][1][1], 3, need_cfg=False),
                  "after the run last.pkl holds T(n) (configuration stripped)")
        ctx.prove(_b(fs.files["out/last.pkl"][1][1].config == {}), "the configuration is not pickled")
        sanity = fs.files["out/minisanity.txt"][1]
        # resume=True on the finished directory: no further iteration, minisanity untouched
        f2 = symx.extract(okl.optimize_kl, rebind=dict(fs.rebind(), logger=_Log()))
        base2 = dict(base, _optimize_vi=OptVI(okl, n_total))
        s2, st2 = f2(None, None, resume=True, **base2)
        ctx.prove(_same_state(okl, s2, st2, 3), "resume=True on a finished run returns T(n) without further iterations")
        ctx.prove(_b(fs.files["out/minisanity.txt"][1] == sanity), "resume does not truncate minisanity.txt")
        # resume given as a path to another state file
        fs3 = GhostFS({"elsewhere/state.pkl": ("complete", (_traj(okl, 2)[0], _traj(okl, 2)[1]._replace(config={})))})
        f3 = symx.extract(okl.optimize_kl, rebind=dict(fs3.rebind(), logger=_Log()))
        s3, st3 = f3(None, None, resume="elsewhere/state.pkl", **dict(base, _optimize_vi=OptVI(okl, n_total)))
        ctx.prove(_same_state(okl, s3, st3, 3), "resume given as a path continues from the state stored there")
        # resume=True with no file: fresh start
        fs4 = GhostFS()
        f4 = symx.extract(okl.optimize_kl, rebind=dict(fs4.rebind(), logger=_Log()))
        s4, st4 = f4(None, Tok("pos", 0), resume=True, **dict(base, _optimize_vi=OptVI(okl, n_total)))
        ctx.prove(_same_state(okl, s4, st4, 3), "resume=True without a state file starts fresh and completes")
    chk.explore(run)
    chk.under_contract(okl.optimize_kl)


def _native(kind):
    def fn(ob):
        import json
        import os
        import subprocess
        here = os.path.dirname(os.path.abspath(__file__))
        p = subprocess.run([sys.executable, os.path.join(here, "native", "C24_native.py"), kind],
                           capture_output=True, text=True, timeout=900)
        try:
            return json.loads(p.stdout.strip().splitlines()[-1])
        except Exception:  # noqa: BLE001
            return dict(reproduced=False, error=p.stderr[-500:])
    return fn


REPLAY = {"resume after a crash": _native("any"), "update is called with a complete trajectory state": _native("any")}

SECTIONS = [sec_crash_points, sec_resume_variants]
