"""C34 Lanczos, stochastic log-determinant and ELBO estimators are exact in the limit.

  L  lanczos_tridiag (the real JAX function through its jaxpr, Engine J) on a *symbolic* symmetric matrix A and start vector v:
       Q Q^T == 1 (rows orthonormal),  Q A Q^T == T (tridiagonal),  first row == v/|v|;  for order == dimension additionally
       det(lambda - T) == det(lambda - A) as polynomials in lambda  (T has exactly the eigenvalues of A, the extreme ones included).
     For order < dimension the Ritz values lie inside A's spectral interval by Cauchy interlacing (lemma L-CAUCHY, not mechanised).
     Universal in the entries for dimension 2 (orders 1, 2) and 3 (orders 1, 2); dimension 3 at order 3 is beyond sympy (the nested
     normalisations make the expression tree explode): full order in dimensions 3..8 is a bounded native run.
  Q  _quadrature_from_eigh on symbolic nodes and first eigenvector components == sum_i c_i^2 f(lambda_i), for f = log and an
     uninterpreted f (Engine J); eigh itself is a dependency with an assumed contract (A-EIGH)
  S  (bounded) stochastic_lq_logdet with order == dimension == the mean over its own Rademacher probes of z^T log(A) z computed
     densely; diagonal matrices: == log det exactly, whatever the probes
  E  (bounded) estimate_evidence_lower_bound (JAX) with all eigenvalues on small linear and non-linear models:
       every ELBO sample == N/2 - 1/2 log det M(pos) - H(sample)   (closed form, dense)
       the same result eagerly and compiled, in signal and in data space, in one go and resumed from a saved eigensystem,
       and from the classic implementation on the equivalent model;
       for the linear Gaussian model with samples of exactly the posterior moments the ELBO mean == the log-evidence, and it is
       strictly below it for any other expansion point.
"""
import numpy as np
import sympy as sp

from vf import jaxsym, objx

META = dict(
    title="Lanczos, stochastic log-determinant and ELBO estimators are exact in the limit",
    level="other",
    design_ref="DESIGN.md section 9.8, C34",
    technique="post-conditions of the real lanczos_tridiag on symbolic matrices and start vectors through its jaxpr (orthonormal basis, "
              "Q A Q^T == T, characteristic polynomial of T == that of A at full order), decided by sympy; quadrature kernel on symbolic "
              "nodes; stochastic log-determinant and ELBO estimators against dense closed forms on generated small models (bounded "
              "native stand-ins: eager/compiled, signal/data space, resumed, classic/JAX)",
    text="For every symmetric 2x2 and 3x3 matrix and start vector (symbolic entries) the Lanczos basis is orthonormal and projects the "
         "matrix onto the returned tridiagonal; at full order (2x2) the tridiagonal has the characteristic polynomial of the matrix. The "
         "quadrature kernel is sum c_i^2 f(lambda_i). On generated SPD matrices up to dimension 8 the Lanczos eigenvalues at full order "
         "equal the matrix eigenvalues, the stochastic log-determinant at full order equals the mean of z^T log(A) z over its probes "
         "(the exact log-determinant for diagonal matrices); on generated small linear and non-linear Gaussian models the ELBO with all "
         "eigenvalues equals its closed form per sample, agrees between eager and compiled, signal and data space, one-go and resumed, "
         "classic and JAX, equals the log-evidence for exact posterior moments and is below it otherwise.",
    note="Only the Lanczos and quadrature post-conditions are universal (in the entries, for the enumerated dimensions and orders); "
         "3x3 at full order and everything involving eigh/eigsh (A-EIGH) are bounded native runs on generated instances with tolerances "
         "1e-8 .. 1e-10, labelled bounded. Convergence of extreme Ritz values for order < dimension is not decided (only the "
         "interlacing bound follows from the proved projection identity). SLQ with order < dimension and the eigsh tail approximations "
         "are estimators, not identities: not checked.",
    explanation="level 'other': symbolic post-conditions for the Lanczos recurrence, bounded stand-ins for the estimators",
)


def _sym_matrix(n, symbolic=True, A0=None):
    A = np.empty((n, n), dtype=object)
    for i in range(n):
        for j in range(n):
            A[i, j] = sp.Symbol(f"a{min(i, j)}{max(i, j)}", real=True) if symbolic else sp.Integer(int(A0[i, j]))
    return A


def _lanczos_case(chk, n, m, mode):
    import jax
    jax.config.update("jax_enable_x64", True)
    import jax.numpy as jnp
    from nifty.re.num import lanczos as lz
    rng = np.random.default_rng(34 + 10 * n + m + chk.seed)
    # the shadow point must be generic: no Lanczos breakdown within the order (the documented zero padding after a breakdown is
    # another region of the input space, where the identities are not claimed)
    for _ in range(100):
        B = rng.integers(-3, 4, size=(n, n))
        A0 = (B @ B.T + n * np.eye(n)).astype(float)
        v0 = rng.integers(1, 5, size=n).astype(float)
        T0, _ = lz.lanczos_tridiag(lambda x: jnp.asarray(A0) @ x, jnp.asarray(v0), order=m)
        if m == 1 or np.min(np.abs(np.diag(np.asarray(T0), 1))) > 1e-2:
            break
    else:
        raise AssertionError("no generic shadow point found")
    As = _sym_matrix(n, mode in ("A", "Av"), A0)
    vs = jaxsym.symbols((n,), "v", real=True) if mode in ("v", "Av") else np.array([sp.Integer(int(x)) for x in v0], dtype=object)
    shadow = {sp.Symbol(f"a{min(i, j)}{max(i, j)}", real=True): sp.Integer(int(A0[i, j])) for i in range(n) for j in range(n)}
    shadow.update({sp.Symbol(f"v{i}", real=True): sp.Integer(int(v0[i])) for i in range(n)})
    jaxsym.Shadow.point, jaxsym.Shadow.pc = shadow, []
    try:
        (T, Q), _ = jaxsym.sym_call(lambda A, v: lz.lanczos_tridiag(lambda x: A @ x, v, order=m), (jnp.asarray(A0), jnp.asarray(v0)), (As, vs))
        pc = list(jaxsym.Shadow.pc)
    finally:
        jaxsym.Shadow.point, jaxsym.Shadow.pc = None, []
    T = sp.Matrix(np.asarray(T, dtype=object).tolist())
    Q = sp.Matrix(np.asarray(Q, dtype=object).tolist())
    Am = sp.Matrix(As.tolist())
    what = {"Av": "symbolic matrix and start vector", "A": "symbolic matrix, rational start vector", "v": "rational matrix, symbolic start vector"}[mode]
    lab = f"lanczos: dimension {n}, order {m}, {what}"

    def decide(label, residues, seconds=4):
        worst, be_all = "discharged", set()
        det = ""
        for e in residues:
            st, be, d = objx.zero_status(e, simplify_seconds=seconds, seed=chk.seed)      # (the recorded breakdown tests "norm > tol" hold at every generic point)
            be_all.add(be)
            if st == "refuted":
                worst, det = "refuted", d
                break
            if st != "discharged":
                worst, det = "undecided", d
        chk.obligation(f"{lab}: {label}", worst, backend="sympy-points" if "sympy-points" in be_all else "sympy", detail=det[:500])
    decide("the basis rows are orthonormal (Q Q^T == 1)", list(Q * Q.T - sp.eye(m)))
    decide("Q A Q^T == T (the returned tridiagonal is the projection of the matrix)", list(Q * Am * Q.T - T))
    nv = sp.sqrt(sum(x * x for x in vs))
    decide("the first basis vector is v / |v|", [Q[0, j] * nv - vs[j] for j in range(n)])
    ok = all(T[i, j] == 0 for i in range(m) for j in range(m) if abs(i - j) > 1) and all(T[i, j] == T[j, i] for i in range(m) for j in range(i))
    chk.obligation(f"{lab}: T is symmetric tridiagonal", "discharged" if ok else "refuted", backend="identity")
    if m == n:
        # equal power sums tr(T^k) == tr(A^k), k = 1..n, determine the characteristic polynomial (Newton's identities)
        res, Tk, Ak = [], sp.eye(n), sp.eye(n)
        for k in range(1, n + 1):
            Tk, Ak = Tk * T, Ak * Am
            res.append(Tk.trace() - Ak.trace())
        decide("at full order tr(T^k) == tr(A^k) for k = 1..dimension: T has the characteristic polynomial of the matrix (same eigenvalues, extreme ones included)", res, seconds=8)


def _mk_lanczos(n, m, mode):
    def sec(chk):
        from nifty.re.num import lanczos as lz
        chk.under_contract(lz.lanczos_tridiag)
        chk.under_contract(lz._lanczos_tridiag)
        chk.under_contract(lz._dense_tridiag)
        chk.assume("A-JAXTRACE: the jaxpr of lanczos_tridiag for the given dimension and order is the function; the breakdown tests 'norm > tol' "
                   "are decided at a shadow point and hold on the recorded region")
        chk.lemma("L-CAUCHY: if Q has orthonormal rows and T == Q A Q^T, the eigenvalues of T interlace those of A; in particular they lie in [lambda_min(A), lambda_max(A)]")
        _lanczos_case(chk, n, m, mode)
    sec.__name__ = f"sec_lanczos_{n}_{m}_{mode}"
    return sec


def sec_quadrature(chk):
    import jax
    jax.config.update("jax_enable_x64", True)
    import jax.numpy as jnp
    from nifty.re.num import lanczos as lz
    chk.under_contract(lz._quadrature_from_eigh)
    chk.under_contract(lz._apply_f_safely)
    chk.assume("A-EIGH: jnp.linalg.eigh returns an orthonormal eigen-decomposition (dependency; probed natively in sec_slq)")
    g = jaxsym.opaque("fscalar")
    for m in (1, 2, 3):
        ev0 = jnp.asarray(np.linspace(1.5, 3.0, m))
        c0 = jnp.asarray(np.linspace(0.3, 0.8, m))
        evs = jaxsym.symbols((m,), "lam", positive=True)
        cs = jaxsym.symbols((m,), "c", real=True)
        shadow = {s: sp.Rational(3, 2) + i for i, s in enumerate(evs)}
        for fname, f, fs in (("log", jnp.log, sp.log), ):
            jaxsym.Shadow.point, jaxsym.Shadow.pc = dict(shadow), []
            try:
                out, _ = jaxsym.sym_call(lambda e, c: lz._quadrature_from_eigh(e, c, f, clip_eigs=False, eig_clip=1e-300, clip_eigs_max=None, nan_to_num=False), (ev0, c0), (evs, cs))
            finally:
                jaxsym.Shadow.point, jaxsym.Shadow.pc = None, []
            got = sp.sympify(np.asarray(out, dtype=object).ravel()[0])
            want = sum(c * c * fs(e) for c, e in zip(cs, evs))
            st, be, det = objx.eq_status(got, want, seed=chk.seed)
            chk.obligation(f"quadrature: {m} nodes, f = {fname}: _quadrature_from_eigh == sum_i c_i^2 f(lambda_i)", st, backend=be, detail=det[:300])
    # the Gauss kernel natively: e1^T f(T) e1 from a dense eigen-decomposition (bounded)
    rng = np.random.default_rng(340 + chk.seed)
    fails, cases = [], 0
    for m in (1, 2, 3, 5, 8):
        for rep in range(3):
            cases += 1
            alpha = rng.uniform(2., 4., size=m)
            off = rng.uniform(-.8, .8, size=max(m - 1, 0))
            T = np.diag(alpha) + np.diag(off, 1) + np.diag(off, -1)
            w, V = np.linalg.eigh(T)
            want = float(np.sum(V[0] ** 2 * np.log(w)))
            got = float(lz._gauss_unit(jnp.asarray(alpha), jnp.asarray(off), jnp.log, clip_eigs=False, eig_clip=1e-300, clip_eigs_max=None, nan_to_num=False))
            if not np.isclose(got, want, rtol=1e-10, atol=1e-12):
                fails.append(dict(case=f"_gauss_unit for a {m}x{m} tridiagonal: {got!r} != e1^T log(T) e1 = {want!r}", detail=""))
    chk.bounded("Gauss quadrature kernel e1^T log(T) e1 against a dense eigen-decomposition", bound=f"{cases} tridiagonals up to 8x8, 1e-10", cases=cases, nontrivial=cases,
                failures=fails, kind="B-runtime")


def _spd(rng, n, cond=30.):
    Qm, _ = np.linalg.qr(rng.normal(size=(n, n)))
    w = np.exp(rng.uniform(0., np.log(cond), size=n))
    return (Qm * w) @ Qm.T


def sec_lanczos_native(chk):
    import jax
    jax.config.update("jax_enable_x64", True)
    import jax.numpy as jnp
    from nifty.re.num import lanczos as lz
    rng = np.random.default_rng(3400 + chk.seed)
    fails, cases = [], 0
    for n in (3, 4, 6, 8):
        for rep in range(2 if chk.tier == "quick" else 6):
            A = _spd(rng, n)
            v = rng.normal(size=n)
            for m in sorted({1, 2, n // 2 + 1, n}):
                cases += 1
                T, Qb = lz.lanczos_tridiag(lambda x: jnp.asarray(A) @ x, jnp.asarray(v), order=m)
                T, Qb = np.asarray(T), np.asarray(Qb)
                if not np.allclose(Qb @ Qb.T, np.eye(m), atol=1e-9):
                    fails.append(dict(case=f"dimension {n}, order {m}: the basis is not orthonormal", detail=f"{np.max(np.abs(Qb @ Qb.T - np.eye(m))):.1e}"))
                if not np.allclose(Qb @ A @ Qb.T, T, atol=1e-8 * np.abs(A).max()):
                    fails.append(dict(case=f"dimension {n}, order {m}: Q A Q^T != T", detail=""))
                ev, ea = np.linalg.eigvalsh(T), np.linalg.eigvalsh(A)
                if m == n and not np.allclose(ev, ea, rtol=1e-8):
                    fails.append(dict(case=f"dimension {n}, full order: the eigenvalues of T differ from those of the matrix", detail=f"{ev} vs {ea}"))
                if ev.min() < ea.min() * (1 - 1e-9) or ev.max() > ea.max() * (1 + 1e-9):
                    fails.append(dict(case=f"dimension {n}, order {m}: a Ritz value lies outside the spectral interval", detail=""))
    chk.bounded("lanczos_tridiag on generated SPD matrices: orthonormal basis, projection identity, eigenvalues at full order", bound=f"{cases} (matrix, order) cases up to 8x8",
                cases=cases, nontrivial=cases, failures=fails, kind="B-runtime")


def sec_slq(chk):
    import jax
    jax.config.update("jax_enable_x64", True)
    import jax.numpy as jnp
    from nifty.re.num import lanczos as lz
    chk.under_contract(lz.stochastic_lq_logdet)
    chk.under_contract(lz._slq_gauss_radau)
    chk.under_contract(lz.stochastic_logdet_from_lanczos)
    rng = np.random.default_rng(34000 + chk.seed)
    fails, cases = [], 0
    for n in (2, 3, 5, 8):
        for rep in range(2 if chk.tier == "quick" else 5):
            for ns in (1, 4, 7):
                cases += 1
                A = _spd(rng, n)
                seed = int(rng.integers(0, 2 ** 31 - 1))
                key = jax.random.PRNGKey(seed)
                got = float(lz.stochastic_lq_logdet(jnp.asarray(A), n, ns, key))
                # the probes of the documented Hutchinson estimator: one batch of ns Rademacher vectors drawn from the first sub-key
                z = np.asarray(jax.random.rademacher(jax.random.split(key, 2)[0], shape=(ns, n), dtype=jnp.float64))
                w, V = np.linalg.eigh(A)
                logA = (V * np.log(w)) @ V.T
                want = float(np.mean([zi @ logA @ zi for zi in z]))
                if not np.isclose(got, want, rtol=1e-8, atol=1e-10):
                    fails.append(dict(case=f"dimension {n}, {ns} probes, full order: estimate {got!r} != mean of z^T log(A) z over the probes {want!r}", detail=f"key seed {seed}"))
                # callable operator, same key: same estimate
                got2 = float(lz.stochastic_lq_logdet(lambda x: jnp.asarray(A) @ x, n, ns, key, shape0=n))
                if not np.isclose(got2, got, rtol=1e-10):
                    fails.append(dict(case=f"dimension {n}: matrix and callable operator give different estimates for the same key", detail=""))
                d = np.exp(rng.uniform(-1., 2., size=n))
                gd = float(lz.stochastic_lq_logdet(jnp.asarray(np.diag(d)), n, ns, key))
                if not np.isclose(gd, np.sum(np.log(d)), rtol=1e-9, atol=1e-10):
                    fails.append(dict(case=f"diagonal matrix of dimension {n}, {ns} probes: estimate {gd!r} != log det {np.sum(np.log(d))!r}", detail=""))
            # the two-step interface: tridiagonals from lanczos_tridiag, then stochastic_logdet_from_lanczos
            cases += 1
            A = _spd(rng, n)
            zs = rng.choice([-1., 1.], size=(3, n))
            Ts = jnp.stack([lz.lanczos_tridiag(lambda x: jnp.asarray(A) @ x, jnp.asarray(z), order=n)[0] for z in zs])
            got = float(lz.stochastic_logdet_from_lanczos(Ts, n))
            w, V = np.linalg.eigh(A)
            logA = (V * np.log(w)) @ V.T
            want = float(np.mean([z @ logA @ z for z in zs]))              # |z|^2 == n for Rademacher probes
            if not np.isclose(got, want, rtol=1e-8):
                fails.append(dict(case=f"dimension {n}: stochastic_logdet_from_lanczos at full order {got!r} != mean z^T log(A) z {want!r}", detail=""))
    chk.bounded("stochastic log-determinant at full quadrature order against the dense z^T log(A) z of its probes", bound=f"{cases} (matrix, probes) cases up to 8x8, 1e-8",
                cases=cases, nontrivial=cases, failures=fails, kind="B-runtime")


# ------------------------------------------------------------------------------------------------------------------ ELBO
def _linear_model(jft, jnp, R, noise_std, data):
    import jax
    dom = jax.ShapeDtypeStruct((R.shape[1],), jnp.float64)
    fwd = jft.Model(lambda x: jnp.asarray(R) @ x, domain=dom)
    return jft.Gaussian(jnp.asarray(data), noise_std_inv=lambda x: x / noise_std).amend(fwd)


def _nonlinear_model(jft, jnp, R, noise_std, data):
    import jax
    dom = jax.ShapeDtypeStruct((R.shape[1],), jnp.float64)
    fwd = jft.Model(lambda x: jnp.asarray(R) @ jnp.tanh(x) + 0.3 * jnp.sum(x ** 2), domain=dom)
    return jft.Gaussian(jnp.asarray(data), noise_std_inv=lambda x: x / noise_std).amend(fwd)


def _dense_metric(jft, jnp, lh, pos):
    import jax
    n = pos.size

    def ham(x):        # the standard Hamiltonian, written out: likelihood energy + standard-normal prior energy
        return lh(x) + 0.5 * jnp.vdot(x, x)
    return np.column_stack([np.asarray(lh.metric(jnp.asarray(pos), jnp.asarray(e))) + e for e in np.eye(n)]), ham


def sec_elbo(chk):
    import os
    import shutil
    import tempfile
    import jax
    jax.config.update("jax_enable_x64", True)
    import jax.numpy as jnp
    import nifty.re as jft
    from nifty.re import evidence_lower_bound as elb
    chk.under_contract(elb.estimate_evidence_lower_bound)
    chk.under_contract(elb._eigsh)
    chk.assume("A-EIGH: scipy.sparse.linalg.eigsh / numpy.linalg.eigh return eigen-pairs of the operator they are given (dependency)")
    rng = np.random.default_rng(340000 + chk.seed)
    fails, cases = [], 0
    shapes = [(3, 2), (2, 3), (4, 4), (5, 3)] if chk.tier == "quick" else [(3, 2), (2, 3), (4, 4), (5, 3), (3, 5), (6, 4), (2, 2)]
    for ndata, nsig in shapes:
        for kind in ("linear", "nonlinear"):
            cases += 1
            R = rng.normal(size=(ndata, nsig))
            noise_std = float(rng.uniform(0.3, 1.2))
            data = rng.normal(size=ndata)
            lh = (_linear_model if kind == "linear" else _nonlinear_model)(jft, jnp, R, noise_std, data)
            pos = rng.normal(size=nsig) * 0.4
            res = rng.normal(size=(4, nsig)) * 0.5
            samples = jft.Samples(pos=jnp.asarray(pos), samples=jnp.asarray(res))
            M, ham = _dense_metric(jft, jnp, lh, pos)
            want = np.array([0.5 * nsig - 0.5 * np.linalg.slogdet(M)[1] - float(ham(jnp.asarray(pos + r))) for r in res])
            lab = f"{kind} model with {ndata} data points and {nsig} parameters"
            ref = None
            for opts in (dict(trace_log_space="signal", metric_jit=True), dict(trace_log_space="signal", metric_jit=False), dict(trace_log_space="data", metric_jit=True),
                         dict(trace_log_space="data", metric_jit=False), dict(trace_log_space="auto", metric_jit=True)):
                try:
                    es, stats = jft.estimate_evidence_lower_bound(lh, samples, min(ndata, nsig), compute_all=True, verbose=False, **opts, output_directory=None)
                except Exception as e:  # noqa: BLE001
                    fails.append(dict(case=f"{lab}, {opts}: {type(e).__name__}: {str(e)[:150]}", detail=""))
                    continue
                es = np.asarray(es, dtype=float).ravel()
                if not np.allclose(es, want, rtol=1e-8, atol=1e-9):
                    fails.append(dict(case=f"{lab}, {opts}: ELBO samples differ from N/2 - 1/2 log det M - H(sample)", detail=f"{es} vs {want}"))
                if ref is None:
                    ref = es
                elif not np.allclose(es, ref, rtol=1e-9, atol=1e-10):
                    fails.append(dict(case=f"{lab}, {opts}: differs from the eager signal-space result", detail=""))
                if not np.isclose(stats["elbo_mean"], np.mean(es)) or abs(float(stats["lower_error"])) > 1e-12:
                    fails.append(dict(case=f"{lab}, {opts}: statistics inconsistent with the samples (all eigenvalues computed: no residual error)", detail=str(stats)[:200]))
            # resumed: first k eigen-pairs saved, then the rest
            nrel = min(ndata, nsig)
            if nrel >= 2:
                for space in ("signal", "data"):
                    d = tempfile.mkdtemp(prefix="c34-")
                    try:
                        jft.estimate_evidence_lower_bound(lh, samples, nrel - 1, verbose=False, min_lh_eval=-1., n_batches=1, output_directory=d, trace_log_space=space)
                        evals = np.load(os.path.join(d, f"metric_{space}_eigenvalues.npy"))
                        evecs = np.load(os.path.join(d, f"metric_{space}_eigenvectors.npy"))
                        es2, _ = jft.estimate_evidence_lower_bound(lh, samples, nrel, verbose=False, min_lh_eval=-1., resume_eigenvectors=evecs, resume_eigenvalues=evals,
                                                                  trace_log_space=space, output_directory=None)
                        if not np.allclose(np.asarray(es2, dtype=float).ravel(), want, rtol=1e-7, atol=1e-8):
                            fails.append(dict(case=f"{lab}: resumed from {evals.size} saved eigen-pairs ({space} space) differs from the one-go result", detail=""))
                    except Exception as e:  # noqa: BLE001
                        fails.append(dict(case=f"{lab}: resume ({space} space) failed: {type(e).__name__}: {str(e)[:200]}", detail=""))
                    finally:
                        shutil.rmtree(d, ignore_errors=True)
            if kind == "linear":
                # exact posterior moments: mean m, residuals +- sqrt(N) L e_i with L L^T = M^-1  =>  ELBO mean == log evidence (NIFTy constants)
                Minv = np.linalg.inv(M)
                j = R.T @ data / noise_std ** 2
                m = Minv @ j
                L = np.linalg.cholesky(Minv)
                rs = np.sqrt(nsig) * np.concatenate([L.T, -L.T])
                logev = -float(ham(jnp.asarray(m))) - 0.5 * np.linalg.slogdet(M)[1]
                es, st = jft.estimate_evidence_lower_bound(lh, jft.Samples(pos=jnp.asarray(m), samples=jnp.asarray(rs)), nrel, compute_all=True, verbose=False, output_directory=None)
                if not np.isclose(st["elbo_mean"], logev, rtol=1e-9, atol=1e-9):
                    fails.append(dict(case=f"{lab}: samples with the exact posterior moments: ELBO mean {st['elbo_mean']!r} != log-evidence {logev!r}", detail=""))
                shift = rng.normal(size=nsig) * 0.3
                es, st = jft.estimate_evidence_lower_bound(lh, jft.Samples(pos=jnp.asarray(m + shift), samples=jnp.asarray(rs)), nrel, compute_all=True, verbose=False, output_directory=None)
                gap = logev - st["elbo_mean"]
                if not (gap > 0 and np.isclose(gap, 0.5 * shift @ M @ shift, rtol=1e-8)):
                    fails.append(dict(case=f"{lab}: shifted expansion point: the ELBO is not below the log-evidence by 1/2 d^T M d", detail=f"gap {gap!r}"))
    chk.bounded("JAX estimate_evidence_lower_bound with all eigenvalues against the dense closed form; eager/compiled, signal/data space, resumed; log-evidence bound",
                bound=f"{cases} generated models (linear and non-linear, up to 6 data points x 5 parameters), 1e-8", cases=cases, nontrivial=cases, failures=fails, kind="B-runtime")


def _matrix_operator(ift, sdom, ddom, R):
    """sidecar: a dense (possibly non-square) response as a classic LinearOperator (MatrixProductOperator is square-only)"""
    class _Mat(ift.LinearOperator):
        def __init__(self):
            self._domain, self._target = ift.DomainTuple.make(sdom), ift.DomainTuple.make(ddom)
            self._capability = self.TIMES | self.ADJOINT_TIMES

        def apply(self, x, mode):
            self._check_input(x, mode)
            v = x.asnumpy()
            return ift.makeField(self._target, R @ v) if mode == self.TIMES else ift.makeField(self._domain, R.T @ v)
    return _Mat()


def sec_elbo_classic(chk):
    """classic vs JAX on the equivalent model, and the classic closed form"""
    import jax
    jax.config.update("jax_enable_x64", True)
    import jax.numpy as jnp
    import nifty.cl as ift
    import nifty.re as jft
    from nifty.cl import evidence_lower_bound as celb
    chk.under_contract(celb.estimate_evidence_lower_bound)
    rng = np.random.default_rng(3400000 + chk.seed)
    fails, cases = [], 0
    for ndata, nsig in ([(3, 2), (2, 3), (4, 4)] if chk.tier == "quick" else [(3, 2), (2, 3), (4, 4), (5, 3), (3, 5)]):
        for kind in ("linear", "nonlinear"):
            cases += 1
            R = rng.normal(size=(ndata, nsig))
            noise_std = float(rng.uniform(0.3, 1.2))
            data = rng.normal(size=ndata)
            pos = rng.normal(size=nsig) * 0.4
            res = rng.normal(size=(3, nsig)) * 0.5
            lab = f"{kind} model with {ndata} data points and {nsig} parameters"
            # JAX
            lh = (_linear_model if kind == "linear" else _nonlinear_model)(jft, jnp, R, noise_std, data)
            es_re, _ = jft.estimate_evidence_lower_bound(lh, jft.Samples(pos=jnp.asarray(pos), samples=jnp.asarray(res)), min(ndata, nsig), compute_all=True, verbose=False, output_directory=None)
            es_re = np.asarray(es_re, dtype=float).ravel()
            # classic: the same model
            sdom, ddom = ift.UnstructuredDomain(nsig), ift.UnstructuredDomain(ndata)
            Rop = _matrix_operator(ift, sdom, ddom, R)
            if kind == "linear":
                op = Rop
            else:
                op = Rop @ ift.ScalingOperator(sdom, 1.).ptw("tanh") + ift.ContractionOperator(ddom, None).adjoint @ (ift.ScalingOperator(sdom, 1.).ptw("power", 2).sum() * 0.3)
            N = ift.ScalingOperator(ddom, noise_std ** 2, float)
            lhc = ift.GaussianEnergy(data=ift.makeField(ddom, data), inverse_covariance=N.inverse) @ op
            ham = ift.StandardHamiltonian(lhc)
            mean = ift.makeField(sdom, pos)
            sl = ift.ResidualSampleList(mean, [ift.makeField(sdom, r) for r in res], [False] * len(res))
            try:
                es_cl, st = ift.estimate_evidence_lower_bound(ham, sl, min(ndata, nsig), compute_all=True, verbose=False)
                es_cl = np.array([float(s.asnumpy()) for s in es_cl.iterator()])
            except Exception as e:  # noqa: BLE001
                fails.append(dict(case=f"{lab}: classic estimator failed: {type(e).__name__}: {str(e)[:200]}", detail=""))
                continue
            if not np.allclose(es_cl, es_re, rtol=1e-8, atol=1e-9):
                fails.append(dict(case=f"{lab}: classic ELBO samples {es_cl} differ from the JAX ones {es_re}", detail=""))
    chk.bounded("classic estimate_evidence_lower_bound against the JAX implementation on the equivalent model (all eigenvalues)", bound=f"{cases} generated models, 1e-8",
                cases=cases, nontrivial=cases, failures=fails, kind="B-runtime")


SECTIONS = [_mk_lanczos(2, 1, "Av"), _mk_lanczos(2, 2, "Av"), _mk_lanczos(3, 1, "Av"), _mk_lanczos(3, 2, "Av"),
            sec_quadrature, sec_lanczos_native, sec_slq, sec_elbo, sec_elbo_classic]
