"""C04 Fixing part of the input preserves value, Jacobian and metric.

Engine O with sympy elements.  Contract of `Operator.simplify_for_constant_input(c)` (taken from the property):
    (c_out, op') = op.simplify_for_constant_input(c), c on the keys S, S a non-empty proper subset of op.domain.keys()
    ensures  op'.domain is the sub-domain of the variable keys,  op'.target is op.target
             op'(x_var)                         == op(x_var u c)
             op'(Lin(x_var)).jac(t)             == d/dx_var [op(x_var u c)] t      (sympy's own derivative of the value)
                                                == op(make_partial_var(x_var u c, S)).jac(t u 0)
             op'(Lin(x_var)).jac.adjoint(s)     == variable part of the original Jacobian's adjoint
             op'(Lin(x_var, want_metric)).metric(t) == variable part of the original metric applied to (t u 0)
    full-domain c:  a constant operator with that value, zero Jacobian, zero metric;  empty c: op itself.
It is discharged on the real classes for every override of `_simplify_for_constant_input_nontrivial` with *generic*
children (sidecar operators G_k(x) = unknown functions with their exact Jacobians) and for enumerated expressions, for
every non-empty proper key subset, as identities in all input symbols (variable and constant).
`EnergyAdapter(constants=...)`: position, gradient and metric live on the variable keys only.
"""
import itertools

import numpy as np
import sympy as sp

from vf import objx
from vf.objx import SX, exprs
from vf.ofield import MultiWorld, all_equal, flat, sym_like

META = dict(
    title="Fixing part of the input preserves value, Jacobian and metric",
    level="other",
    design_ref="DESIGN.md section 4, C04",
    technique="contract of Operator.simplify_for_constant_input (value/Jacobian/adjoint/metric of the result equal those of the "
              "original with the constants inserted) discharged on the real operator classes executed on symbolic multi-fields: "
              "every _simplify_for_constant_input_nontrivial override with generic (uninterpreted) children, enumerated expression "
              "skeletons x every non-empty proper key subset; identities decided by sympy for all variable and constant values",
    text="For every override of the specialisation hook (default/InsertionOperator, _OpChain, _OpProd, _OpSum, ChainOperator, "
         "SumOperator with signs, likelihood chains and sums, StandardHamiltonian, VariableCovarianceGaussianEnergy, "
         "CountingOperator) and for the enumerated multi-domain operator and energy expressions, specialising to constants on every "
         "non-empty proper subset of keys returns an operator on exactly the remaining keys with the same target whose value, "
         "Jacobian, adjoint Jacobian and metric equal those of the original at (variables u constants), for all values. "
         "Full-domain constants give a constant operator with zero Jacobian and metric. EnergyAdapter with constants keeps no "
         "constant keys in position, gradient or metric.",
    note="Universal in every input value (variable and constant); bounded in skeleton: 2-pixel spaces, <= 3 keys, the listed "
         "expressions and generic children with unknown smooth functions. The metric of the original is taken from the original "
         "operator on Linearization.make_partial_var (its correctness is C11/C03). JaxOperator overrides are outside reach (A-JAX).",
    explanation="level 'other': symbolic identities on the real classes for enumerated skeletons (B-shape), universal in values",
)

N = 2


def _generic_op(ift, name, domain, target):
    """sidecar operator standing for an arbitrary child: target component j = G_{name,j}(all inputs), exact Jacobian.
    Uses the library's default specialisation (InsertionOperator)."""
    from nifty.cl.operators.operator import Operator
    from nifty.cl.operators.linear_operator import LinearOperator
    domain = ift.MultiDomain.make(domain)
    target = ift.DomainTuple.make(target)
    keys = sorted(domain.keys())
    nin = {k: int(np.prod(domain[k].shape, dtype=int)) for k in keys}
    nout = int(np.prod(target.shape, dtype=int))

    class _Jac(LinearOperator):
        def __init__(self, mat):          # mat[j][(k,i)] sympy
            self._domain, self._target = domain, target
            self._capability = self.TIMES | self.ADJOINT_TIMES
            self._m = mat

        def apply(self, x, mode):
            self._check_input(x, mode)
            if mode == self.TIMES:
                xs = {k: exprs(x[k].asnumpy()) for k in keys}
                out = np.empty(nout, dtype=object)
                for j in range(nout):
                    out[j] = SX(sum(self._m[j][(k, i)] * xs[k][i] for k in keys for i in range(nin[k])))
                return ift.Field(target, out.reshape(target.shape))
            ys = exprs(x.asnumpy())
            res = {}
            for k in keys:
                a = np.empty(nin[k], dtype=object)
                for i in range(nin[k]):
                    a[i] = SX(sum(sp.conjugate(self._m[j][(k, i)]) * ys[j] for j in range(nout)))
                res[k] = ift.Field(domain[k], a.reshape(domain[k].shape))
            return ift.MultiField.from_dict(res)

    class Generic(Operator):
        def __init__(self):
            self._domain, self._target = domain, target

        def apply(self, x):
            self._check_input(x)
            lin = x.jac is not None
            v = x.val if lin else x
            args = [e for k in keys for e in exprs(v[k].asnumpy())]
            out = np.empty(nout, dtype=object)
            fs = [sp.Function(f"G{name}{j}", real=True)(*args) for j in range(nout)]
            for j in range(nout):
                out[j] = SX(fs[j])
            res = ift.Field(target, out.reshape(target.shape))
            if not lin:
                return res
            mat = []
            pos = 0
            idx = {}
            for k in keys:
                for i in range(nin[k]):
                    idx[(k, i)] = pos
                    pos += 1
            for j in range(nout):
                mat.append({ki: fs[j].fdiff(p + 1) for ki, p in idx.items()})
            return x.new(res, _Jac(mat))

        def __repr__(self):
            return f"Generic{name}"
    return Generic()


def _subsets(keys):
    for r in range(1, len(keys)):
        for s in itertools.combinations(keys, r):
            yield s


def _check(chk, W, label, op, metric=False, group="exprs", cvals=None):
    """the contract of simplify_for_constant_input for operator `op` on world W, every non-empty proper key subset.
    cvals: {key: float array} -- keys whose *constant* value must be a float array (the library derives a sampling dtype
    from it); they stay symbolic while variable."""
    ift = W.ift
    W0 = W
    keys = tuple(sorted(op.domain.keys()))
    box = W.box()
    chk.under_contract(type(op)._simplify_for_constant_input_nontrivial)
    for S in _subsets(keys):
        var = tuple(k for k in keys if k not in S)
        lab = f"{group}: {label} | constants {','.join(S)}"
        W = W0.with_concrete({k: v for k, v in (cvals or {}).items() if k in S})
        cst = W.part(S)
        xvar = W.part(var)
        xfull = W.part(keys)
        try:
            with SX.concolic(W.shadow) as pc:
                c_out, op2 = op.simplify_for_constant_input(cst)
                pc = list(pc)
        except NotImplementedError as e:
            chk.note(f"{lab}: specialisation refused ({e})")
            continue
        vardom = ift.MultiDomain.make({k: op.domain[k] for k in var})
        ok = op2.domain is vardom and op2.target is op.target
        chk.obligation(f"{lab}: result lives on exactly the variable keys and on the original target",
                       "discharged" if ok else "refuted", backend="identity",
                       detail="" if ok else f"domain {op2.domain} (wanted {vardom}), target {op2.target} (wanted {op.target})")
        if not ok:
            continue
        with SX.concolic(W.shadow) as pc2:
            v_orig = op(xfull)
            v_new = op2(xvar)
            lin_new = op2(ift.Linearization.make_var(xvar, want_metric=metric))
            lin_orig = op(ift.Linearization.make_partial_var(xfull, list(S), want_metric=metric))
            t, tsyms = W.tangent(var)
            tfull = t.unite(W.tangent(S, zero=S)[0])
            j_new = lin_new.jac(t)
            j_orig = lin_orig.jac(tfull)
            s = sym_like(ift, lin_new.jac.target, "s", real=True)
            a_new = lin_new.jac.adjoint_times(s)
            a_orig = lin_orig.jac.adjoint_times(s).extract_by_keys(var)
            if metric:
                m_new = lin_new.metric(t) if lin_new.metric is not None else None
                m_orig = lin_orig.metric(tfull).extract_by_keys(var)
            pc = pc + list(pc2)
        V = flat(v_orig)
        all_equal(chk, f"{lab}: value == original with the constants inserted", flat(v_new), V, pc=pc, domain=box)
        all_equal(chk, f"{lab}: value on a linearization == original with the constants inserted", flat(lin_new.val), V, pc=pc, domain=box)
        want = [W.directional(v, tsyms, var) for v in V]
        all_equal(chk, f"{lab}: Jacobian == derivative of the original value in the variable keys (sympy)", flat(j_new), want,
                  pc=pc, domain=box)
        all_equal(chk, f"{lab}: Jacobian == Jacobian of the original on make_partial_var", flat(j_new), flat(j_orig), pc=pc, domain=box)
        all_equal(chk, f"{lab}: adjoint Jacobian == variable part of the original adjoint Jacobian", flat(a_new), flat(a_orig),
                  pc=pc, domain=box)
        if metric:
            if m_new is None:
                chk.obligation(f"{lab}: metric == variable part of the original metric", "refuted", backend="sympy",
                               detail="the specialised operator returns no metric although one was requested")
            else:
                all_equal(chk, f"{lab}: metric == variable part of the original metric", flat(m_new), flat(m_orig), pc=pc, domain=box)
    # full-domain constants and empty constants
    W = W0.with_concrete(cvals or {})
    lab = f"{group}: {label}"
    with SX.concolic(W.shadow) as pc:
        xfull = W.part(keys)
        c_out, opc = op.simplify_for_constant_input(xfull)
        v = opc(ift.MultiField.from_dict({}))
        lin = opc(ift.Linearization.make_var(ift.MultiField.from_dict({}), want_metric=metric))
        s = sym_like(ift, lin.jac.target, "s", real=True)
        back = lin.jac.adjoint_times(s)
        vfull = flat(op(xfull))
        pc = list(pc)
    ok = len(opc.domain.keys()) == 0 and opc.target is op.target
    chk.obligation(f"{lab} | all keys constant: constant operator on the empty domain with the original target",
                   "discharged" if ok else "refuted", backend="identity")
    all_equal(chk, f"{lab} | all keys constant: value == original value", flat(v), vfull, pc=pc, domain=box)
    all_equal(chk, f"{lab} | all keys constant: value on a linearization == original value", flat(lin.val), vfull, pc=pc, domain=box)
    ok = len(back.keys()) == 0
    chk.obligation(f"{lab} | all keys constant: zero Jacobian", "discharged" if ok else "refuted", backend="identity")
    _, same = op.simplify_for_constant_input(ift.MultiField.from_dict({}))
    _, same2 = op.simplify_for_constant_input(None)
    chk.obligation(f"{lab} | no constants: the operator itself", "discharged" if same is op and same2 is op else "refuted", backend="identity")


def _check_sequential(chk, W, label, op, metric=False, group="exprs"):
    """specialising in two steps (first one key, then another key of the result) must give what specialising once with both gives:
    value, Jacobian and metric of the original at (variables u constants)"""
    ift = W.ift
    keys = tuple(sorted(op.domain.keys()))
    box = W.box()
    for k1, k2 in itertools.permutations(keys, 2):
        var = tuple(k for k in keys if k not in (k1, k2))
        if not var:
            continue
        lab = f"{group}: {label} | constants {k1}, then {k2}"
        xvar, xfull = W.part(var), W.part(keys)
        try:
            with SX.concolic(W.shadow) as pc:
                _, op1 = op.simplify_for_constant_input(W.part((k1,)))
                _, op2 = op1.simplify_for_constant_input(W.part((k2,)))
                pc = list(pc)
        except NotImplementedError as e:
            chk.note(f"{lab}: specialisation refused ({e})")
            continue
        vardom = ift.MultiDomain.make({k: op.domain[k] for k in var})
        ok = op2.domain is vardom and op2.target is op.target
        chk.obligation(f"{lab}: result lives on exactly the remaining keys and on the original target", "discharged" if ok else "refuted", backend="identity")
        if not ok:
            continue
        with SX.concolic(W.shadow) as pc2:
            v_orig = op(xfull)
            lin_new = op2(ift.Linearization.make_var(xvar, want_metric=metric))
            lin_orig = op(ift.Linearization.make_partial_var(xfull, [k1, k2], want_metric=metric))
            t, tsyms = W.tangent(var)
            tfull = t.unite(W.tangent((k1, k2), zero=(k1, k2))[0])
            j_new, j_orig = lin_new.jac(t), lin_orig.jac(tfull)
            if metric and lin_new.metric is not None:
                m_new, m_orig = lin_new.metric(t), lin_orig.metric(tfull).extract_by_keys(var)
            pc = pc + list(pc2)
        all_equal(chk, f"{lab}: value == original with both constants inserted", flat(op2(xvar)), flat(v_orig), pc=pc, domain=box)
        all_equal(chk, f"{lab}: value on a linearization == original with both constants inserted", flat(lin_new.val), flat(v_orig), pc=pc, domain=box)
        all_equal(chk, f"{lab}: Jacobian == Jacobian of the original on make_partial_var", flat(j_new), flat(j_orig), pc=pc, domain=box)
        if metric and lin_new.metric is not None:
            all_equal(chk, f"{lab}: metric == variable part of the original metric", flat(m_new), flat(m_orig), pc=pc, domain=box)


def sec_overrides(chk):
    """each override of the hook with generic children"""
    import nifty.cl as ift
    from nifty.cl.operators.operator import Operator, _OpChain, _OpProd, _OpSum
    from nifty.cl.operators.counting_operator import CountingOperator
    with objx.patched():
        W = MultiWorld(ift, ("a", "b", "c"), n=N)
        d = {k: W.dt for k in W.keys}
        sub = lambda *ks: {k: W.dt for k in ks}  # noqa: E731
        chk.under_contract(Operator.simplify_for_constant_input)
        # default hook (InsertionOperator) on a generic child
        G3 = _generic_op(ift, "A", d, W.dt)
        _check(chk, W, "generic G(a,b,c) [default hook -> InsertionOperator]", G3, group="overrides")
        # _OpProd / _OpSum of generic children with overlapping and disjoint key sets
        Gab, Gbc, Gc = _generic_op(ift, "P", sub("a", "b"), W.dt), _generic_op(ift, "Q", sub("b", "c"), W.dt), _generic_op(ift, "R", sub("c"), W.dt)
        _check(chk, W, "_OpProd: G(a,b) * H(b,c)", Gab * Gbc, group="overrides")
        assert isinstance(Gab * Gbc, _OpProd)
        _check(chk, W, "_OpSum: G(a,b) + H(c)", Gab + Gc, group="overrides")
        assert isinstance(Gab + Gc, _OpSum)
        _check(chk, W, "_OpSum: G(a,b) - H(b,c)", Gab - Gbc, group="overrides")
        # _OpChain: point-wise function after a generic child, generic after linear
        ch = Gab.tanh()
        assert isinstance(ch, _OpChain)
        _check(chk, W, "_OpChain: tanh(G(a,b))", ch, group="overrides")
        Gu = _generic_op(ift, "U", {"u": W.dt, "c": W.dt}, W.dt)
        inner = Gab.ducktape_left("u")
        _check(chk, W, "_OpChain/partial_insert: K(u,c) with u := G(a,b)", Gu.partial_insert(inner), group="overrides")
        # multi-target sums and products (ConstCollector paths)
        mt1 = Gab.ducktape_left("u") + Gc.ducktape_left("v")
        mt2 = Gbc.ducktape_left("u") + Gab.ducktape_left("v")
        _check(chk, W, "_OpSum with multi-domain target: {u: G(a,b), v: H(c)}", mt1, group="overrides")
        _check(chk, W, "_OpProd with multi-domain target: {u: G*H', v: H*G}", mt1 * mt2, group="overrides")
        # CountingOperator
        co = CountingOperator(G3.domain)
        _check(chk, W, "G(a,b,c) @ CountingOperator", G3 @ co, group="overrides")
        # linear: SumOperator with signs, ChainOperator
        a, b, c = (ift.FieldAdapter(W.dt, k) for k in "abc")
        M = ift.MatrixProductOperator(W.dt, objx.sx_array((N, N), "m", real=True))
        Dg = ift.DiagonalOperator(ift.Field(W.dt, objx.sx_array((N,), "w", positive=True)))
        lin_sum = a - M @ b + Dg @ c
        from nifty.cl.operators.sum_operator import SumOperator
        from nifty.cl.operators.chain_operator import ChainOperator
        assert isinstance(lin_sum, SumOperator)
        _check(chk, W, "SumOperator: a - M b + D c", lin_sum, group="overrides")
        # every sign pattern of the stored summands (SumOperator.make keeps the flags as given), single and multi-domain target
        for neg in itertools.product((False, True), repeat=3):
            sg = "".join("-" if n else "+" for n in neg)
            so = SumOperator.make([a, M @ b, Dg @ c], list(neg))
            _check(chk, W, f"SumOperator.make([a, M b, D c], signs {sg})", so, group="overrides")
            so = SumOperator.make([a.ducktape_left("u"), (M @ b).ducktape_left("u"), (Dg @ c).ducktape_left("v")], list(neg))
            _check(chk, W, f"SumOperator.make([u<-a, u<-M b, v<-D c], signs {sg})", so, group="overrides")
        one = ift.ScalingOperator(W.domain, 1.)
        _check(chk, W, "1 - makeOp(w) on the multi-domain (stored with a negated first summand)",
               one - ift.makeOp(ift.MultiField.from_dict({k: ift.Field(W.dt, objx.sx_array((N,), f"q{k}", positive=True)) for k in W.keys})),
               group="overrides")
        chn = M @ (a + b - c)
        assert isinstance(chn, ChainOperator)
        _check(chk, W, "ChainOperator: M (a + b - c)", chn, group="overrides")
        _check(chk, W, "ChainOperator of a multi-target sum: {u: a - b, v: D c}",
               (a - b).ducktape_left("u") + (Dg @ c).ducktape_left("v"), group="overrides")


def sec_energies(chk):
    """likelihood chains/sums, Hamiltonian, variable-covariance Gaussian: value, Jacobian and metric"""
    import nifty.cl as ift
    from nifty.cl.operators.energy_operators import StandardHamiltonian
    with objx.patched():
        W = MultiWorld(ift, ("a", "b", "c"), n=N)
        a, b, c = (ift.FieldAdapter(W.dt, k) for k in "abc")
        dom = W.dom
        P = ift.PoissonianEnergy(ift.makeField(dom, np.array([3, 1])))
        G = ift.GaussianEnergy(data=ift.makeField(dom, np.array([0.5, -1.])))
        E1 = P @ (a.exp() * b)
        _check(chk, W, "Poisson @ (exp(a)*b)", E1, metric=True, group="energies")
        E2 = G @ (a.sin() + b * c)
        _check(chk, W, "Gaussian @ (sin(a) + b*c)", E2, metric=True, group="energies")
        S = E1 + (G @ c)
        _check(chk, W, "likelihood sum: Poisson@(exp(a)*b) + Gaussian@c", S, metric=True, group="energies")
        _check(chk, W, "scaled likelihood: 0.5 * (Poisson@(exp(a)*b) + Gaussian@c)", 0.5 * S, metric=True, group="energies")
        Gg = _generic_op(ift, "M", {"a": W.dt, "b": W.dt}, W.dt)
        _check(chk, W, "Gaussian @ generic G(a,b) + Gaussian @ c", (G @ Gg) + (G @ c), metric=True, group="energies")
        H = StandardHamiltonian(S, ic_samp="IC", prior_sampling_dtype=float)
        chk.under_contract(StandardHamiltonian._simplify_for_constant_input_nontrivial)
        _check(chk, W, "StandardHamiltonian(likelihood sum)", H, metric=True, group="energies")
        H0 = StandardHamiltonian(S)
        _check(chk, W, "StandardHamiltonian without iteration controller", H0, metric=True, group="energies")
        for nm, o in (("likelihood sum: Poisson@(exp(a)*b) + Gaussian@c", S), ("StandardHamiltonian(likelihood sum)", H),
                      ("StandardHamiltonian without iteration controller", H0), ("Gaussian @ (sin(a) + b*c)", E2)):
            _check_sequential(chk, W, nm, o, metric=True, group="energies")
        Hd = StandardHamiltonian(S, ic_samp="IC", prior_sampling_dtype={"a": float, "b": float, "c": float})
        _check(chk, W, "StandardHamiltonian with per-key prior sampling dtypes", Hd, metric=True, group="energies")
        # variable covariance: residual r and inverse covariance i as separate keys
        for full in (False, True):
            V = ift.VariableCovarianceGaussianEnergy(dom, "a", "b", float, use_full_fisher=full)
            W2 = MultiWorld(ift, ("a", "b"), n=N)
            _check(chk, W2, f"VariableCovarianceGaussianEnergy(use_full_fisher={full})", V, metric=True, group="energies",
                   cvals={"a": np.array([0.5, -1.25]), "b": np.array([0.75, 1.5])})
        V = ift.VariableCovarianceGaussianEnergy(dom, "r", "i", float)
        model = (a * b).ducktape_left("r") + c.exp().ducktape_left("i")
        _check(chk, W, "VariableCovarianceGaussianEnergy @ {r: a*b, i: exp(c)}", V @ model, metric=True, group="energies")


def sec_expressions(chk):
    """enumerated multi-domain expressions over the point-wise table, every non-empty proper subset of keys"""
    import nifty.cl as ift
    with objx.patched():
        W = MultiWorld(ift, ("a", "b", "c"), n=N)
        a, b, c = (ift.FieldAdapter(W.dt, k) for k in "abc")
        u = ift.FieldAdapter(W.dt, "u")
        cf = ift.makeField(W.dom, np.array([0.5, -1.5]))
        trees = {
            "exp(a)*b + c": a.exp() * b + c,
            "sin(a)*(b + c)": a.sin() * (b + c),
            "tanh(a*b) - log(c)": (a * b).tanh() - c.log(),
            "(a*b*c).sum()": (a * b * c).sum(),
            "a.vdot(b.sqrt()) * c": (a.vdot(b.sqrt())) * c.sum(),
            "(a**2 + b)/c": (a ** 2 + b) / c,
            "a*cf + b.reciprocal()": a * cf + b.reciprocal(),
            "{u: exp(a)*b, v: c + a}": (a.exp() * b).ducktape_left("u") + (c + a).ducktape_left("v"),
            "(sin(u)*b).partial_insert(u = exp(a)*c)": (u.sin() * b).partial_insert((a.exp() * c).ducktape_left("u")),
            "sigmoid(a) * softplus(b) * c": a.sigmoid() * b.softplus() * c,
            "({u: a, v: b} * {u: c, v: exp(a)})['v'] + a": ((a.ducktape_left("u") + b.ducktape_left("v")) *
                                                           (c.ducktape_left("u") + a.exp().ducktape_left("v")))["v"] + a,
        }
        if chk.tier == "thorough":
            trees.update({
                "log1p(a*b) + cos(b*c) + a*c": (a * b).log1p() + (b * c).cos() + a * c,
                "exp(a - b) * (c - a)": (a - b).exp() * (c - a),
                "arctan(a) ** b + c": a.arctan() ** b + c,
                "(a+b).vdot(b+c)": (a + b).vdot(b + c),
            })
        for name, op in trees.items():
            _check(chk, W, name, op, group="exprs")


def sec_energy_adapter(chk):
    """EnergyAdapter(constants=...): no constant keys in position, gradient or metric; values as the original"""
    import nifty.cl as ift
    from nifty.cl.operators.energy_operators import StandardHamiltonian
    from nifty.cl.minimization.energy_adapter import EnergyAdapter
    chk.under_contract(EnergyAdapter.__init__)
    with objx.patched():
        W = MultiWorld(ift, ("a", "b", "c"), n=N)
        a, b, c = (ift.FieldAdapter(W.dt, k) for k in "abc")
        P = ift.PoissonianEnergy(ift.makeField(W.dom, np.array([3, 1])))
        G = ift.GaussianEnergy(data=ift.makeField(W.dom, np.array([0.5, -1.])))
        H = StandardHamiltonian((P @ (a.exp() * b)) + (G @ (c + a)), ic_samp="IC", prior_sampling_dtype=float)
        box = W.box()
        keys = W.keys
        for S in _subsets(keys):
            var = tuple(k for k in keys if k not in S)
            lab = f"adapter: constants {','.join(S)}"
            with SX.concolic(W.shadow) as pc:
                ea = EnergyAdapter(W.x, H, constants=list(S), want_metric=True)
                ref = H(ift.Linearization.make_partial_var(W.x, list(S), want_metric=True))
                t, _ = W.tangent(var)
                tfull = t.unite(W.tangent(S, zero=S)[0])
                mt = ea.apply_metric(t)
                mref = ref.metric(tfull).extract_by_keys(var)
                pc = list(pc)
            ok = set(ea.position.keys()) == set(var) and set(ea.gradient.keys()) == set(var) and set(mt.keys()) == set(var)
            chk.obligation(f"{lab}: position, gradient and metric carry the variable keys only", "discharged" if ok else "refuted",
                           backend="identity", detail=f"position {sorted(ea.position.keys())}, gradient {sorted(ea.gradient.keys())}")
            all_equal(chk, f"{lab}: value == Hamiltonian at (variables u constants)", exprs(np.array(ea.value, dtype=object)), flat(ref.val), pc=pc, domain=box)
            all_equal(chk, f"{lab}: gradient == variable part of the Hamiltonian's gradient", flat(ea.gradient),
                      flat(ref.gradient.extract_by_keys(var)), pc=pc, domain=box)
            Vh = flat(ref.val)[0]
            all_equal(chk, f"{lab}: gradient == derivative of the value in the variable keys (sympy)", flat(ea.gradient),
                      [sp.diff(Vh, s) for k in sorted(var) for s in W.syms[k]], pc=pc, domain=box)
            all_equal(chk, f"{lab}: metric == variable part of the Hamiltonian's metric", flat(mt), flat(mref), pc=pc, domain=box)
            # moving on with at(): the constants stay inserted
            with SX.concolic(W.shadow) as pc:
                W2 = MultiWorld(ift, var, n=N)
                e2 = ea.at(W2.x)
                pc = list(pc)
            sub = {W.syms[k][i]: W2.syms[k][i] for k in var for i in range(N)}
            all_equal(chk, f"{lab}: at(new position) evaluates the same specialised energy (constants kept)", exprs(np.array(e2.value, dtype=object)),
                      [Vh.subs(sub)], pc=pc, domain=dict(box, **W2.box()))
            ok = set(e2.gradient.keys()) == set(var)
            chk.obligation(f"{lab}: at(new position): gradient carries the variable keys only", "discharged" if ok else "refuted", backend="identity")


def _native(which):
    def run(ob):
        import json
        import os
        import subprocess
        import sys
        here = os.path.dirname(os.path.abspath(__file__))
        p = subprocess.run([sys.executable, os.path.join(here, "native", "C04_native.py"), which], capture_output=True, text=True, timeout=600)
        try:
            return json.loads(p.stdout.strip().splitlines()[-1])
        except Exception:  # noqa: BLE001
            return dict(reproduced=False, error=p.stderr[-500:])
    return run


REPLAY = {"StandardHamiltonian": _native("hamiltonian"), "adapter: constants": _native("hamiltonian"),
          "VariableCovarianceGaussianEnergy(use_full_fisher=False)": _native("vcge")}

SECTIONS = [sec_overrides, sec_energies, sec_expressions, sec_energy_adapter]
