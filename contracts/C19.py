"""C19 The sampled KL energy is the sample average of the Hamiltonian.

Engine O with sympy elements on the real SampledKLEnergyClass / SampledKLEnergy / ResidualSampleList / StandardHamiltonian.
Contract (from the property), for a sample list (m, r_1..r_n, neg flags) and a Hamiltonian H with constant keys C:
    position          == m restricted to the keys outside C
    value             == 1/n sum_i H(m +- r_i)
    gradient          == 1/n sum_i d/dx_var H(m +- r_i)         (no components on C)
    apply_metric(t)   == 1/n sum_i [metric of H at m +- r_i restricted to the variable keys] t
    at(p).value       == 1/n sum_i H((p u m_C) +- r_i)          (the residuals are kept, constant keys keep their values)
    samples           == the residual samples with the invariant keys (constant and point-estimated) re-inserted
The right-hand sides are written independently in this file from the closed form of the Hamiltonian (sympy value, sympy
derivative, explicit J^T J + 1).  Residuals, means, data: symbols, so every identity holds for all values; bounded in the model
skeleton (three 2-pixel keys, the listed key splits, n <= 4 samples).
The public constructor SampledKLEnergy is run with white noise re-bound to symbols and CG to an exact solve (A-CGEXACT).
"""
import itertools

import numpy as np
import sympy as sp

from vf import objx
from vf.objx import SX, exprs
from vf.ofield import (ExactCG, MultiWorld, SXNoise, all_equal, flat, isnan_real, np_proxy, sym_field, unflatten_like)

META = dict(
    title="The sampled KL energy is the sample average of the Hamiltonian",
    level="other",
    design_ref="DESIGN.md section 4, C19",
    technique="contracts of SampledKLEnergyClass.value/gradient/apply_metric/at/samples and SampleListBase.average stated as explicit "
              "sample averages of an independently written Hamiltonian (closed-form value, sympy derivative, J^T J + 1); the real "
              "classes run on symbolic means and residuals (object arrays of sympy expressions); the public SampledKLEnergy "
              "constructor with white noise as symbols and an exact solve in place of CG; every listed split of keys into "
              "constants / point estimates; identities decided by sympy for all values",
    text="For a three-key nonlinear Gaussian model with standard prior and every listed split of the keys into constants and point "
         "estimates, mirrored and unmirrored symbolic residuals: the optimised position has the constant keys removed, value, gradient "
         "and metric of the sampled KL energy equal the explicit averages of the Hamiltonian's value, gradient and metric over "
         "mean +- residual, the gradient and metric have no components on constant keys, moving the expansion point keeps the "
         "residuals and the constant keys, and the sample list re-inserts invariant keys. The JAX driver's _kl_vg/_kl_met have the "
         "same structure (mean over samples of value_and_grad / metric at primals + residual).",
    note="Universal in means, residuals and data (symbols); bounded in the model skeleton (three 2-pixel keys, 1-4 residuals, the "
         "enumerated key splits). Assumed: A-CGEXACT for the public constructor, allreduce_sum without communicator is the pairwise "
         "sum (C23), np.isnan is false on reals (A-REAL).",
    explanation="level 'other': symbolic identities on the real classes for enumerated skeletons (B-shape), universal in values",
)

N = 2
KEYS = ("a", "b", "c")


def _model(ift, W):
    """H = 1/2 |exp(a)*b - d1|^2 + 1/2 |tanh(c) - d2|^2 + 1/2 |x|^2 on the real classes, and its independent closed form"""
    from nifty.cl.operators.energy_operators import StandardHamiltonian
    a, b, c = (ift.FieldAdapter(W.dt, k) for k in KEYS)
    d1 = [sp.Rational(1, 2), sp.Rational(-5, 4)]
    d2 = [sp.Rational(1, 4), sp.Rational(3, 4)]
    G1 = ift.GaussianEnergy(data=ift.makeField(W.dom, np.array([float(v) for v in d1])))
    G2 = ift.GaussianEnergy(data=ift.makeField(W.dom, np.array([float(v) for v in d2])))
    lh = (G1 @ (a.exp() * b)) + (G2 @ c.tanh())
    H = StandardHamiltonian(lh, ic_samp="IC", prior_sampling_dtype=float)

    def response(x):          # x: dict key -> list of sympy
        return [sp.exp(x["a"][i]) * x["b"][i] - d1[i] for i in range(N)] + [sp.tanh(x["c"][i]) - d2[i] for i in range(N)]

    def value(x):
        return sum(r * r for r in response(x)) / 2 + sum(v * v for k in KEYS for v in x[k]) / 2
    return H, response, value


def _point(W, m, r, neg, keys=KEYS):
    """m +- r as dict key -> sympy list (r may miss keys: zero residual there)"""
    out = {}
    for k in keys:
        rr = r.get(k, [0] * N)
        out[k] = [m[k][i] - rr[i] if neg else m[k][i] + rr[i] for i in range(N)]
    return out


def _avg(vals):
    return sum(vals) / len(vals)


def _metric_block(response, x, var, t):
    """[(J^T J + 1) restricted to var] t with J the sympy Jacobian of the response in the variable keys' symbols at x"""
    # differentiate with respect to fresh symbols at the sample point
    z = {k: [sp.Symbol(f"z{k}{i}", real=True) for i in range(N)] for k in KEYS}
    R = response(z)
    sub = {z[k][i]: x[k][i] for k in KEYS for i in range(N)}
    zs = [z[k][i] for k in sorted(var) for i in range(N)]
    J = sp.Matrix([[sp.diff(r_, s).subs(sub) for s in zs] for r_ in R])
    tv = sp.Matrix([t[k][i] for k in sorted(var) for i in range(N)])
    return list(J.T * (J * tv) + tv)


def _sample_list(ift, W, m_field, res_keys, negs, tag="r"):
    """a real ResidualSampleList with symbolic residuals on res_keys; returns it and the residual symbols"""
    from nifty.cl.minimization.sample_list import ResidualSampleList
    rs, rsym = [], []
    for i, _ in enumerate(negs):
        fl, sy = {}, {}
        for k in res_keys:
            fl[k], sy[k] = sym_field(ift, W.doms[k], f"{tag}{i}{k}", real=True)
        rs.append(ift.MultiField.from_dict(fl))
        rsym.append(sy)
    return ResidualSampleList(m_field, rs, list(negs)), rsym


NCLASS = 4          # sec_class is split into NCLASS parts over the configurations (sections run in parallel processes)


def _class_part(chk, part):
    """SampledKLEnergyClass on explicit symbolic sample lists"""
    import nifty.cl as ift
    import nifty.cl.minimization.kl_energies as kle
    from nifty.cl.minimization.sample_list import SampleListBase
    chk.under_contract(kle.SampledKLEnergyClass.__init__)
    chk.under_contract(kle.SampledKLEnergyClass.apply_metric)
    chk.under_contract(kle.SampledKLEnergyClass.at)
    chk.under_contract(kle._reduce_by_keys)
    chk.under_contract(kle._reduce_field)
    chk.under_contract(SampleListBase.average)
    chk.under_contract(SampleListBase._average_2tuple)
    chk.assume("A-REAL: np.isnan is false on symbolic reals")
    chk.stub("utilities.allreduce_sum without communicator: pairwise sum of the local list (C23)")
    configs = [((), KEYS, (False, True)), (("a",), KEYS, (False, True)), (("b", "c"), KEYS, (False, True, False, True)),
               (("a", "c"), KEYS, (False, False, False)), (("c",), ("a", "b"), (False, True)), ((), ("b",), (False,)),
               (("a", "b"), KEYS, (True,))]
    if chk.tier == "thorough":
        configs += [((k,), KEYS, (False, True)) for k in ("b", "c")] + [(("a", "b"), ("a", "c"), (False, True, False, True))]
    configs = configs[part::NCLASS]
    with objx.patched(), np_proxy(kle, isnan=isnan_real):
        W = MultiWorld(ift, KEYS, n=N, sign="real")
        H, response, value = _model(ift, W)
        m = {k: W.syms[k] for k in KEYS}
        box = W.box()
        for consts, res_keys, negs in configs:
            lab = f"class: constants {list(consts)}, residuals on {list(res_keys)}, neg {['-' if n else '+' for n in negs]}"
            var = tuple(k for k in KEYS if k not in consts)
            sl, rsym = _sample_list(ift, W, W.x, res_keys, negs)
            kl = kle.SampledKLEnergyClass(sl, H, list(consts), None, False)
            pts = [_point(W, m, r, n) for r, n in zip(rsym, negs)]
            ok = set(kl.position.keys()) == set(var)
            chk.obligation(f"{lab}: the optimised position has exactly the non-constant keys", "discharged" if ok else "refuted", backend="identity",
                           detail=f"position keys {sorted(kl.position.keys())}")
            all_equal(chk, f"{lab}: position == mean on the variable keys", flat(kl.position), [s for k in sorted(var) for s in m[k]])
            V = _avg([value(p) for p in pts])
            all_equal(chk, f"{lab}: value == average of the Hamiltonian over mean +- residual", exprs(np.array(kl.value, dtype=object)), [V], domain=box)
            ok = set(kl.gradient.keys()) == set(var)
            chk.obligation(f"{lab}: the gradient has no components on constant keys", "discharged" if ok else "refuted", backend="identity",
                           detail=f"gradient keys {sorted(kl.gradient.keys())}")
            all_equal(chk, f"{lab}: gradient == average of the Hamiltonian's gradient == d value / d mean (sympy)", flat(kl.gradient),
                      [sp.diff(V, s) for k in sorted(var) for s in m[k]], domain=box)
            t, ts = W.tangent(var)
            mt = kl.apply_metric(t)
            ok = set(mt.keys()) == set(var) and kl.metric.domain is kl.position.domain
            chk.obligation(f"{lab}: the metric acts on the variable keys only", "discharged" if ok else "refuted", backend="identity")
            want = [_avg(col) for col in zip(*[_metric_block(response, p, var, ts) for p in pts])]
            all_equal(chk, f"{lab}: apply_metric == average of the Hamiltonian's metric (J^T J + 1 on the variable keys)", flat(mt), want, domain=box)
            all_equal(chk, f"{lab}: metric(t) through the operator wrapper == apply_metric(t)", flat(kl.metric(t)), flat(mt), domain=box)
            # moving the expansion point keeps residuals and constant keys
            W2 = MultiWorld(ift, var, n=N, sign="real")
            newpos = ift.MultiField.from_dict({k: sym_field(ift, W.doms[k], f"p{k}", real=True)[0] for k in var})
            psym = {k: exprs(newpos[k].asnumpy()) for k in var}
            kl2 = kl.at(newpos)
            m2 = {k: (psym[k] if k in var else m[k]) for k in KEYS}
            V2 = _avg([value(_point(W, m2, r, n)) for r, n in zip(rsym, negs)])
            all_equal(chk, f"{lab}: at(p): value == average of H over (p u constants) +- the same residuals", exprs(np.array(kl2.value, dtype=object)), [V2])
            ok = set(kl2.position.keys()) == set(var) and set(kl2.gradient.keys()) == set(var)
            chk.obligation(f"{lab}: at(p): position and gradient still carry the variable keys only", "discharged" if ok else "refuted", backend="identity")
            all_equal(chk, f"{lab}: at(p): gradient == d value / d p (sympy)", flat(kl2.gradient), [sp.diff(V2, s) for k in sorted(var) for s in psym[k]])
            # the sample list of the energy: mean +- residual, constant keys included
            got = [flat(s) for s in kl.samples.iterator()]
            want = [[v for k in sorted(KEYS) for v in p[k]] for p in pts]
            all_equal(chk, f"{lab}: samples == mean +- residual on all keys", [e for s in got for e in s], [e for s in want for e in s])
            ok = kl.samples.n_samples == len(negs)
            chk.obligation(f"{lab}: the number of samples is the number of residuals", "discharged" if ok else "refuted", backend="identity")


NPUB = 6           # sec_public is split over the (constants, point estimates) configurations


def _public_part(chk, part):
    """SampledKLEnergy(...): key handling for every split into constants / point estimates; samples from symbolic noise"""
    import nifty.cl as ift
    import nifty.cl.minimization.kl_energies as kle
    import nifty.cl.operators.sampling_enabler as se
    chk.under_contract(kle.SampledKLEnergy)
    chk.under_contract(kle.draw_samples)
    chk.assume("A-CGEXACT: the conjugate gradient inside SamplingEnabler is replaced by the exact solution (C14 proves the CG contract)")
    splits = [((), ()), (("a",), ()), ((), ("c",)), (("a",), ("a",)), (("a", "b"), ("b",)), (("c",), ("a", "c"))]
    if chk.tier == "thorough":
        splits += [((), ("a", "b")), (("b",), ("c",)), (("a", "b", "c"), ("c",)), (("b", "c"), ("b", "c"))]
    splits = splits[part::NPUB]
    noise = SXNoise()
    old_cg = se.ConjugateGradient
    ExactCG.ift = ift
    se.ConjugateGradient = ExactCG
    try:
        with objx.patched(noise), np_proxy(kle, isnan=isnan_real):
            W = MultiWorld(ift, KEYS, n=N, sign="real")
            H, response, value = _model(ift, W)
            m = {k: W.syms[k] for k in KEYS}
            for consts, pes in splits:
                for mirror in (True, False):
                    lab = f"public: constants {list(consts)}, point estimates {list(pes)}, mirror={mirror}"
                    noise.src.clear()
                    ift.random.push_sseq_from_seed(5)
                    try:
                        kl = kle.SampledKLEnergy(W.x, H, 1, None, mirror_samples=mirror, constants=list(consts), point_estimates=list(pes))
                    finally:
                        ift.random.pop_sseq()
                    ExactCG.discharge(chk, lab)
                    inv = set(consts) & set(pes)
                    var = tuple(k for k in KEYS if k not in consts)
                    ok = set(kl.position.keys()) == set(var)
                    chk.obligation(f"{lab}: the optimised position has exactly the non-constant keys", "discharged" if ok else "refuted",
                                   backend="identity", detail=f"{sorted(kl.position.keys())}")
                    sams = [s for s in kl.samples.iterator()]
                    ok = len(sams) == (2 if mirror else 1) and all(set(s.keys()) == set(KEYS) for s in sams)
                    chk.obligation(f"{lab}: samples carry all keys (invariant keys re-inserted) and mirroring doubles them", "discharged" if ok else "refuted",
                                   backend="identity")
                    if not ok:
                        continue
                    pts = [{k: exprs(s[k].asnumpy()) for k in KEYS} for s in sams]
                    res = [[sp.expand(pts[i][k][j] - m[k][j]) for j in range(N)] for i in range(len(sams)) for k in pes]
                    all_equal(chk, f"{lab}: point-estimated keys have exactly zero residual", [e for r in res for e in r], [0] * (len(res) * N))
                    if mirror:
                        all_equal(chk, f"{lab}: the mirrored sample is the exact negative residual",
                                  [sp.expand(pts[1][k][j] - m[k][j]) for k in KEYS for j in range(N)],
                                  [sp.expand(-(pts[0][k][j] - m[k][j])) for k in KEYS for j in range(N)])
                    V = _avg([value(p) for p in pts])
                    all_equal(chk, f"{lab}: value == average of the Hamiltonian over its own samples", exprs(np.array(kl.value, dtype=object)), [V])
                    ok = set(kl.gradient.keys()) == set(var)
                    chk.obligation(f"{lab}: the gradient has no components on constant keys", "discharged" if ok else "refuted", backend="identity")
                    if var:
                        # the residuals are held fixed in the gradient: differentiate with placeholders, then insert them
                        rho = [{k: [sp.Symbol(f"rho{i}{k}{j}", real=True) for j in range(N)] for k in KEYS} for i in range(len(sams))]
                        back = {rho[i][k][j]: sp.expand(pts[i][k][j] - m[k][j]) for i in range(len(sams)) for k in KEYS for j in range(N)}
                        Vr = _avg([value(_point(W, m, rho[i], False)) for i in range(len(sams))])
                        all_equal(chk, f"{lab}: gradient == d value / d mean on the variable keys (residuals held fixed)", flat(kl.gradient),
                                  [sp.diff(Vr, s).subs(back) for k in sorted(var) for s in m[k]])
    finally:
        se.ConjugateGradient = old_cg


def sec_kl_re(chk):
    """the JAX driver's sampled KL: _kl_vg / _kl_met are the sample averages of value-and-gradient / metric of the standard Hamiltonian at
    primals + residual -- and the Hamiltonian itself at the position when there are no samples (MAP)"""
    import jax
    jax.config.update("jax_enable_x64", True)
    import jax.numpy as jnp
    import importlib
    import nifty.re as jft
    okl = importlib.import_module("nifty.re.optimize_kl")
    from vf.jaxsym import sym_call, symbols
    from vf.objx import eq_status
    chk.under_contract(okl._kl_vg)
    chk.under_contract(okl._kl_met)
    chk.assume("A-JAXTRACE: the jaxpr of _kl_vg / _kl_met for the given number of samples is the function")
    n = 2
    d, w = symbols((n,), "d", real=True), symbols((n,), "w", positive=True)
    A = symbols((n, n), "A", real=True)
    p, t = symbols((n,), "p", real=True), symbols((n,), "t", real=True)
    Am = sp.Matrix(n, n, list(A.ravel()))

    def make(d_, w_, A_):
        return jft.Gaussian(d_, noise_cov_inv=w_).amend(lambda q: jnp.exp(A_ @ q))

    def H(x):
        f = [sp.exp(v) for v in Am * sp.Matrix(list(x))]
        return sum(w[i] * (d[i] - f[i]) ** 2 for i in range(n)) / 2 + sum(v * v for v in x) / 2

    def metric_t(x):
        z = [sp.Symbol(f"z{i}", real=True) for i in range(n)]
        f = [sp.exp(v) for v in Am * sp.Matrix(z)]
        J = sp.Matrix([[sp.diff(fi, zj) for zj in z] for fi in f]).subs(dict(zip(z, x)))
        return list((J.T * sp.diag(*list(w)) * J + sp.eye(n)) * sp.Matrix(list(t)))

    def decide(label, got, want):
        worst = ("discharged", "sympy", "")
        for a, b in zip(got, want):
            st = eq_status(sp.sympify(a), sp.sympify(b), n=5, simplify_seconds=4, seed=chk.seed)
            if st[0] != "discharged":
                worst = st
                break
            if st[1] != "sympy":
                worst = st
        chk.obligation(label, worst[0], backend=worst[1], detail=worst[2][:400])
    ex = (jnp.ones(n), jnp.ones(n), jnp.ones((n, n)), jnp.ones(n) * 0.3)
    for S in (0, 1, 2):
        lab = f"kl_re: {S} samples"
        if S:
            r = symbols((S, n), "r", real=True)
            rex = jnp.ones((S, n)) * 0.1
            pts = [[p[i] + r[s, i] for i in range(n)] for s in range(S)]
            vg, _ = sym_call(lambda d_, w_, A_, q, rr: okl._kl_vg(make(d_, w_, A_), q, jft.Samples(pos=q, samples=rr)), ex + (rex,), (d, w, A, p, r))
            met, _ = sym_call(lambda d_, w_, A_, q, tt, rr: okl._kl_met(make(d_, w_, A_), q, tt, jft.Samples(pos=q, samples=rr)), ex + (jnp.ones(n), rex), (d, w, A, p, t, r))
        else:
            pts = [list(p)]
            vg, _ = sym_call(lambda d_, w_, A_, q: okl._kl_vg(make(d_, w_, A_), q, jft.Samples(pos=None, samples=None)), ex, (d, w, A, p))
            met, _ = sym_call(lambda d_, w_, A_, q, tt: okl._kl_met(make(d_, w_, A_), q, tt, jft.Samples(pos=None, samples=None)), ex + (jnp.ones(n),), (d, w, A, p, t))
        V = sum(H(x) for x in pts) / len(pts)
        decide(f"{lab}: _kl_vg value == average of the standard Hamiltonian (likelihood + 1/2 |x|^2) over primals + residual", [np.asarray(vg[0], dtype=object).ravel()[0]], [V])
        decide(f"{lab}: _kl_vg gradient == d value / d primals (residuals held fixed)", list(np.asarray(vg[1], dtype=object).ravel()), [sp.diff(V, q) for q in p])
        Mt = [sum(col) / len(pts) for col in zip(*[metric_t(x) for x in pts])]
        decide(f"{lab}: _kl_met == average of (J^T N^-1 J + 1) t over primals + residual", list(np.asarray(met, dtype=object).ravel()), Mt)


def sec_refusals(chk):
    import nifty.cl as ift
    import nifty.cl.minimization.kl_energies as kle
    with objx.patched():
        W = MultiWorld(ift, KEYS, n=N, sign="real")
        H, _, _ = _model(ift, W)
        for what, kw, exc in (("point estimates for the whole domain", dict(point_estimates=list(KEYS)), RuntimeError),
                              ("a constant key that is not part of the position", dict(constants=["zz"]), ValueError),
                              ("a point-estimate key that is not part of the position", dict(point_estimates=["zz"]), ValueError),
                              ("a non-integer number of samples", dict(n_samples=2.), TypeError),
                              ("a minimiser that is no DescentMinimizer", dict(minimizer_sampling="newton"), TypeError)):
            args = dict(position=W.x, hamiltonian=H, n_samples=1, minimizer_sampling=None)
            args.update(kw)
            try:
                kle.SampledKLEnergy(**args)
                ok = False
            except exc:
                ok = True
            chk.obligation(f"refusals: {what} is refused", "discharged" if ok else "refuted", backend="native")


def _mk_class(part):
    def sec(chk):
        return _class_part(chk, part)
    sec.__name__ = f"sec_class_{part}"
    sec.__doc__ = _class_part.__doc__
    return sec


def _mk_public(part):
    def sec(chk):
        return _public_part(chk, part)
    sec.__name__ = f"sec_public_{part}"
    sec.__doc__ = _public_part.__doc__
    return sec


SECTIONS = [_mk_class(k) for k in range(NCLASS)] + [_mk_public(k) for k in range(NPUB)] + [sec_kl_re, sec_refusals]
