"""C15 JAX conjugate gradients: accurate, and eager and compiled variants agree.

Functions under contract: nifty.re.conjugate_gradient._cg (re-compiled, loop cut with
invariant) and _static_cg incl. its closure cg_single_step (re-compiled; lax.while_loop is
bound to a capture so that the *real* step closure is run on an arbitrary state).
"""
import z3

from vf import symx
from vf.symx import (Ctx, SymBool, SymInt, SymReal, const_int, const_real, fresh_int, fresh_real, implies, ite,
                     sand, snot, sor)
from vf.vs import LinOp, Space, Vec, vite

META = dict(
    title="JAX conjugate gradients: accurate, and eager and compiled variants agree",
    level="proof",
    design_ref="DESIGN.md section 4, C15",
    technique="deductive verification: loop invariant on the re-compiled eager solver, relational step contract "
              "(eager iteration == compiled cg_single_step) on the real closure, VCs discharged by z3",
    text="Loop invariant r = M x - j, energy = E(x) <= E(start), <d,r> = gamma > 0 is proved for the real _cg for every "
         "system, stopping configuration and iteration count; the stopping verdict is tied to the requested criterion; "
         "one eager iteration and the real compiled single-step closure are proved to produce the same state and "
         "verdict from every state satisfying the invariant (hence the runs agree by induction).",
    note="A-REAL (exact real arithmetic; jnp.where evaluating an untaken NaN branch is not modelled), norm_ord=2 only, "
         "time_threshold not modelled, termination not verified, jax.jit/lax.while_loop/cond have their defining "
         "semantics (A-JAX).",
)

EPS = const_real("eps")
TINY = const_real("tiny")
SIZE = const_int("size")
T = SymBool(z3.BoolVal(True))
F = SymBool(z3.BoolVal(False))


def _real(x):
    return x.real if hasattr(x, "real") else x


def _ge(a, b):
    r = a >= b
    return r if isinstance(r, SymBool) else SymBool(z3.BoolVal(bool(r)))


class _FI:
    eps = EPS
    tiny = TINY


class _JNP:
    inf = "inf"
    real = staticmethod(_real)
    abs = staticmethod(lambda x: abs(x))
    finfo = staticmethod(lambda dt: _FI)
    array = staticmethod(lambda x, dtype=None: x)

    @staticmethod
    def maximum(a, b):
        return ite(_ge(a, b), a, b)

    @staticmethod
    def minimum(a, b):
        return ite(_ge(b, a), a, b)

    @staticmethod
    def where(c, a, b):
        if isinstance(a, Vec) or isinstance(b, Vec):
            return vite(c, a, b)
        return ite(c, a, b)


class _Log:
    def error(self, *a, **k):
        pass

    warning = info = debug = error


def E(x, M, j):
    return 0.5 * x.s_vdot(M(x)).real - x.s_vdot(j).real


def _common_rebind(sp):
    return {"jnp": _JNP, "float": symx.sym_float_of, "vdot": lambda a, b: a.s_vdot(b),
            "size": lambda j: SIZE, "result_type": lambda j: None, "zeros_like": lambda j: sp.zero(),
            "jft_norm": lambda r, ord=None: r.norm(), "logger": _Log()}


CRITERIA = ["absdelta", "resnorm", "fallback", "both"]


def _config(kind):
    """stopping configuration: which of absdelta/resnorm are given"""
    cfg = {}
    if kind in ("absdelta", "both"):
        cfg["absdelta"] = fresh_real("absdelta")
    if kind in ("resnorm", "both"):
        cfg["resnorm"] = fresh_real("resnorm")
    if kind == "fallback":
        cfg["tol"] = fresh_real("tol")
        cfg["atol"] = fresh_real("atol")
    return cfg


class V(symx.VC):
    """contract hooks for _cg"""

    def __init__(self, sp, M):
        self.sp, self.M = sp, M
        self.relational = None

    def start(self, j, x0):
        self.j = j
        self.xs = self.sp.zero() if x0 is None else x0

    def invariant(self, L):
        M, j = self.M, self.j
        pos, r, d, pg = L["pos"], L["r"], L["d"], L["previous_gamma"]
        it, hi = L["__it0"], L["__hi0"]
        hi1 = ite(_ge(hi, 1), hi, 1)
        first = implies(it == 1, pos.eq(self.xs) & d.eq(r) & (pg == r.s_vdot(r)))
        return sand(r.eq(M(pos) - j), L["energy"] == E(pos, M, j), L["energy"] <= E(self.xs, M, j),
                    d.s_vdot(r) == pg, pg > 0, L["info"] == -1, it >= 1, it <= hi1, first)

    def entry(self, L):
        self.entry_locals = dict(L)
        if self.relational:
            self.relational.at_entry(L)
        return self.invariant(L)

    def havoc(self, L):
        c = Ctx.cur
        M, j = self.M, self.j
        pos = self.sp.fresh("pos")
        d = self.sp.fresh("d")
        r = M(pos) - j
        energy = E(pos, M, j)
        pg = fresh_real("previous_gamma")
        nfev = fresh_int("nfev")
        it = fresh_int("it")
        hi = L["__hi0"]
        hi1 = ite(_ge(hi, 1), hi, 1)
        c.assume((it >= 1) & (it <= hi1))
        if it == 1:
            # invariant clause "in the first iteration the state is the initial one" (constructive)
            pos = self.xs
            r = M(pos) - j
            d = r
            energy = E(pos, M, j)
            c.assume(pg == r.s_vdot(r))
        c.assume((pg > 0) & (energy <= E(self.xs, M, j)) & (d.s_vdot(r) == pg))
        self.havoc_state = dict(pos=pos, r=r, d=d, energy=energy, gamma=pg, it=it)
        return pos, r, d, energy, pg, nfev, -1, it, it - 1, None, "inf"

    def tail(self, L):
        if self.relational:
            self.relational.at_tail(L)
        return self.invariant(L)


LOOPS = {0: dict(entry="__vc.entry(locals())",
                 havoc="pos, r, d, energy, previous_gamma, nfev, info, __it0, i, norm, energy_diff = __vc.havoc(locals())",
                 inv="__vc.tail(locals())")}


def _extract_eager(sp, M, vc):
    import nifty.re.conjugate_gradient as rcg
    return symx.extract(rcg._cg, loops=LOOPS, rebind=_common_rebind(sp), vc=vc, ghost_return=True)


def _descent_multiple(x, xs, g0):
    """(t, cond): x == xs - t*g0 for the t read off one coordinate"""
    diff = x - xs
    if not g0.c:
        return None, F
    a = sorted(g0.c, key=repr)[0]
    t = SymReal(z3.simplify(-diff.c.get(a, z3.RealVal(0)) / g0.c[a]))
    return t, diff.eq(-(t * g0)) if False else diff.eq((-t) * g0)


def _eager_section(chk, raise_nonposdef, kinds=None):
    import nifty.re.conjugate_gradient as rcg
    chk.assume("A-REAL: floats are real numbers; eps, tiny are arbitrary positive reals")
    chk.assume("norm_ord in {None, 2}; time_threshold=None; name=None")
    chk.assume("A-TERM: termination is not verified")
    sp = Space(selfadjoint=["M"])
    M = LinOp("M")
    vc = V(sp, M)
    f = _extract_eager(sp, M, vc)
    chk.under_contract(f)
    for kind in (kinds or CRITERIA):
        for with_x0 in (False, True):
            def run(ctx, kind=kind, with_x0=with_x0):
                ctx.assume((EPS > 0) & (TINY > 0) & (SIZE >= 1))
                j = sp.atom("j")
                x0 = sp.atom("x0") if with_x0 else None
                vc.start(j, x0)
                cfg = _config(kind)
                maxiter = fresh_int("maxiter")
                ctx.assume(maxiter >= 1)
                use_min = bool(symx.fresh_bool("miniter_given"))
                kw = dict(cfg)
                if use_min:
                    kw["miniter"] = fresh_int("miniter")
                use_max = bool(symx.fresh_bool("maxiter_given"))
                if use_max:
                    kw["maxiter"] = maxiter
                try:
                    res = f(M, j, x0, _raise_nonposdef=raise_nonposdef, **kw)
                except ValueError as e:
                    if raise_nonposdef and ("zero curvature" in str(e) or "negative curvature" in str(e)):
                        ctx.cover("non-positive curvature reported")
                        return
                    ctx.prove(F, "no ValueError other than the zero/negative-curvature report "
                                 "(energy never increases on a positive-curvature step)")
                    return
                L = vc.last_locals
                xs = vc.xs
                ctx.prove(E(res.x, M, j) <= E(xs, M, j), "energy of the result is not above the start")
                succ = res.success if isinstance(res.success, SymBool) else SymBool(z3.BoolVal(bool(res.success)))
                info0 = (res.info == 0) if isinstance(res.info, SymInt) else SymBool(z3.BoolVal(res.info == 0))
                ctx.prove(succ == info0, "success flag equals info == 0")
                rr = M(res.x) - j
                g = rr.s_vdot(rr).real
                crit = g <= L["tiny"]   # the code uses 6*finfo.tiny as "zero"
                nit = res.nit
                if L["resnorm"] is not None:
                    crit = crit | ((rr.norm() < L["resnorm"]) & (nit >= L["miniter"]))
                if L["absdelta"] is not None:
                    crit = crit | ((L["energy"] - E(res.x, M, j) < L["absdelta"]) & (nit >= L["miniter"]))
                nonpd_exit = F
                if not raise_nonposdef and "curv" in L:
                    nonpd_exit = L["curv"] <= 0
                ctx.prove(implies(info0, crit | nonpd_exit),
                          "info == 0 only if the residual/energy criterion is met at the returned point"
                          + ("" if raise_nonposdef else " or non-positive curvature was met"))
                if raise_nonposdef:
                    ctx.prove(implies(snot(info0), (res.info == nit) & (nit == L["maxiter"])),
                              "info != 0 only at the iteration limit, then info == nit == maxiter")
                ctx.prove(nit <= L["maxiter"], "never more than maxiter iterations")
                if kind == "fallback":
                    t = _JNP.maximum(kw["tol"] * j.norm(), kw["atol"])
                    ctx.prove(L["resnorm"] == t, "fallback criterion is resnorm = max(tol*|j|, atol)")
                if not raise_nonposdef and "curv" in L:
                    first_neg = (L["curv"] < 0) & (L["i"] == 1)
                    if bool(first_neg):
                        ctx.cover("first direction has negative curvature")
                        g0 = M(xs) - j
                        t, isdesc = _descent_multiple(res.x, xs, g0)
                        ctx.prove(isdesc & (t > 0),
                                  "negative curvature in the very first direction: the result is start - t*gradient with t > 0 "
                                  "(steepest-descent step)")
            covers = ["non-positive curvature reported"] if raise_nonposdef else ["first direction has negative curvature"]
            chk.explore(run, tag=f"{kind}/{'x0' if with_x0 else 'x0=None'}", covers=covers)


# --------------------------------------------------------------------------- relational
class _Captured(Exception):
    pass


class Rel:
    """compares the eager run with the real compiled-step closure"""

    def __init__(self, ctx, vc, raise_nonposdef):
        self.ctx, self.vc, self.rn = ctx, vc, raise_nonposdef
        self.cap = None

    def closure(self):
        b = self.cap["body"]
        return dict(zip(b.__code__.co_freevars, [c.cell_contents for c in b.__closure__]))

    def at_entry(self, L):
        ctx, v0 = self.ctx, self.cap["val"]
        cl = self.closure()
        ctx.prove(v0["pos"].eq(L["pos"]) & v0["r"].eq(L["r"]) & v0["d"].eq(L["d"]),
                  "initial state: compiled pos, r, d equal the eager ones")
        ctx.prove((v0["gamma"] == L["previous_gamma"]) & (v0["energy"] == L["energy"]) & (v0["iteration"] == 0),
                  "initial state: compiled gamma, energy, iteration equal the eager ones")
        ctx.prove(v0["info"] < -1, "initial state: compiled loop starts exactly when the eager one does (gamma != 0)")
        ctx.prove((cl["miniter"] == L["miniter"]) & (cl["maxiter"] == L["maxiter"]),
                  "effective miniter/maxiter defaults agree (min/max vs jnp.minimum/maximum)")
        same_res = (cl["resnorm"] is None and L["resnorm"] is None) or \
                   (cl["resnorm"] is not None and L["resnorm"] is not None and cl["resnorm"] == L["resnorm"])
        ctx.prove(same_res, "effective resnorm (incl. fallback tol*|j|, atol) agrees")

    def step(self):
        hs = self.vc.havoc_state
        v = {"info": SymInt(z3.IntVal(-2)), "pos": hs["pos"], "r": hs["r"], "d": hs["d"],
             "iteration": hs["it"] - 1, "gamma": hs["gamma"], "energy": hs["energy"]}
        return self.cap["body"](v)

    def at_tail(self, L):
        """eager iteration finished without break; __it0 already incremented"""
        ctx = self.ctx
        out = self.step()
        i = L["i"]
        ctx.prove(out["pos"].eq(L["pos"]) & out["r"].eq(L["r"]) & out["d"].eq(L["d"]),
                  "step (no exit): compiled pos, r, d equal the eager ones")
        ctx.prove((out["gamma"] == L["previous_gamma"]) & (out["energy"] == L["energy"]) & (out["iteration"] == i),
                  "step (no exit): compiled gamma, energy, iteration equal the eager ones")
        ctx.prove((out["info"] < -1) == (i < L["maxiter"]),
                  "step (no exit): compiled loop continues exactly when the eager loop has iterations left")
        ctx.prove(implies(i >= L["maxiter"], out["info"] == i),
                  "step (no exit): at the iteration limit both report info == maxiter")
        ctx.cover("step compared (no exit)")

    def at_break(self, res):
        ctx = self.ctx
        out = self.step()
        ctx.prove(out["info"] == res.info, "step (exit): compiled verdict (info) equals the eager verdict")
        ctx.prove(out["pos"].eq(res.x), "step (exit): compiled solution equals the eager solution")
        ctx.prove(out["iteration"] == res.nit, "step (exit): same number of iterations")
        ctx.cover("step compared (exit)")

    def at_raise(self):
        out = self.step()
        self.ctx.prove(out["info"] == -1, "eager raises on non-positive curvature <=> compiled reports info == -1")


def _relational_section(chk, raise_nonposdef, kinds=None):
    import nifty.re.conjugate_gradient as rcg
    chk.assume("A-REAL; A-JAX: jit is the identity, lax.cond/jnp.where select, while_loop iterates body while cond")
    chk.lemma("induction over iterations: equal initial states and equal steps from every invariant state give equal runs")
    sp = Space(selfadjoint=["M"])
    M = LinOp("M")
    vc = V(sp, M)
    f = _extract_eager(sp, M, vc)
    captured = {}

    def while_loop(cond, body, val):
        captured.update(cond=cond, body=body, val=val)
        raise _Captured()

    def cond(pred, tf, ff, operand):
        a, b = tf(operand), ff(operand)
        return vite(pred, a, b) if isinstance(a, Vec) else ite(pred, a, b)

    class _Jax:
        jit = staticmethod(lambda fn: fn)

    rb = _common_rebind(sp)
    rb.update(jax=_Jax, where=_JNP.where, while_loop=while_loop, cond=cond, callback=lambda *a, **k: None)
    fs = symx.extract(rcg._static_cg, rebind=rb)
    chk.under_contract(f)
    chk.under_contract(fs, note="incl. closures continue_condition and cg_single_step (captured through the while_loop binding)")

    for kind in (kinds or CRITERIA):
        for with_x0 in (False, True):
            def run(ctx, kind=kind, with_x0=with_x0):
                ctx.assume((EPS > 0) & (TINY > 0) & (SIZE >= 1))
                j = sp.atom("j")
                x0 = sp.atom("x0") if with_x0 else None
                vc.start(j, x0)
                cfg = _config(kind)
                kw = dict(cfg)
                if bool(symx.fresh_bool("miniter_given")):
                    kw["miniter"] = fresh_int("miniter")
                if bool(symx.fresh_bool("maxiter_given")):
                    kw["maxiter"] = fresh_int("maxiter")
                    ctx.assume(kw["maxiter"] >= 1)
                rel = Rel(ctx, vc, raise_nonposdef)
                captured.clear()
                try:
                    fs(M, j, x0, _raise_nonposdef=raise_nonposdef, **kw)
                    # early exit without loop is impossible: while_loop is always called
                    ctx.prove(F, "compiled solver reaches while_loop")
                except _Captured:
                    pass
                rel.cap = dict(captured)
                ctx.prove(rel.cap["cond"]({"info": SymInt(z3.IntVal(-2))}) & snot(rel.cap["cond"]({"info": SymInt(z3.IntVal(-1))}))
                          & snot(rel.cap["cond"]({"info": fresh_int("k") * 0})),
                          "compiled loop condition is info < -1")
                vc.relational = rel
                try:
                    res = f(M, j, x0, _raise_nonposdef=raise_nonposdef, **kw)
                except ValueError as e:
                    if "curvature" in str(e):
                        rel.at_raise()
                        return
                    raise
                finally:
                    vc.relational = None
                L = vc.last_locals
                if "__it0" not in L:
                    # returned before the loop: gamma == 0
                    v0 = rel.cap["val"]
                    ctx.prove((v0["info"] == 0) & v0["pos"].eq(res.x),
                              "already converged at start: both return the start with info == 0")
                    return
                if "curv" not in L:
                    # loop ran out after the havoc state without executing the body: nothing to compare
                    return
                rel.at_break(res)
            chk.explore(run, tag=f"{kind}/{'x0' if with_x0 else 'x0=None'}",
                        covers=["step compared (no exit)", "step compared (exit)"])


def _mk(fn, name, rn, kind):
    def sec(chk):
        fn(chk, rn, [kind])
    sec.__name__ = f"sec_{name}_{kind}"
    return sec


def _native(kind):
    def fn(ob):
        import json
        import os
        import subprocess
        import sys
        here = os.path.dirname(os.path.abspath(__file__))
        p = subprocess.run([sys.executable, os.path.join(here, "native", "C15_native.py"), kind],
                           capture_output=True, text=True, timeout=600)
        try:
            return json.loads(p.stdout.strip().splitlines()[-1])
        except Exception:  # noqa: BLE001
            return dict(reproduced=False, error=p.stderr[-500:])
    return fn


REPLAY = {
    "energy of the result is not above the start": _native("energy"),
    "steepest-descent step": _native("descent"),
    "verdict (info) equals": _native("verdict"),
    "compiled solution equals": _native("solution"),
}

SECTIONS = [_mk(_eager_section, "eager_posdef", True, k) for k in CRITERIA] \
    + [_mk(_eager_section, "eager_nonposdef", False, k) for k in CRITERIA] \
    + [_mk(_relational_section, "eager_vs_compiled_posdef", True, k) for k in CRITERIA] \
    + [_mk(_relational_section, "eager_vs_compiled_nonposdef", False, k) for k in CRITERIA]
