"""Native (float, real JAX) replay of C15 counterexample classes: the concrete reading of the
contract on the real _cg/_static_cg for a small fixed family of systems around the solver's model
(first-direction negative curvature; convergence exactly at the iteration limit)."""
import json
import os
import sys

sys.path.insert(0, os.environ.get("VERIF_REPO", "/repo"))
os.environ.setdefault("JAX_PLATFORMS", "cpu")
import jax  # noqa: E402
import jax.numpy as jnp  # noqa: E402

jax.config.update("jax_enable_x64", True)
from nifty.re.conjugate_gradient import _cg, _static_cg  # noqa: E402


def E(A, j, x):
    return float(0.5 * x @ (A @ x) - x @ j)


def main(kind):
    out = []
    systems = [(jnp.diag(jnp.array([-2., -1., -3.])), jnp.array([1., 2., .5]), None),
               (jnp.diag(jnp.array([-1., 2.])), jnp.array([1., .1]), jnp.array([.5, -.25])),
               (jnp.diag(jnp.array([1., 3.])), jnp.array([1., 2.]), None),
               (jnp.diag(jnp.array([1., 3., 7.])), jnp.array([1., 2., -1.]), jnp.array([0., 1., 0.]))]
    for A, j, x0 in systems:
        mat = lambda x, A=A: A @ x  # noqa: E731
        n = len(j)
        xs = jnp.zeros_like(j) if x0 is None else x0
        for kw in (dict(resnorm=1e-6, maxiter=n, miniter=0), dict(absdelta=1e-9, maxiter=n, miniter=0),
                   dict(resnorm=1e-6, maxiter=50)):
            try:
                a = _cg(mat, j, x0, _raise_nonposdef=False, **kw)
                b = _static_cg(mat, j, x0, _raise_nonposdef=False, **kw)
            except Exception as e:  # noqa: BLE001
                out.append(dict(case=str(kw), error=repr(e)))
                continue
            rec = dict(A=[float(v) for v in jnp.diag(A)], j=[float(v) for v in j], x0=None if x0 is None else [float(v) for v in x0],
                       kw={k: v for k, v in kw.items()}, eager=dict(x=[float(v) for v in a.x], info=int(a.info)),
                       static=dict(x=[float(v) for v in b.x], info=int(b.info)),
                       E_start=E(A, j, xs), E_eager=E(A, j, a.x), E_static=E(A, j, b.x))
            fails = []
            if rec["E_eager"] > rec["E_start"] + 1e-12:
                fails.append("eager: energy of the result is above the start")
            if rec["E_static"] > rec["E_start"] + 1e-12:
                fails.append("compiled: energy of the result is above the start")
            if int(a.info) != int(b.info):
                fails.append("verdict (info) differs between eager and compiled")
            if not bool(jnp.allclose(a.x, b.x, rtol=1e-9, atol=1e-12)):
                fails.append("solution differs between eager and compiled")
            g0 = A @ xs - j
            if float(g0 @ (A @ g0)) < 0:  # first direction has negative curvature
                d = a.x - xs
                t = -float(d @ g0) / float(g0 @ g0)
                if not (t > 0 and bool(jnp.allclose(d, -t * g0, atol=1e-12))):
                    fails.append("first direction has negative curvature but the result is not start - t*gradient, t>0")
            rec["fails"] = fails
            out.append(rec)
    bad = [r for r in out if r.get("fails")]
    want = {"energy": "energy of the result", "verdict": "verdict", "solution": "solution differs", "descent": "not start - t"}[kind]
    hit = [r for r in bad if any(want in f for f in r["fails"])]
    print(json.dumps(dict(reproduced=bool(hit), how="real _cg/_static_cg run natively (float64) on a fixed family of small systems",
                          failing_inputs=hit[:2], cases=len(out))))


if __name__ == "__main__":
    main(sys.argv[1])
