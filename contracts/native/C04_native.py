"""Native replay for C04: float64, the real classes.  argv[1] = 'hamiltonian' | 'vcge'"""
import json
import os
import sys

sys.path.insert(0, os.environ.get("VERIF_REPO", "/repo"))
import numpy as np  # noqa: E402
import nifty.cl as ift  # noqa: E402


def hamiltonian():
    dom = ift.UnstructuredDomain(3)
    a, b = ift.FieldAdapter(dom, "a"), ift.FieldAdapter(dom, "b")
    lh = ift.GaussianEnergy(data=ift.makeField(dom, np.array([1., 2., 3.]))) @ (a.exp() * b)
    H = ift.StandardHamiltonian(lh, prior_sampling_dtype=float)
    x = ift.MultiField.from_dict({"a": ift.makeField(dom, np.array([0.3, -0.8, 1.1])), "b": ift.makeField(dom, np.array([0.5, 1.5, -0.25]))})
    _, H2 = H.simplify_for_constant_input(x.extract_by_keys(["a"]))
    v0, v1 = float(H(x).asnumpy()), float(H2(x.extract_by_keys(["b"])).asnumpy())
    fails = [] if abs(v0 - v1) <= 1e-12 * abs(v0) else [f"H(a,b) = {v0!r}, specialised to constant a: {v1!r}; difference {v0 - v1!r} = 1/2 |a|^2"]
    try:
        ift.extra.check_operator(H, x, ntries=1)
        lib = "ift.extra.check_operator(H, x) passes"
    except AssertionError:
        lib = "the library's own ift.extra.check_operator(H, x) raises AssertionError in _check_nontrivial_constant"
    return dict(reproduced=bool(fails), how="StandardHamiltonian.simplify_for_constant_input with constant key 'a', float64", failing_inputs=fails,
                library_check=lib)


def vcge():
    dom = ift.UnstructuredDomain(2)
    V = ift.VariableCovarianceGaussianEnergy(dom, "r", "i", float, use_full_fisher=False)
    x = ift.MultiField.from_dict({"r": ift.makeField(dom, np.array([0.5, -1.25])), "i": ift.makeField(dom, np.array([0.75, 1.5]))})
    _, V2 = V.simplify_for_constant_input(x.extract_by_keys(["r"]))
    t = ift.MultiField.from_dict({"i": ift.makeField(dom, np.array([1., 1.]))})
    m_new = V2(ift.Linearization.make_var(x.extract_by_keys(["i"]), want_metric=True)).metric(t)["i"].asnumpy()
    lin = V(ift.Linearization.make_partial_var(x, ["r"], want_metric=True))
    m_orig = lin.metric(t.unite(ift.MultiField.from_dict({"r": ift.makeField(dom, np.zeros(2))})))["i"].asnumpy()
    fails = [] if np.allclose(m_new, m_orig, rtol=1e-12) else [f"metric of the specialised energy on 'i': {m_new.tolist()}, 'i' block of the original metric: {m_orig.tolist()}"]
    return dict(reproduced=bool(fails), how="VariableCovarianceGaussianEnergy(use_full_fisher=False), constant residual key, float64", failing_inputs=fails)


if __name__ == "__main__":
    print(json.dumps(dict(hamiltonian=hamiltonian, vcge=vcge)[sys.argv[1]]()))
