"""Native replay for C36: classic minisanity vs nifty.re reduced_residual_stats on the same latent samples (float64)."""
import json
import os
import sys

sys.path.insert(0, os.environ.get("VERIF_REPO", "/repo"))
os.environ.setdefault("JAX_PLATFORMS", "cpu")
import jax  # noqa: E402

jax.config.update("jax_enable_x64", True)
import jax.numpy as jnp  # noqa: E402
import numpy as np  # noqa: E402
import nifty.cl as ift  # noqa: E402
import nifty.re as jft  # noqa: E402


def main():
    dom = ift.UnstructuredDomain(4)
    x = np.array([[-0.5, 0., -1., 2.]])
    lh = ift.GaussianEnergy(data=ift.makeField(dom, np.array([0.5, -1.25, 2., 0.75]))) @ ift.FieldAdapter(dom, "a")
    sl = ift.SampleList([ift.MultiField.from_dict({"a": ift.makeField(dom, r)}) for r in x])
    _, val = ift.extra.minisanity(lh, sl, terminal_colors=False, return_values=True)
    c = (float(val["redchisq"]["latent_variables"]["a"]["mean"]), int(val["ndof"]["latent_variables"]["a"]), int(val["nigndof"]["latent_variables"]["a"]))
    st = jft.reduced_residual_stats(jft.Samples(pos=None, samples=jnp.asarray(x)), map="vmap")
    j = (float(st.reduced_chisq[0]), int(st.ndof))
    fails = [] if (abs(c[0] - j[0]) < 1e-12 and c[1] == j[1]) else [
        f"latent sample (-0.5, 0, -1, 2): classic reduced chi-square {c[0]} with ndof {c[1]} and {c[2]} ignored entry; JAX reduced chi-square {j[0]} with ndof {j[1]} and no ignored count"]
    print(json.dumps(dict(reproduced=bool(fails), how="classic ift.extra.minisanity vs jft.reduced_residual_stats on the same sample, float64", failing_inputs=fails)))


if __name__ == "__main__":
    main()
