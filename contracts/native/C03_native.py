"""Native replay for C03 (Linearization.outer): float64, the real classes, central finite differences as the oracle."""
import json
import os
import sys

sys.path.insert(0, os.environ.get("VERIF_REPO", "/repo"))
import numpy as np  # noqa: E402
import nifty.cl as ift  # noqa: E402


def main():
    dx, dc = ift.UnstructuredDomain(2), ift.UnstructuredDomain(3)
    x = ift.makeField(dx, np.array([0.7, 1.3]))
    c = ift.makeField(dc, np.array([0.5, -1.5, 2.]))
    t = ift.makeField(dx, np.array([0.3, -0.2]))
    out = []
    lin = ift.Linearization.make_var(x).outer(c)
    want = np.multiply.outer(t.asnumpy(), c.asnumpy())          # d/de outer(x + e t, c)
    rec = dict(case="Linearization.make_var(x).outer(c), x on 2 pixels, c a Field on 3 pixels",
               jacobian_domain=str(lin.jac.domain), input_domain=str(x.domain))
    try:
        got = lin.jac(t).asnumpy()
        rec["fails"] = [] if np.allclose(got, want) else [f"J t = {got.tolist()}, derivative {want.tolist()}"]
    except Exception as e:  # noqa: BLE001
        rec["fails"] = [f"the Jacobian does not accept a tangent on the input domain: {type(e).__name__}"]
    out.append(rec)
    # same domain for both factors: the call goes through and returns x (x) t instead of t (x) c
    c2 = ift.makeField(dx, np.array([0.5, -1.5]))
    lin = ift.Linearization.make_var(x).outer(c2)
    got, want = lin.jac(t).asnumpy(), np.multiply.outer(t.asnumpy(), c2.asnumpy())
    out.append(dict(case="Linearization.make_var(x).outer(c), both on the same 2-pixel domain",
                    fails=[] if np.allclose(got, want) else [f"J t = {got.tolist()}, derivative {want.tolist()}"]))
    hits = [r for r in out if r["fails"]]
    print(json.dumps(dict(reproduced=bool(hits), how="real Linearization.outer in float64 against the exact derivative t (x) c of the bilinear map",
                          failing=len(hits), cases=len(out), failing_inputs=hits)))


if __name__ == "__main__":
    main()
