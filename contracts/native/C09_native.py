"""Native replay for C09: dense matrices of the real FFT / Hartley operators (ducc back end, float64) on product domains."""
import json
import os
import sys

sys.path.insert(0, os.environ.get("VERIF_REPO", "/repo"))
import numpy as np  # noqa: E402
import nifty.cl as ift  # noqa: E402


def dense(op, mode):
    dom = op.domain if mode in ("times", "adjoint_inverse_times") else op.target
    n = dom.size
    cols = []
    for i in range(n):
        e = np.zeros(n)
        e[i] = 1.
        cols.append(getattr(op, mode)(ift.makeField(dom, e.reshape(dom.shape))).asnumpy().reshape(-1))
    return np.array(cols).T


def main():
    other = ift.RGSpace(2, distances=0.3)
    out = []
    for name, doms, space in (("RG(4, d=0.5) x RG(2, d=0.3), space 0", (ift.RGSpace(4, distances=0.5), other), 0),
                              ("RG(2, d=0.3) x RG(3, d=2), space 1", (other, ift.RGSpace(3, distances=2.)), 1),
                              ("RG(4, d=0.5)", (ift.RGSpace(4, distances=0.5),), 0)):
        for cls in (ift.FFTOperator, ift.HartleyOperator):
            op = cls(ift.DomainTuple.make(doms), space=space)
            T, A, Iv, AI = (dense(op, m) for m in ("times", "adjoint_times", "inverse_times", "adjoint_inverse_times"))
            fails = []
            if not np.allclose(A, T.conj().T, rtol=1e-12, atol=1e-13):
                fails.append(f"adjoint_times != times^H (max deviation {np.max(np.abs(A - T.conj().T)):.3g})")
            if not np.allclose(Iv @ T, np.eye(T.shape[1]), atol=1e-12):
                fails.append("inverse_times o times != identity")
            if not np.allclose(AI, Iv.conj().T, rtol=1e-12, atol=1e-13):
                fails.append(f"adjoint_inverse_times != inverse_times^H (max deviation {np.max(np.abs(AI - Iv.conj().T)):.3g})")
            g = doms[space]
            x = np.arange(1., 1 + op.domain.size).reshape(op.domain.shape)
            zero = op(ift.makeField(op.domain, x)).asnumpy()
            integ = (x * g.scalar_dvol).sum(axis=op.domain.axes[space])
            z = zero[tuple(0 if a in op.domain.axes[space] else slice(None) for a in range(x.ndim))]
            if not np.allclose(z, integ, rtol=1e-12):
                fails.append("the zero mode of the transform is not the integral over the transformed space")
            out.append(dict(case=f"{cls.__name__} on {name}", fails=fails))
    hits = [r for r in out if r["fails"]]
    print(json.dumps(dict(reproduced=bool(hits), how="dense matrices of the real operators with the ducc back end, float64", failing=len(hits), cases=len(out), failing_inputs=hits)))


if __name__ == "__main__":
    main()
