"""Native replay for C24: the real nifty.re.optimize_kl on a tiny model with a real directory.
  (a) the process 'dies' in the middle of writing last.pkl (half of the bytes written) -> resume must not raise
  (b) the process dies right after an iteration's files are closed -> resume must finish with the same samples/state
"""
import json
import os
import pickle
import shutil
import sys
import tempfile

sys.path.insert(0, os.environ.get("VERIF_REPO", "/repo"))
os.environ.setdefault("JAX_PLATFORMS", "cpu")
import jax  # noqa: E402
import jax.numpy as jnp  # noqa: E402

jax.config.update("jax_enable_x64", True)
import nifty.re as jft  # noqa: E402

okl = sys.modules["nifty.re.optimize_kl"]


class Kill(BaseException):
    pass


def model():
    lh = jft.Gaussian(jnp.array([1., -2., .5]), noise_std_inv=lambda x: 2. * x).amend(lambda x: jnp.tanh(x["a"]) + x["b"])
    pos = {"a": jnp.array([.1, .2, .3]), "b": jnp.array([0., .1, -.1])}
    return lh, jft.Vector(pos)


def run(odir, resume, n_it, sample_mode, callback=None):
    lh, pos = model()
    return jft.optimize_kl(lh, pos, key=jax.random.PRNGKey(3), n_total_iterations=n_it, n_samples=2, odir=odir, resume=resume,
                           sample_mode=sample_mode, callback=callback,
                           draw_linear_kwargs=dict(cg_name=None, cg_kwargs=dict(absdelta=1e-8, maxiter=20)),
                           nonlinearly_update_kwargs=dict(minimize_kwargs=dict(name=None, xtol=1e-4, cg_kwargs=dict(name=None), maxiter=3)),
                           kl_kwargs=dict(minimize_kwargs=dict(name=None, cg_kwargs=dict(name=None), maxiter=3)))


def flat(samples, st):
    leaves = jax.tree_util.tree_leaves((samples.pos, samples._samples, samples.keys, st.key, st.nit))
    return [jnp.asarray(x).tolist() for x in leaves]


def main(kind):
    out = []
    tmp = tempfile.mkdtemp(prefix="verif-c24-")
    try:
        n_it = 3
        for mode in ("linear_sample", "nonlinear_resample"):
            ref = run(os.path.join(tmp, f"ref-{mode}"), False, n_it, mode)
            # (a) die in the middle of writing last.pkl during iteration 2
            d = os.path.join(tmp, f"a-{mode}")
            real = okl.pickle
            state = dict(n=0)

            class P:
                load = staticmethod(pickle.load)
                HIGHEST_PROTOCOL = pickle.HIGHEST_PROTOCOL

                @staticmethod
                def dump(obj, f, *a):
                    state["n"] += 1
                    if state["n"] == 2:
                        data = pickle.dumps(obj)
                        f.write(data[:len(data) // 2])
                        f.flush()
                        raise Kill()
                    return pickle.dump(obj, f, *a)
            okl.pickle = P
            try:
                run(d, False, n_it, mode)
            except Kill:
                pass
            finally:
                okl.pickle = real
            rec = dict(case=f"(a) killed while writing last.pkl, iteration 2, sample_mode={mode}")
            try:
                res = run(d, True, n_it, mode)
                rec["fails"] = [] if flat(*res) == flat(*ref) else ["resumed result differs from the uninterrupted run"]
            except Exception as e:  # noqa: BLE001
                rec["fails"] = [f"resume raises {type(e).__name__}: {e}"]
            out.append(rec)
            # (b) die right after iteration k has been persisted
            for k in (1, 2):
                d = os.path.join(tmp, f"b-{mode}-{k}")

                def cb(s, st, k=k):
                    if st.nit == k:
                        raise Kill()
                try:
                    run(d, False, n_it, mode, callback=cb)
                except Kill:
                    pass
                rec = dict(case=f"(b) killed after iteration {k} was persisted, sample_mode={mode}")
                try:
                    res = run(d, True, n_it, mode)
                    rec["fails"] = [] if flat(*res) == flat(*ref) else ["resumed result differs from the uninterrupted run"]
                except Exception as e:  # noqa: BLE001
                    rec["fails"] = [f"resume raises {type(e).__name__}: {e}"]
                out.append(rec)
    finally:
        shutil.rmtree(tmp, ignore_errors=True)
    hits = [r for r in out if r["fails"]]
    print(json.dumps(dict(reproduced=bool(hits), how="real nifty.re.optimize_kl on a 3-pixel model in a temporary directory; the crash "
                          "is a BaseException raised inside the write (half of the bytes on disk) or from the callback",
                          failing_inputs=hits[:3], cases=len(out))))


if __name__ == "__main__":
    main(sys.argv[1] if len(sys.argv) > 1 else "any")
