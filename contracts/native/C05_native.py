"""Native replay for C05: float64, the real optimiser.  Two shapes: the same chain object in two slots; nested shared subtrees."""
import json
import os
import sys
from copy import deepcopy

sys.path.insert(0, os.environ.get("VERIF_REPO", "/repo"))
import numpy as np  # noqa: E402
import nifty.cl as ift  # noqa: E402
from nifty.cl.operator_tree_optimiser import _optimise_operator, optimise_operator  # noqa: E402


def main():
    dom = ift.UnstructuredDomain(3)
    a, b, c = (ift.FieldAdapter(dom, k) for k in "abc")
    base = a.exp()
    l1, l3 = base.exp(), base.tanh()
    n2 = c.arctan() + b.sin()
    m2 = n2 * a
    trees = {"l1*l1 + l3 (l1 = exp(exp a), l3 = tanh(exp a): the same chain object as two leaves of a partially common group)": l1 * l1 + l3,
             "m*m + n (m = n*a, n = arctan c + sin b: nested shared subtrees)": m2 * m2 + n2}
    out = []
    for name, op in trees.items():
        x = ift.MultiField.from_dict({k: ift.makeField(dom, np.array([0.3, -0.8, 1.1]) * (i + 1)) for i, k in enumerate(sorted(op.domain.keys()))})
        fails = []
        core = _optimise_operator(deepcopy(op))
        if core.domain is not op.domain:
            fails.append(f"_optimise_operator: result is defined on keys {list(core.domain.keys())} instead of {list(op.domain.keys())}")
        elif not np.allclose(core(x).asnumpy(), op(x).asnumpy(), rtol=1e-12):
            fails.append(f"_optimise_operator: value {core(x).asnumpy().tolist()} instead of {op(x).asnumpy().tolist()}")
        try:
            optimise_operator(op)
        except (AssertionError, ValueError) as e:
            fails.append(f"optimise_operator(op) raises {type(e).__name__}")
        out.append(dict(case=name, fails=fails))
    hits = [r for r in out if r["fails"]]
    print(json.dumps(dict(reproduced=bool(hits), how="real optimiser in float64 against the original operator", failing=len(hits), cases=len(out),
                          failing_inputs=hits)))


if __name__ == "__main__":
    main()
