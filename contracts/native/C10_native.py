"""Native replay for C10: create_power_operator with a spectrum given as a Field on the power space (float64)."""
import json
import os
import sys

sys.path.insert(0, os.environ.get("VERIF_REPO", "/repo"))
import numpy as np  # noqa: E402
import nifty.cl as ift  # noqa: E402


def main():
    h = ift.RGSpace(4, distances=0.5, harmonic=True)
    ps = ift.PowerSpace(h)
    s = ift.makeField(ps, np.array([1., 2., 3.]))
    fails = []
    try:
        op = ift.create_power_operator(h, s)
        got = op(ift.full(h, 1.)).asnumpy()
        want = s.asnumpy()[np.asarray(ps.pindex)]
        if not np.array_equal(got, want):
            fails.append(f"diagonal {got.tolist()} instead of the distributed spectrum {want.tolist()}")
    except TypeError as e:
        fails.append(f"create_power_operator(RGSpace(4, harmonic), Field([1,2,3]) on its PowerSpace) raises TypeError({e}): a Field is an "
                     "Operator and therefore callable, so the 'callable spectrum' branch calls it with the k-lengths")
    print(json.dumps(dict(reproduced=bool(fails), how="real create_power_operator in float64", failing_inputs=fails)))


if __name__ == "__main__":
    main()
