"""Native replay for C02 (float64 / complex128, the real classes).  argv[1] = 'outer' | 'slice'"""
import json
import os
import sys

sys.path.insert(0, os.environ.get("VERIF_REPO", "/repo"))
import numpy as np  # noqa: E402
import nifty.cl as ift  # noqa: E402


def outer():
    fld = ift.makeField(ift.UnstructuredDomain(2), np.array([1 + 2j, 0.5 - 1j]))
    op = ift.OuterProduct(ift.DomainTuple.make(ift.RGSpace(3)), fld)
    x = ift.makeField(op.domain, np.array([1., 2 + 1j, -1j]))
    s = ift.makeField(op.target, (np.arange(6.) + 1j * np.arange(6)[::-1]).reshape(2, 3))
    lhs, rhs = s.s_vdot(op(x)), op.adjoint_times(s).s_vdot(x)
    fails = [] if np.isclose(lhs, rhs) else [f"OuterProduct with the complex field (1+2j, 0.5-1j): <s, A x> = {lhs} but <A^H s, x> = {rhs} (the adjoint does not conjugate the field)"]
    return dict(reproduced=bool(fails), how="OuterProduct.adjoint_times with a complex field, complex128", failing_inputs=fails)


def slice_():
    fails = []
    rg = ift.RGSpace((2, 3), distances=(0.5, 2.))
    x = ift.makeField(rg, np.arange(6.).reshape(2, 3))
    for center in (False, True):
        try:
            op = ift.SliceOperator(rg, ((2, 2),), center=center)
            got = op(x).asnumpy()
            if got.shape != (2, 2):
                fails.append(f"SliceOperator(RG(2,3), ((2,2),), center={center}) returns shape {got.shape}")
        except Exception as e:  # noqa: BLE001
            fails.append(f"SliceOperator(RG(2,3), ((2,2),), center={center}): {type(e).__name__}: {str(e).splitlines()[0]}")
    dt = ift.DomainTuple.make((ift.RGSpace(4, distances=.25), ift.UnstructuredDomain(2)))
    try:
        ift.SliceOperator(dt, ((2,), None), center=True)
    except Exception as e:  # noqa: BLE001
        fails.append(f"SliceOperator((4,)x(2,), ((2,), None), center=True): {type(e).__name__}: {e}")
    return dict(reproduced=bool(fails), how="SliceOperator constructions documented as admissible, float64", failing_inputs=fails)


def sandwich():
    dom = ift.DomainTuple.make(ift.RGSpace(3, distances=0.5))
    cheese = ift.makeOp(ift.makeField(dom, np.array([0.5, 2., 3.])))
    x = ift.makeField(dom, np.array([1. + 1j, -2j, 0.25]))
    fails = []
    for fac in (1.5 - 2j, 2j, -3.):
        bun = ift.ScalingOperator(dom, fac)
        try:
            got = ift.SandwichOperator.make(bun, cheese)(x).asnumpy()
        except Exception as e:  # noqa: BLE001
            fails.append(f"SandwichOperator.make(ScalingOperator({fac}), diagonal cheese): {type(e).__name__}: {e}")
            continue
        want = bun.adjoint_times(cheese(bun(x))).asnumpy()
        if not np.allclose(got, want, rtol=1e-13):
            fails.append(f"SandwichOperator.make(ScalingOperator({fac}), cheese)(x) = {got.tolist()} but bun^H(cheese(bun(x))) = {want.tolist()}")
    return dict(reproduced=bool(fails), how="SandwichOperator.make against its documented definition bun^H cheese bun, complex128", failing_inputs=fails)


if __name__ == "__main__":
    print(json.dumps(dict(outer=outer, slice=slice_, sandwich=sandwich)[sys.argv[1]]()))
