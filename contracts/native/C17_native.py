"""Native (float64, real JAX) replay of C17 counterexample classes on the real newton_cg / static_newton_cg."""
import json
import os
import sys

sys.path.insert(0, os.environ.get("VERIF_REPO", "/repo"))
os.environ.setdefault("JAX_PLATFORMS", "cpu")
import jax  # noqa: E402
import jax.numpy as jnp  # noqa: E402

jax.config.update("jax_enable_x64", True)
from nifty.re.optimize import _newton_cg, _static_newton_cg  # noqa: E402


def run(fun, x0, **kw):
    a = _newton_cg(fun, x0, **kw)
    b = _static_newton_cg(fun, x0, **kw)
    return dict(kw={k: (float(v) if v is not None else None) for k, v in kw.items()},
                eager=dict(x=[float(v) for v in jnp.atleast_1d(a.x)], status=int(a.status), fun=float(a.fun), nit=int(a.nit)),
                compiled=dict(x=[float(v) for v in jnp.atleast_1d(b.x)], status=int(b.status), fun=float(b.fun), nit=int(b.nit)),
                f_start=float(fun(x0)))


def main(kind):
    out = []
    # (1) line search succeeds on the second trial and the energy change is below absdelta
    f1 = lambda x: jnp.sum(jnp.sqrt(1. + x ** 2))  # noqa: E731
    out.append(("second-trial", run(f1, jnp.array([1.2]), absdelta=1.0, miniter=0, maxiter=20)))
    # (2) previous energy exactly 0.0: eager treats it as 'unknown'
    n = 200
    A = jnp.diag(jnp.logspace(0, 6, n))
    b = jnp.ones(n)
    f2 = lambda x: 0.5 * x @ (A @ x) - b @ x - 1000.  # noqa: E731
    out.append(("old-fval-zero", run(f2, jnp.zeros(n), old_fval=0.0, energy_reduction_factor=0.1, miniter=0, maxiter=1)))
    # (3) negative curvature along the gradient
    f3 = lambda x: jnp.sum(jnp.cos(x))  # noqa: E731
    out.append(("negcurv", run(f3, jnp.array([.3, .5]), maxiter=5)))
    hits = []
    for name, r in out:
        fails = []
        if r["eager"]["status"] != r["compiled"]["status"]:
            fails.append("verdict")
        if max(abs(u - v) for u, v in zip(r["eager"]["x"], r["compiled"]["x"])) > 1e-3:
            fails.append("result")
        if r["eager"]["fun"] > r["f_start"] + 1e-12 or r["compiled"]["fun"] > r["f_start"] + 1e-12:
            fails.append("uphill")
        if name == "negcurv" and (r["eager"]["fun"] >= r["f_start"] or r["compiled"]["fun"] >= r["f_start"]):
            fails.append("noprogress")
        r["case"], r["fails"] = name, fails
        if kind in fails or (kind == "any" and fails):
            hits.append(r)
    print(json.dumps(dict(reproduced=bool(hits), how="real _newton_cg/_static_newton_cg run natively (float64)",
                          failing_inputs=hits[:2], cases=len(out))))


if __name__ == "__main__":
    main(sys.argv[1] if len(sys.argv) > 1 else "any")
