"""Native replay for C12 (Categorical): float64, the real class.  argv[1] = 'batch' | 'lsm_shape'"""
import json
import os
import sys

sys.path.insert(0, os.environ.get("VERIF_REPO", "/repo"))
os.environ.setdefault("JAX_PLATFORMS", "cpu")
import jax  # noqa: E402

jax.config.update("jax_enable_x64", True)
import jax.numpy as jnp  # noqa: E402
import numpy as np  # noqa: E402
import nifty.re as jft  # noqa: E402


def fisher_rows(X, T):
    P = jax.nn.softmax(X, axis=-1)
    return jnp.stack([(jnp.diag(P[i]) - jnp.outer(P[i], P[i])) @ T[i] for i in range(X.shape[0])])


def batch():
    lh = jft.Categorical(jnp.asarray(np.array([[2], [0]])), axis=-1)
    X = jnp.asarray([[0.3, -0.2, 1.1], [0.5, 0.1, -0.7]])
    T = jnp.asarray([[1., 2., -0.5], [0.3, -1., 2.]])
    got, want = np.asarray(lh.metric(X, T)), np.asarray(fisher_rows(X, T))
    fails = [] if np.allclose(got, want, rtol=1e-10) else [f"two data points with logits {X.tolist()}: metric(t) = {got.tolist()}, per-datum Fisher information times t = {want.tolist()}"]
    return dict(reproduced=bool(fails), how="Categorical.metric on a batch of two data points, float64", failing_inputs=fails)


def lsm_shape():
    lh = jft.Categorical(jnp.asarray(np.array([1])), axis=-1)
    x, t = jnp.asarray([0.3, -0.2, 1.1]), jnp.asarray([1., 2., -0.5])
    m = np.asarray(lh.metric(x, t))
    lr = np.asarray(lh.left_sqrt_metric(x, lh.right_sqrt_metric(x, t)))
    shp = jax.tree_util.tree_leaves(lh.lsm_tangents_shape, is_leaf=lambda s: hasattr(s, "shape"))[0].shape
    fails = [] if np.allclose(m, lr, rtol=1e-10) else [f"logits {x.tolist()}: metric(t) = {m.tolist()} but left_sqrt_metric(right_sqrt_metric(t)) = {lr.tolist()}; "
                                                       f"lsm_tangents_shape is the data shape {tuple(shp)}, the left square root acts on {tuple(x.shape)}"]
    return dict(reproduced=bool(fails), how="Categorical: metric vs left o right square root, float64", failing_inputs=fails)


if __name__ == "__main__":
    print(json.dumps(dict(batch=batch, lsm_shape=lsm_shape)[sys.argv[1]]()))
