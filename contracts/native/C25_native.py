"""Native replay for C25: the real classic optimize_kl on a tiny model in a real temporary directory.
The process 'dies' (a BaseException) (a) in the middle of the k-th pickle.dump (half of the bytes on disk),
(b) right before / right after the k-th os.replace, (c) right after the k-th write to last_finished_iteration's
file handle; then optimize_kl(resume=True) must return the final mean and samples of the uninterrupted run bit for bit.
usage: C25_native.py <all|latest|any>"""
import builtins
import json
import os
import pickle
import shutil
import sys
import tempfile

sys.path.insert(0, os.environ.get("VERIF_REPO", "/repo"))
import numpy as np  # noqa: E402
import nifty.cl as ift  # noqa: E402
import nifty.cl.minimization.optimize_kl as okl  # noqa: E402
import nifty.cl.minimization.sample_list as slm  # noqa: E402
from nifty.cl.logger import logger  # noqa: E402

logger.setLevel(100)


class Kill(BaseException):
    pass


def model():
    dom = ift.UnstructuredDomain(3)
    a, b = ift.FieldAdapter(dom, "a"), ift.FieldAdapter(dom, "b")
    lh = ift.GaussianEnergy(data=ift.makeField(dom, np.array([1., 2., 3.])),
                            inverse_covariance=ift.ScalingOperator(ift.DomainTuple.make(dom), 4., sampling_dtype=float)) @ (a.exp() * b)
    return lh


def run(odir, resume, strategy, n_samples):
    rnd = ift.random
    depth = len(rnd._sseq)
    rnd.push_sseq_from_seed(11)
    try:
        sl, mean = ift.optimize_kl(model(), 3, n_samples, ift.NewtonCG(ift.GradientNormController(iteration_limit=3)),
                                   ift.AbsDeltaEnergyController(1e-4, iteration_limit=10), output_directory=odir,
                                   resume=resume, save_strategy=strategy, plot_energy_history=False,
                                   plot_minisanity_history=False, return_final_position=True)
    finally:
        while len(rnd._sseq) > depth:      # a killed run leaves its seed sequences on the stack
            rnd.pop_sseq()
    def ser(x):
        if isinstance(x, ift.MultiField):
            return {k: v.asnumpy().tobytes() for k, v in x.items()}
        return x.asnumpy().tobytes()
    return [ser(s) for s in sl.iterator()], ser(mean)


class Faults:
    """counts persistence events of the real modules and kills at a chosen one"""

    def __init__(self):
        self.kind, self.at, self.n = None, None, {}

    def hit(self, kind):
        self.n[kind] = self.n.get(kind, 0) + 1
        return self.kind == kind and self.n[kind] == self.at


def install(f):
    real_dump, real_replace = pickle.dump, os.replace

    class P:
        load = staticmethod(pickle.load)
        loads = staticmethod(pickle.loads)
        dumps = staticmethod(pickle.dumps)
        HIGHEST_PROTOCOL = pickle.HIGHEST_PROTOCOL

        @staticmethod
        def dump(obj, fh, *a):
            if f.hit("dump"):
                data = pickle.dumps(obj)
                fh.write(data[:len(data) // 2])
                fh.flush()
                raise Kill()
            return real_dump(obj, fh, *a)

    def _replace(a, b):
        if f.hit("before-replace"):
            raise Kill()
        real_replace(a, b)
        if f.hit("after-replace"):
            raise Kill()

    class OS:
        path = os.path
        remove = staticmethod(os.remove)
        listdir = staticmethod(os.listdir)
        replace = staticmethod(_replace)
    saved = (okl.pickle, slm.pickle, slm.os, getattr(okl, "replace", None))
    okl.pickle = slm.pickle = P
    slm.os = OS
    if hasattr(okl, "replace"):
        okl.replace = _replace
    return saved


def uninstall(saved):
    okl.pickle, slm.pickle, slm.os = saved[0], saved[1], saved[2]
    if saved[3] is not None:
        okl.replace = saved[3]


def main(which):
    out = []
    tmp = tempfile.mkdtemp(prefix="verif-c25-")
    try:
        for strategy in (("all", "latest") if which == "any" else (which,)):
            for n_samples in (2, 0):
                ref = run(os.path.join(tmp, f"ref-{strategy}-{n_samples}"), False, strategy, n_samples)
                f = Faults()
                saved = install(f)
                try:
                    run(os.path.join(tmp, f"count-{strategy}-{n_samples}"), False, strategy, n_samples)
                    counts = dict(f.n)
                    for kind, total in counts.items():
                        for k in range(1, total + 1):
                            d = os.path.join(tmp, f"{strategy}-{n_samples}-{kind}-{k}")
                            f.kind, f.at, f.n = kind, k, {}
                            try:
                                run(d, False, strategy, n_samples)
                            except Kill:
                                pass
                            f.kind, f.at, f.n = None, None, {}
                            rec = dict(case=f"save_strategy={strategy} n_samples={n_samples}: killed at {kind} #{k} of {total}")
                            try:
                                got = run(d, True, strategy, n_samples)
                                rec["fails"] = [] if got == ref else ["silently wrong: resumed samples/mean differ from the uninterrupted run"]
                            except Exception as e:  # noqa: BLE001
                                rec["fails"] = [f"resume raises {type(e).__name__}: {str(e)[:100]}"]
                            out.append(rec)
                            shutil.rmtree(d, ignore_errors=True)
                finally:
                    uninstall(saved)
    finally:
        shutil.rmtree(tmp, ignore_errors=True)
    hits = [r for r in out if r["fails"]]
    print(json.dumps(dict(reproduced=bool(hits), how="real classic optimize_kl on a 3-pixel model in a temporary directory; kills inside "
                          "pickle.dump (half-written file) and around os.replace", failing=len(hits), cases=len(out),
                          failing_inputs=hits[:6])))


if __name__ == "__main__":
    main(sys.argv[1] if len(sys.argv) > 1 else "any")
