"""C27 The classic VI driver accepts every documented configuration -- the parts a contract can state.

  rng_balance (proof): the real optimize_kl (re-compiled; main loop cut with the invariant "depth of the global
      RNG stack == depth at entry"; everything numerical is an abstract object) returns with the RNG stack as deep
      as it found it, on every path through an iteration (dry run, zero samples, sampled KL, terminate callback...).
      push_sseq/pop_sseq are their contracts from C21 (depth +1 / -1).
  options (bounded, native): a pairwise covering array over the documented options on a tiny model through the
      real driver, with run-time contracts: completes, result shape follows the options, RNG stack depth unchanged.
"""
import contextlib
import io
import itertools
import os
import shutil
import tempfile

import z3

from vf import symx
from vf.anyobj import Any
from vf.symx import Ctx, SymBool, SymInt, fresh_bool, fresh_int

META = dict(
    title="The classic VI driver accepts every documented configuration",
    level="other",
    design_ref="DESIGN.md section 4, C27",
    technique="deductive verification of the RNG stack discipline of the real driver (loop invariant on the re-compiled "
              "source, abstract numerics, z3) plus a bounded covering-array run of the real driver under run-time contracts",
    text="Proved for every number of iterations and every path through an iteration: optimize_kl returns with the global "
         "random-number stack at the depth it found. The clause 'every documented option combination runs to completion "
         "and returns results consistent with the options' is a configuration-space statement: it is checked on a pairwise "
         "covering array (bounded stand-in, run-time contracts), not proved.",
    note="Everything numerical in the driver (likelihood, minimisers, sample lists, plotting, MPI helpers) is abstracted in "
         "the proof; push_sseq/pop_sseq are represented by their C21 contracts. Paths that leave optimize_kl by an "
         "exception are not covered by the balance claim. The covering array is pairwise (strength 2) over 11 options on "
         "one tiny model.",
    explanation="level 'other': one proof (RNG stack balance, all iteration counts and paths) + a bounded covering-array "
                "stand-in for the configuration-space clause",
)

T_ = SymBool(z3.BoolVal(True))
F_ = SymBool(z3.BoolVal(False))


def _b(x):
    return x if isinstance(x, SymBool) else SymBool(z3.BoolVal(bool(x)))


def sec_rng_balance(chk):
    import nifty.cl.minimization.optimize_kl as okl
    from nifty.cl.domain_tuple import DomainTuple
    chk.stub("random.push_sseq / pop_sseq: depth +1 / -1 (proved in C21)")
    chk.stub("every numerical helper (likelihood, Hamiltonian, minimiser, sample lists, minisanity, plotting, MPI checks) "
             "is an abstract object without effect on the RNG stack depth -- ASSUMED: these callees leave the stack balanced")
    chk.assume("paths leaving the driver by an exception are not part of the balance claim")

    class Depth:
        d = 0

    def push_sseq(s):
        Depth.d = Depth.d + 1

    def pop_sseq():
        Depth.d = Depth.d - 1

    class V(symx.VC):
        def inv(self):
            return _b(Depth.d == self.d_entry)

        def havoc4(self, L):
            it = fresh_int("iglobal")
            Ctx.cur.assume((it >= L["__lo4"]) & (it <= L["__hi4"]))
            Depth.d = self.d_entry
            return it, Any("sl"), Any("mean"), Any("energy_history")

        def havoc3(self, L):
            it = fresh_int("ig3")
            Ctx.cur.assume((it >= 0) & (it <= L["__hi3"]))
            return it, Any("sseqs")
    vc = V()
    loops = {3: dict(entry="True", havoc="__it3, sseqs = __vc.havoc3(locals())", inv="True"),
             4: dict(entry="__vc.inv()", havoc="__it4, sl, mean, energy_history = __vc.havoc4(locals())", inv="__vc.inv()")}

    class LH(Any):
        pass

    def _terminate(cb, i, comm):
        t = bool(fresh_bool("terminate"))
        if t:
            Ctx.cur.cover("terminate callback path")
        return t

    def _skl(*a, **k):
        Ctx.cur.cover("sampled KL path")
        return Any("SampledKLEnergy()")

    def _ea(*a, **k):
        Ctx.cur.cover("zero samples path")
        return Any("EnergyAdapter()")

    scalar = DomainTuple.scalar_domain()

    def mk_lh(i):
        lh = LH("lh")
        lh.target = scalar
        lh.domain = LH("lh.domain")
        return lh
    rb = dict(push_sseq=push_sseq, pop_sseq=pop_sseq, spawn_sseq=lambda n: Any("sseqs"), np=Any("np"),
              MultiDomain=LH, CountingOperator=Any("CountingOperator"), StandardHamiltonian=Any("StandardHamiltonian"),
              EnergyAdapter=Any("EnergyAdapter"), SampledKLEnergy=Any("SampledKLEnergy"), SampleList=Any("SampleList"),
              MultiField=Any("MultiField"), EnergyHistory=Any("EnergyHistory"),
              _normal_initialize=lambda *a, **k: Any("mean"), _single_value_sample_list=lambda *a, **k: Any("sl"),
              check_MPI_synced_random_state=lambda *a: None, check_MPI_equality=lambda *a, **k: None,
              _want_metric=lambda m: True, _barrier=lambda c: None, _minisanity=lambda *a: None,
              _counting_report=lambda *a: None, _handle_inspect_callback=lambda *a: None,
              _handle_terminate_callback=_terminate,
              _export_operators=lambda *a: None, warn=lambda *a, **k: None,
              full=lambda *a, **k: Any("mean0"), makeDomain=lambda *a: Any("dom"))
    rb["SampledKLEnergy"] = _skl
    rb["EnergyAdapter"] = _ea
    f = symx.extract(okl.optimize_kl, loops=loops, rebind=rb, vc=vc)
    chk.under_contract(f)

    def run(ctx):
        total = fresh_int("total_iterations")
        ctx.assume(total >= 1)
        Depth.d = fresh_int("depth_at_entry")
        vc.d_entry = Depth.d
        dry = bool(fresh_bool("dry_run"))
        zero = fresh_bool("n_samples_is_0")
        def minimizer(e):
            return Any("energy"), Any("status")
        try:
            res = f(mk_lh, total, lambda i: symx.ite(zero, 0, 3), lambda i: minimizer, lambda i: Any("ic"),
                    output_directory=None, sanity_checks=False, dry_run=dry,
                    fresh_stochasticity=lambda i: bool(fresh_bool("fresh")),
                    return_final_position=bool(fresh_bool("return_final_position")))
        except ValueError as e:
            if "fresh_stochasticity needs to be True" in str(e):
                return          # documented refusal, before any push
            raise
        ctx.prove(_b(Depth.d == vc.d_entry), "optimize_kl returns with the global RNG stack as deep as it found it")
        if dry:
            ctx.cover("dry run path")
    chk.explore(run, covers=["dry run path", "terminate callback path", "sampled KL path", "zero samples path"])


# ------------------------------------------------------------------------------------------------ covering array
OPTIONS = dict(
    output_directory=[False, True],
    sanity_checks=[True, False],
    save_strategy=["latest", "all"],
    plot=[False, True],
    constants=[(), ("b",)],
    point_estimates=[(), ("a",)],
    n_samples=[0, 2],
    transitions=[False, True],
    callbacks=["none", "inspect", "terminate@1"],
    fresh_stochasticity=[True, "not-in-2"],
    dry_run=[False, True],
    return_final_position=[False, True],
)


def _pairwise(options, seed):
    """greedy pairwise covering array"""
    import random
    rnd = random.Random(seed)
    keys = list(options)
    need = set()
    for a, b in itertools.combinations(keys, 2):
        for va in options[a]:
            for vb in options[b]:
                need.add((a, repr(va), b, repr(vb)))
    rows = []
    while need:
        best, bestc = None, -1
        for _ in range(60):
            row = {k: rnd.choice(v) for k, v in options.items()}
            c = sum(1 for a, b in itertools.combinations(keys, 2) if (a, repr(row[a]), b, repr(row[b])) in need)
            if c > bestc:
                best, bestc = row, c
        rows.append(best)
        for a, b in itertools.combinations(keys, 2):
            need.discard((a, repr(best[a]), b, repr(best[b])))
    return rows


def sec_options(chk):
    import numpy as np
    import nifty.cl as ift
    from nifty.cl import random as rnd
    dom = ift.UnstructuredDomain(3)
    a = ift.FieldAdapter(dom, "a")
    b = ift.FieldAdapter(dom, "b")
    model = a.exp() * b
    data = ift.makeField(dom, np.array([1., 2., 3.]))
    import logging
    from nifty.cl.logger import logger
    logger.setLevel(logging.ERROR)
    lh = ift.GaussianEnergy(data=data, inverse_covariance=ift.ScalingOperator(ift.DomainTuple.make(dom), 4.,
                                                                             sampling_dtype=float)) @ model
    rows = _pairwise(OPTIONS, 1000 + chk.seed)
    fails, samples = [], []
    tmp = tempfile.mkdtemp(prefix="verif-c27-")
    try:
        for k, row in enumerate(rows):
            seen = []
            kw = dict(constants=list(row["constants"]), point_estimates=list(row["point_estimates"]),
                      sanity_checks=row["sanity_checks"], save_strategy=row["save_strategy"],
                      plot_energy_history=row["plot"], plot_minisanity_history=row["plot"],
                      dry_run=row["dry_run"], return_final_position=row["return_final_position"])
            if row["output_directory"]:
                kw["output_directory"] = os.path.join(tmp, f"r{k}")
            if row["transitions"]:
                kw["transitions"] = lambda i: (None if i != 1 else (lambda sl: sl.average()))
            if row["callbacks"] == "inspect":
                kw["inspect_callback"] = lambda sl, i: seen.append(i)
            if row["callbacks"] == "terminate@1":
                kw["terminate_callback"] = lambda i: i == 1
            if row["fresh_stochasticity"] != True:  # noqa: E712
                kw["fresh_stochasticity"] = lambda i: i != 2
            n_it = 3
            d_sseq, d_rng = len(rnd._sseq), len(rnd._rng)
            err = None
            try:
                rnd.push_sseq_from_seed(77)
                d_in = len(rnd._sseq)
                with contextlib.redirect_stdout(io.StringIO()):
                    res = ift.optimize_kl(lh, n_it, row["n_samples"],
                                          ift.NewtonCG(ift.GradientNormController(iteration_limit=2)),
                                          ift.AbsDeltaEnergyController(1e-3, iteration_limit=5), **kw)
                d_out = len(rnd._sseq)
                if d_out != d_in:
                    err = f"global RNG stack depth {d_in} -> {d_out} after the call"
                if row["return_final_position"]:
                    ok = isinstance(res, tuple) and len(res) == 2 and isinstance(res[0], ift.minimization.sample_list.SampleListBase) \
                        and isinstance(res[1], ift.MultiField)
                    sl = res[0] if ok else None
                else:
                    ok = isinstance(res, ift.minimization.sample_list.SampleListBase)
                    sl = res if ok else None
                if not ok and err is None:
                    err = f"result shape inconsistent with return_final_position={row['return_final_position']}: {type(res)}"
                if sl is not None and err is None and not row["dry_run"]:
                    want = 1 if row["n_samples"] == 0 else 2 * row["n_samples"]
                    if sl.n_samples != want:
                        err = f"n_samples={row['n_samples']} but the returned list has {sl.n_samples} samples (want {want})"
                if err is None and row["callbacks"] == "inspect" and not row["dry_run"] and seen != [0, 1, 2]:
                    err = f"inspect callback called for iterations {seen}, want [0, 1, 2]"
            except Exception as e:  # noqa: BLE001
                err = f"{type(e).__name__}: {e}"
            finally:
                while len(rnd._sseq) > d_sseq:
                    rnd.pop_sseq()
            if err:
                fails.append(dict(case=str({k2: v for k2, v in row.items()}), detail=err))
            elif len(samples) < 3:
                samples.append({k2: str(v) for k2, v in row.items()})
    finally:
        shutil.rmtree(tmp, ignore_errors=True)
    chk.under_contract(ift.optimize_kl)
    chk.bounded("every row of a pairwise covering array over the documented options runs to completion, returns a result "
                "shaped by the options and leaves the RNG stack depth unchanged",
                bound=f"pairwise (strength 2) covering array, {len(rows)} rows over 12 options, 3 iterations on one 2-key model",
                cases=len(rows), nontrivial=len(rows), failures=fails, samples=samples, kind="B-runtime")


SECTIONS = [sec_rng_balance, sec_options]
