"""C33 Pytree vector arithmetic and custom maps match flat-array semantics.

Engine J: the real Vector operators, vector_math functions and smap / lmap are traced by JAX and evaluated on symbols.
Contracts:
    flatten(op(tree_a, tree_b)) == op(flatten(tree_a), flatten(tree_b))     for every arithmetic / comparison operator, both operand
                                                                            orders, tree-with-scalar broadcasting
    vdot(a, b) == sum conj(a_i) b_i,  dot(a, b) == sum a_i b_i,  norm(a, ord) == norm of the concatenated array (ord 1, 2),
    sum / min / max / any / all / size / shape / zeros_like / ones_like / conjugate / where  == the flat-array operation
    smap(f, in_axes, out_axes)(*x) == lmap(f, in_axes, out_axes)(*x) == jax.vmap(f, in_axes, out_axes)(*x)
        and equal to the defining 'out[k along out_axis] = f(x[k along in_axis])' evaluated slice by slice in this file.
The flat-array right-hand sides are computed in this file with plain Python/sympy on the flattened leaves.
"""
import itertools
import operator

import numpy as np
import sympy as sp

from vf import jaxsym
from vf.jaxsym import Shadow, sym_call, symbols
from vf.objx import eq_status

META = dict(
    title="Pytree vector arithmetic and custom maps match flat-array semantics",
    level="other",
    design_ref="DESIGN.md section 4, C33",
    technique="contracts 'operation on pytrees == the same operation on the concatenated flat arrays' and 'smap == lmap == vmap == the "
              "slice-by-slice definition' on the real nifty.re tree_math and custom_map code: JAX traces the unmodified functions "
              "(scan, jit, vmap resolved by JAX itself), the jaxprs are evaluated on sympy symbols (Engine J); right-hand sides "
              "computed independently on flattened leaves; identities decided by sympy",
    text="For the enumerated pytrees (dict / tuple / list nestings up to depth 2 with up to three leaves of shapes (), (2,), (2,2); real "
         "and complex leaves; scalar broadcasting on either side) every Vector operator, vdot (conjugate-linear in the first argument), "
         "dot, norms of order 1 and 2, sum, min, max, any, all, where, conjugate, size, shape, zeros_like and ones_like equal the "
         "operation on the concatenated flat arrays, and smap and lmap give the result of jax.vmap and of the slice-by-slice "
         "definition for every enumerated in_axes / out_axes specification (including None axes, negative axes, per-argument and "
         "per-leaf specifications, several outputs).",
    note="Universal in all leaf values (symbols); bounded in the tree / axis skeletons. min/max/comparisons are decided concolically at "
         "a shadow point per run (the recorded path condition delimits the region). Trusted: JAX's tracer, Engine J's primitive "
         "table, A-REAL.",
    explanation="level 'other': symbolic identities on jaxprs of the real code for enumerated skeletons",
)


def _trees(cplx=False):
    """(name, builder(prefix) -> pytree of object arrays)"""
    def leaf(shape, name):
        if cplx:
            return symbols(shape, name + "r", real=True) + sp.I * symbols(shape, name + "i", real=True)
        return symbols(shape, name, real=True)
    return [
        ("array (2,)", lambda p: leaf((2,), p + "a")),
        ("{'a': (2,), 'b': ()}", lambda p: {"a": leaf((2,), p + "a"), "b": leaf((), p + "b")}),
        ("((2,2), [(2,), ()])", lambda p: (leaf((2, 2), p + "m"), [leaf((2,), p + "v"), leaf((), p + "s")])),
        ("{'x': {'y': (2,)}, 'z': (2,2)}", lambda p: {"x": {"y": leaf((2,), p + "y")}, "z": leaf((2, 2), p + "z")}),
    ]


def _ex(tree):
    import jax
    import jax.numpy as jnp
    return jax.tree_util.tree_map(lambda a: jnp.asarray(np.full(np.shape(a), 0.5 + 0.25j if any(sp.sympify(e).has(sp.I) for e in np.asarray(a, dtype=object).ravel()) else 0.5)),
                                  tree, is_leaf=lambda x: isinstance(x, np.ndarray))


def _fl(tree):
    import jax
    out = []
    for leaf in jax.tree_util.tree_leaves(tree, is_leaf=lambda x: isinstance(x, np.ndarray)):
        out += list(jaxsym.to_obj(np.asarray(leaf)).ravel())
    return out


def _eq(chk, label, got, want, pc=None):
    if len(got) != len(want):
        chk.obligation(label, "refuted", backend="sympy", detail=f"{len(got)} entries, expected {len(want)}")
        return
    worst = ("discharged", "sympy", "")
    for a, b in zip(got, want):
        if isinstance(a, (sp.logic.boolalg.BooleanAtom, sp.logic.boolalg.BooleanFunction, sp.core.relational.Relational, bool, np.bool_)) or \
                isinstance(b, (sp.logic.boolalg.BooleanAtom, sp.logic.boolalg.BooleanFunction, sp.core.relational.Relational, bool)):
            same = sp.simplify(sp.Equivalent(sp.sympify(bool(a)) if isinstance(a, (bool, np.bool_)) else a, b)) if not (a == b) else sp.true
            st = ("discharged", "sympy", "") if same is sp.true or same == True else ("refuted" if same is sp.false else "undecided", "sympy", f"{a} vs {b}")  # noqa: E712
        else:
            st = eq_status(sp.sympify(a), sp.sympify(b), pc=pc, n=5)
        if st[0] != "discharged":
            worst = st
            break
        if st[1] != "sympy":
            worst = st
    chk.obligation(label, worst[0], backend=worst[1], detail=worst[2])


def _shadow_for(*trees):
    vals = itertools.cycle([sp.Rational(7, 10), sp.Rational(-13, 10), sp.Rational(3, 10), sp.Rational(9, 5), sp.Rational(-2, 5), sp.Rational(11, 10),
                            sp.Rational(-17, 10), sp.Rational(1, 2), sp.Rational(6, 5), sp.Rational(-1, 10)])
    pt = {}
    for t in trees:
        for e in _fl(t):
            for s in sorted(sp.sympify(e).free_symbols, key=str):
                pt.setdefault(s, next(vals))
    return pt


def sec_vector_ops(chk):
    import jax
    jax.config.update("jax_enable_x64", True)
    import nifty.re as jft
    from nifty.re.tree_math import vector
    chk.under_contract(vector.Vector)
    chk.under_contract(vector._broadcast_binary_op)
    chk.assume("A-REAL; A-JAXTRACE")
    binops = [("+", operator.add), ("-", operator.sub), ("*", operator.mul), ("/", operator.truediv)]
    cmps = [("<", operator.lt), ("<=", operator.le), (">", operator.gt), (">=", operator.ge)]
    for cplx in (False, True):
        for name, mk in _trees(cplx):
            a, b = mk("a"), mk("b")
            fa, fb = _fl(a), _fl(b)
            tag = f"vector_ops: {name}{' complex' if cplx else ''}"
            for on, fn in binops:
                got, _ = sym_call(lambda x, y: fn(jft.Vector(x), jft.Vector(y)).tree, (_ex(a), _ex(b)), (a, b))
                _eq(chk, f"{tag}: Vector {on} Vector acts leaf-wise == on the flat arrays", _fl(got), [fn(x, y) for x, y in zip(fa, fb)])
                got, _ = sym_call(lambda x: fn(jft.Vector(x), 1.5).tree, (_ex(a),), (a,))
                _eq(chk, f"{tag}: Vector {on} scalar", _fl(got), [fn(x, sp.Rational(3, 2)) for x in fa])
                got, _ = sym_call(lambda x: fn(1.5, jft.Vector(x)).tree, (_ex(a),), (a,))
                _eq(chk, f"{tag}: scalar {on} Vector", _fl(got), [fn(sp.Rational(3, 2), x) for x in fa])
            got, _ = sym_call(lambda x: (-jft.Vector(x)).tree, (_ex(a),), (a,))
            _eq(chk, f"{tag}: -Vector", _fl(got), [-x for x in fa])
            got, _ = sym_call(lambda x: (jft.Vector(x) ** 2).tree, (_ex(a),), (a,))
            _eq(chk, f"{tag}: Vector ** 2", _fl(got), [x ** 2 for x in fa])
            got, _ = sym_call(lambda x: jft.conjugate(jft.Vector(x)).tree, (_ex(a),), (a,))
            _eq(chk, f"{tag}: conjugate", _fl(got), [sp.conjugate(x) for x in fa])
            if not cplx:
                Shadow.point, Shadow.pc = _shadow_for(a, b), []
                try:
                    for on, fn in cmps:
                        got, _ = sym_call(lambda x, y: fn(jft.Vector(x), jft.Vector(y)).tree, (_ex(a), _ex(b)), (a, b))
                        want = [fn(x, y) for x, y in zip(fa, fb)]
                        _eq(chk, f"{tag}: Vector {on} Vector compares leaf-wise", _fl(got), want)
                    got, _ = sym_call(lambda x: abs(jft.Vector(x)).tree, (_ex(a),), (a,))
                    pc = list(Shadow.pc)
                    _eq(chk, f"{tag}: abs(Vector)", _fl(got), [x if x.subs(Shadow.point) >= 0 else -x for x in fa], pc=pc)
                finally:
                    Shadow.point, Shadow.pc = None, []


def sec_vector_math(chk):
    import jax
    jax.config.update("jax_enable_x64", True)
    import jax.numpy as jnp
    import nifty.re as jft
    from nifty.re.tree_math import vector_math as vm
    for f in (vm.vdot, vm.dot, vm.norm, vm.where, vm.size, vm.shape, vm.conjugate, vm.sum, vm.min, vm.max, vm.any, vm.all):
        chk.under_contract(f)
    for cplx in (False, True):
        for name, mk in _trees(cplx):
            a, b = mk("a"), mk("b")
            fa, fb = _fl(a), _fl(b)
            tag = f"vector_math: {name}{' complex' if cplx else ''}"
            got, _ = sym_call(lambda x, y: vm.vdot(x, y), (_ex(a), _ex(b)), (a, b))
            _eq(chk, f"{tag}: vdot(a, b) == sum conj(a_i) b_i (conjugate-linear in the first argument)", [sp.expand(_fl(got)[0])],
                [sp.expand(sum(sp.conjugate(x) * y for x, y in zip(fa, fb)))])
            got, _ = sym_call(lambda x, y: jft.vdot(jft.Vector(x), jft.Vector(y)), (_ex(a), _ex(b)), (a, b))
            _eq(chk, f"{tag}: vdot on Vectors", [sp.expand(_fl(got)[0])], [sp.expand(sum(sp.conjugate(x) * y for x, y in zip(fa, fb)))])
            got, _ = sym_call(lambda x, y: vm.dot.__wrapped__(x, y) if hasattr(vm.dot, "__wrapped__") else vm.dot(x, y), (_ex(a), _ex(b)), (a, b))
            _eq(chk, f"{tag}: dot(a, b) == sum a_i b_i (no conjugation)", [sp.expand(_fl(got)[0])], [sp.expand(sum(x * y for x, y in zip(fa, fb)))])
            got, _ = sym_call(lambda x: vm.sum(x), (_ex(a),), (a,))
            _eq(chk, f"{tag}: sum == sum over all leaves and entries", [sp.expand(_fl(got)[0])], [sp.expand(sum(fa))])
            n = len(fa)
            ok = vm.size(_ex(a)) == n and _fl(jax.tree_util.tree_map(lambda s: np.array(len(s)), vm.shape(_ex(a)), is_leaf=lambda s: isinstance(s, tuple))) is not None
            chk.obligation(f"{tag}: size == number of entries of the concatenated array", "discharged" if ok else "refuted", backend="native")
            z, o = vm.zeros_like(_ex(a)), vm.ones_like(_ex(a))
            ok = jax.tree_util.tree_structure(z) == jax.tree_util.tree_structure(_ex(a)) and all(np.all(np.asarray(l) == 0) for l in jax.tree_util.tree_leaves(z)) \
                and all(np.all(np.asarray(l) == 1) for l in jax.tree_util.tree_leaves(o)) \
                and [np.shape(l) for l in jax.tree_util.tree_leaves(z)] == [np.shape(l) for l in jax.tree_util.tree_leaves(_ex(a))]
            chk.obligation(f"{tag}: zeros_like / ones_like keep structure and shapes", "discharged" if ok else "refuted", backend="native")
            if cplx:
                got, _ = sym_call(lambda x: vm.norm(x, 2) ** 2, (_ex(a),), (a,))
                _eq(chk, f"{tag}: norm(a, 2)**2 == sum |a_i|^2", [sp.expand(sp.simplify(_fl(got)[0]))], [sp.expand(sum(sp.re(x) ** 2 + sp.im(x) ** 2 for x in fa))])
                continue
            Shadow.point, Shadow.pc = _shadow_for(a, b), []
            try:
                sh = Shadow.point
                got, _ = sym_call(lambda x: vm.norm(x, 2) ** 2, (_ex(a),), (a,))
                _eq(chk, f"{tag}: norm(a, 2)**2 == sum a_i^2", [sp.expand(sp.simplify(_fl(got)[0]))], [sp.expand(sum(x * x for x in fa))], pc=list(Shadow.pc))
                got, _ = sym_call(lambda x: vm.norm(x, 1), (_ex(a),), (a,))
                _eq(chk, f"{tag}: norm(a, 1) == sum |a_i|", [sp.expand(_fl(got)[0])], [sp.expand(sum(x if x.subs(sh) >= 0 else -x for x in fa))], pc=list(Shadow.pc))
                got, _ = sym_call(lambda x: vm.max(x), (_ex(a),), (a,))
                _eq(chk, f"{tag}: max == maximum of the concatenated array", _fl(got), [max(fa, key=lambda e: e.subs(sh))], pc=list(Shadow.pc))
                got, _ = sym_call(lambda x: vm.min(x), (_ex(a),), (a,))
                _eq(chk, f"{tag}: min == minimum of the concatenated array", _fl(got), [min(fa, key=lambda e: e.subs(sh))], pc=list(Shadow.pc))
                got, _ = sym_call(lambda x, y: vm.where(jax.tree_util.tree_map(lambda p, q: p > q, x, y), x, y), (_ex(a), _ex(b)), (a, b))
                _eq(chk, f"{tag}: where(a > b, a, b) selects leaf-wise == on the flat arrays", _fl(got), [x if x.subs(sh) > y.subs(sh) else y for x, y in zip(fa, fb)],
                    pc=list(Shadow.pc))
                got, _ = sym_call(lambda x, y: vm.where(True, x, y), (_ex(a), _ex(b)), (a, b))
                _eq(chk, f"{tag}: where(True, a, b) == a (condition not a pytree)", _fl(got), fa)
                got, _ = sym_call(lambda x: (vm.any(jax.tree_util.tree_map(lambda p: p > 1., x)), vm.all(jax.tree_util.tree_map(lambda p: p > -1., x))), (_ex(a),), (a,))
                g = [sp.sympify(bool(v)) if isinstance(v, (bool, np.bool_)) else v for v in _fl(got)]
                want = [sp.Or(*[x > 1 for x in fa]), sp.And(*[x > -1 for x in fa])]
                ok = all(bool(gi.subs(sh)) == bool(wi.subs(sh)) and (gi in (sp.true, sp.false) or sp.simplify(sp.Equivalent(gi, wi)) is sp.true) for gi, wi in zip(g, want))
                chk.obligation(f"{tag}: any / all over the whole tree == over the concatenated array",
                               "discharged" if ok else "refuted", backend="sympy", detail=f"{g} vs {want}")
            finally:
                Shadow.point, Shadow.pc = None, []


def sec_maps(chk):
    """smap / lmap against jax.vmap and against the slice-by-slice definition"""
    import jax
    jax.config.update("jax_enable_x64", True)
    import jax.numpy as jnp
    from nifty.re import custom_map as cm
    chk.under_contract(cm._generic_smap)
    chk.under_contract(cm._lscan)
    chk.under_contract(cm.smap)
    chk.under_contract(cm.lmap)

    def f2(x, y):           # per-slice function of two arguments, two outputs
        return jnp.sin(x) * jnp.sum(y), (x[..., None] * y[None, ...] if x.ndim == 1 else x * y)

    def f1(d):              # per-slice function of a dict, dict output
        return {"u": jnp.exp(d["p"]) + d["q"].sum(), "v": d["q"] * 2.}
    rng = np.random.default_rng(33 + chk.seed)
    native = dict(cases=0, fails=[])
    X, Y = symbols((2, 3), "x", real=True), symbols((3, 2), "y", real=True)
    Xe, Ye = jnp.ones((2, 3)), jnp.ones((3, 2))
    specs2 = [((0, 1), 0), ((1, 0), 0), ((0, None), 0), ((None, 1), 0), ((0, 1), (1, 0)), ((-1, 0), (0, -1)), ((1, 0), (0, 2))]
    if chk.tier == "thorough":
        specs2 += [((0, 1), (-1, -1)), ((-2, -1), 1), ((None, 0), (1, 1))]
    for ia, oa in specs2:
        lab = f"maps: f(x:(2,3), y:(3,2)) in_axes={ia} out_axes={oa}"
        try:
            ref, _ = sym_call(lambda a, b: jax.vmap(f2, ia, oa)(a, b), (Xe, Ye), (X, Y))
        except Exception as e:  # noqa: BLE001
            chk.note(f"{lab}: jax.vmap itself refuses this specification ({type(e).__name__}); skipped")
            continue
        got, _ = sym_call(lambda a, b: cm.smap(f2, ia, oa)(a, b), (Xe, Ye), (X, Y))
        _eq(chk, f"{lab}: smap == jax.vmap", _fl(got), _fl(ref))
        _lmap_native(chk, lab, lambda *a: cm.lmap(f2, ia, oa)(*a), lambda *a: jax.vmap(f2, ia, oa)(*a), (rng.normal(size=(2, 3)), rng.normal(size=(3, 2))), native)
        # the definition, slice by slice
        n = X.shape[ia[0]] if ia[0] is not None else Y.shape[ia[1]]
        outs = []
        for k in range(n):
            xs = np.take(X, k, axis=ia[0]) if ia[0] is not None else X
            ys = np.take(Y, k, axis=ia[1]) if ia[1] is not None else Y
            o, _ = sym_call(f2, (jnp.ones(xs.shape), jnp.ones(ys.shape)), (xs, ys))
            outs.append(o)
        oax = oa if isinstance(oa, tuple) else (oa, oa)
        want = []
        for j in range(2):
            st = np.stack([jaxsym.to_obj(np.asarray(o[j])) for o in outs], axis=0)
            want.append(np.moveaxis(st, 0, oax[j]))
        _eq(chk, f"{lab}: vmap == out[k along out_axis] = f(x[k along in_axis]) (slice by slice)", _fl(ref), _fl(tuple(want)))
    # per-leaf axis specifications: nested tuples (hashable, as smap's jit needs its axes static); dict specifications only through lmap
    def f3(t):
        p, q = t
        return jnp.exp(p) + q.sum(), q * 2.
    Tp, Tq = symbols((3, 2), "p", real=True), symbols((2, 3), "q", real=True)
    Te = (jnp.ones((3, 2)), jnp.ones((2, 3)))
    for ia, oa in ((((0, 1),), 0), (((1, 0),), (0, 1)), (((0, None),), 0), (((-2, -1),), (1, 0))):
        lab = f"maps: f((p:(3,2), q:(2,3))) in_axes={ia} out_axes={oa}"
        try:
            ref, _ = sym_call(lambda t: jax.vmap(f3, ia, oa)(t), (Te,), ((Tp, Tq),))
        except Exception as e:  # noqa: BLE001
            chk.note(f"{lab}: jax.vmap itself refuses this specification ({type(e).__name__}); skipped")
            continue
        got, _ = sym_call(lambda t: cm.smap(f3, ia, oa)(t), (Te,), ((Tp, Tq),))
        _eq(chk, f"{lab}: smap == jax.vmap", _fl(got), _fl(ref))
        _lmap_native(chk, lab, lambda t: cm.lmap(f3, ia, oa)(t), lambda t: jax.vmap(f3, ia, oa)(t), ((rng.normal(size=(3, 2)), rng.normal(size=(2, 3))),), native)
    for ia, oa in ((({"p": 0, "q": 1},), 0), (({"p": 1, "q": 0},), {"u": 0, "v": 1}), (({"p": 0, "q": None},), 0)):
        lab = f"maps: f(dict p:(3,2), q:(2,3)) in_axes={ia} out_axes={oa}"
        _lmap_native(chk, lab, lambda d: cm.lmap(f1, ia, oa)(d), lambda d: jax.vmap(f1, ia, oa)(d), ({"p": rng.normal(size=(3, 2)), "q": rng.normal(size=(2, 3))},), native)
    chk.note("observation: smap jits _generic_smap with in_axes/out_axes as static arguments, so dict-valued (unhashable) axis specifications that "
             "jax.vmap and lmap accept raise ValueError in smap; nested tuples work")
    chk.bounded("lmap (eager Python loop, not traceable under jit) against jax.vmap on generated float64 inputs", bound=f"{native['cases']} (function, in_axes, out_axes) "
                "specifications, one generated input each, 1e-13 relative", cases=native["cases"], nontrivial=native["cases"], failures=native["fails"], kind="B-runtime")


def _lmap_native(chk, lab, lm, vm_, args, native):
    import jax
    import jax.numpy as jnp
    native["cases"] += 1
    ja = jax.tree_util.tree_map(jnp.asarray, args)
    try:
        a, b = lm(*ja), vm_(*ja)
    except Exception as e:  # noqa: BLE001
        native["fails"].append(dict(case=f"{lab}: lmap raises {type(e).__name__}: {str(e)[:120]}", detail=""))
        return
    la, lb = jax.tree_util.tree_leaves(a), jax.tree_util.tree_leaves(b)
    if len(la) != len(lb) or not all(np.shape(x) == np.shape(y) and np.allclose(x, y, rtol=1e-13, atol=1e-14) for x, y in zip(la, lb)):
        native["fails"].append(dict(case=f"{lab}: lmap != jax.vmap", detail=f"shapes {[np.shape(x) for x in la]} vs {[np.shape(y) for y in lb]}"))


SECTIONS = [sec_vector_ops, sec_vector_math, sec_maps]
