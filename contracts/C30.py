"""C30 Prior transforms map a standard normal to the documented distribution.

Contract of a prior transform T with target distribution D (quantile function Q_D, written here from the documented pdf):
    T(xi) == Q_D(Phi(xi)) for every xi,   T is strictly increasing,   inverse(T(xi)) == xi where an inverse is provided.
Closed-form transforms (normal, log-normal with moment matching, uniform, Laplace) of nifty.re are traced by JAX and evaluated
on a symbolic xi (Engine J); JAX's norm.cdf / norm.logcdf are piece-wise in erf/erfc, so the run is repeated with a shadow point
in every piece and each piece's closed form is proved equal to Q_D(Phi(xi)) symbolically.  Parameters that select a code path at
construction time (uniform_prior's bounds) are enumerated, including unit-width intervals away from 0.
Interpolation-table transforms (inverse gamma in nifty.re; InverseGamma/Gamma/Beta/LogInverseGamma operators, Uniform and Laplace
operators of nifty.cl) are bounded natively against SciPy quantiles: exact at table nodes, monotone, within the stated interpolation
tolerance in between, and inverse o forward == identity within that tolerance.
"""
import itertools

import numpy as np
import sympy as sp

from vf import jaxsym
from vf.jaxsym import Shadow, sym_call, symbols
from vf.objx import eq_status

META = dict(
    title="Prior transforms map a standard normal to the documented distribution",
    level="other",
    design_ref="DESIGN.md section 4, C30",
    technique="contract T(xi) == Q_target(Phi(xi)), T increasing, inverse o T == id: the closed-form transforms of nifty.re are traced by "
              "JAX and their jaxprs evaluated on a symbolic xi (Engine J, one run per piece of JAX's piece-wise normal cdf) and "
              "proved equal to the quantile function written from the documented pdf; construction-time parameters enumerated; "
              "interpolation-table transforms (nifty.re inverse gamma, nifty.cl special distributions) bounded natively against SciPy",
    text="normal, log-normal (including the moment matching of lognormal_moments), uniform (24 bound pairs incl. unit-width intervals "
         "away from 0 and integer bounds) and Laplace transforms and their prior classes map xi to the target quantile of Phi(xi) "
         "for every xi and parameter value, are strictly increasing, and the provided inverses undo them; interpolation-based "
         "transforms (inverse gamma; classic InverseGamma, Gamma, Beta, LogInverseGamma, Uniform, Laplace operators, NormalTransform, "
         "LognormalTransform) agree with SciPy's quantiles at table nodes and within the stated tolerance elsewhere, are monotone, "
         "and their inverses undo them (bounded).",
    note="Closed forms: universal in xi and in the continuous parameters (symbols); uniform bounds enumerated because they select a "
         "code path at construction. Phi is JAX's own piece-wise erf/erfc implementation, proved equal to (1+erf(xi/sqrt 2))/2 on every "
         "piece. Tables: bounded (generated parameter sets, 1e-7 relative between nodes, 1e-10 at nodes).",
    explanation="level 'other': symbolic identities on jaxprs for closed forms, native bounded stand-ins for interpolation tables",
)

PHI = lambda x: (1 + sp.erf(x / sp.sqrt(2))) / 2  # noqa: E731
SHADOWS = [sp.Rational(-5, 2), sp.Rational(-3, 10), sp.Rational(2, 5), sp.Rational(11, 4)]


def _pieces(fun, ex, sym, xi):
    """evaluate the traced function once per shadow value of xi; yields (shadow, path condition, output)"""
    for sh in SHADOWS:
        Shadow.point, Shadow.pc = {xi: sh}, []
        try:
            out, used = sym_call(fun, ex, sym)
            pc = list(Shadow.pc)
        finally:
            Shadow.point, Shadow.pc = None, []
        yield sh, pc, np.asarray(out, dtype=object).ravel()[0]


def _prove(chk, label, got, want, pc, xi, sh):
    lo, hi = (-4, 0) if sh < 0 else (0, 4)
    st = eq_status(sp.sympify(got), sp.sympify(want), pc=pc, domain={str(xi): (lo, hi)}, n=6)
    chk.obligation(label, st[0], backend=st[1], detail=st[2])


def sec_closed_forms(chk):
    import jax
    jax.config.update("jax_enable_x64", True)
    import jax.numpy as jnp
    from nifty.re.num import stats_distributions as sd
    for f in (sd._standard_to_normal, sd._normal_to_standard, sd._standard_to_lognormal, sd._lognormal_to_standard, sd._standard_to_uniform,
              sd._standard_to_laplace, sd.uniform_prior, sd.lognormal_moments):
        chk.under_contract(f)
    chk.assume("A-REAL; A-JAXTRACE")
    xi = sp.Symbol("xi", real=True)
    xa = np.array(xi, dtype=object)
    ex = jnp.asarray(0.3)
    mu, sg = sp.Symbol("mu", real=True), sp.Symbol("sigma", positive=True)
    # ---- normal: Q(p) = mu + sigma Phi^-1(p)  =>  T(xi) = mu + sigma xi
    out, _ = sym_call(lambda x, m, s: sd.normal_prior(m, s)(x), (ex, ex, ex), (xa, np.array(mu, dtype=object), np.array(sg, dtype=object)))
    T = np.asarray(out, dtype=object).ravel()[0]
    st = eq_status(T, mu + sg * xi)
    chk.obligation("closed_forms: normal_prior(mean, std)(xi) == mean + std xi  (the normal quantile of Phi(xi))", st[0], backend=st[1], detail=st[2])
    chk.obligation("closed_forms: normal_prior is strictly increasing (dT/dxi == std > 0)", "discharged" if sp.simplify(sp.diff(T, xi) - sg) == 0 else "refuted", backend="sympy")
    out, _ = sym_call(lambda x, m, s: sd.normal_invprior(m, s)(sd.normal_prior(m, s)(x)), (ex, ex, ex), (xa, np.array(mu, dtype=object), np.array(sg, dtype=object)))
    st = eq_status(np.asarray(out, dtype=object).ravel()[0], xi)
    chk.obligation("closed_forms: normal_invprior undoes normal_prior", st[0], backend=st[1], detail=st[2])
    # ---- log-normal with moment matching
    m_, s_ = sp.Symbol("m", positive=True), sp.Symbol("s", positive=True)

    def lognorm(x, m, s):
        lm, ls = sd.lognormal_moments.__wrapped__(m, s) if hasattr(sd.lognormal_moments, "__wrapped__") else _moments(sd, m, s)
        return sd.lognormal_prior(None, None, _log_mean=lm, _log_std=ls)(x), lm, ls
    out, _ = sym_call(lognorm, (ex, jnp.asarray(1.5), jnp.asarray(0.7)), (xa, np.array(m_, dtype=object), np.array(s_, dtype=object)))
    T, lm, ls = [np.asarray(o, dtype=object).ravel()[0] for o in out]
    st = eq_status(T, sp.exp(lm + ls * xi))
    chk.obligation("closed_forms: lognormal_prior(xi) == exp(log_mean + log_std xi)  (the log-normal quantile of Phi(xi))", st[0], backend=st[1], detail=st[2])
    mean_ln, var_ln = sp.exp(lm + ls ** 2 / 2), (sp.exp(ls ** 2) - 1) * sp.exp(2 * lm + ls ** 2)
    st = eq_status(sp.simplify(mean_ln), m_)
    chk.obligation("closed_forms: lognormal_moments: the mean of exp(N(log_mean, log_std^2)) is the requested mean", st[0], backend=st[1], detail=st[2])
    st = eq_status(sp.simplify(var_ln), s_ ** 2)
    chk.obligation("closed_forms: lognormal_moments: the variance of exp(N(log_mean, log_std^2)) is the requested std^2", st[0], backend=st[1], detail=st[2])
    chk.obligation("closed_forms: lognormal_prior is strictly increasing", "discharged" if sp.simplify(sp.diff(T, xi) / T - ls) == 0 and ls.is_positive is not False else "refuted",
                   backend="sympy")
    lm_s, ls_s = sp.Symbol("lm", real=True), sp.Symbol("ls", positive=True)
    out, _ = sym_call(lambda x, a, b: sd.lognormal_invprior(None, None, _log_mean=a, _log_std=b)(sd.lognormal_prior(None, None, _log_mean=a, _log_std=b)(x)),
                      (ex, ex, ex), (xa, np.array(lm_s, dtype=object), np.array(ls_s, dtype=object)))
    st = eq_status(sp.simplify(np.asarray(out, dtype=object).ravel()[0]), xi)
    chk.obligation("closed_forms: lognormal_invprior undoes lognormal_prior", st[0], backend=st[1], detail=st[2])
    # ---- JAX's normal cdf on every piece
    from jax.scipy.stats import norm
    for sh, pc, out in _pieces(lambda x: norm.cdf(x), (ex,), (xa,), xi):
        _prove(chk, f"closed_forms: jax.scipy.stats.norm.cdf(xi) == (1 + erf(xi / sqrt 2)) / 2 on the piece around xi = {sh}", out, PHI(xi), pc, xi, sh)
    # ---- uniform: every bound pair selects its code path at construction
    mins = [0., -0.5, 2., 0.1, -3.]
    widths = [1., 0.5, 2., 4.]
    bounds = [(a, a + w) for a in mins for w in widths] + [(0, 1), (1, 2), (-1, 0), (0., 1.)]
    for a, b in bounds:
        tr = sd.uniform_prior(a, b)
        ar, br = sp.nsimplify(a, rational=True), sp.nsimplify(b, rational=True)
        for sh, pc, out in _pieces(lambda x: tr(x), (ex,), (xa,), xi):
            _prove(chk, f"closed_forms: uniform_prior({a!r}, {b!r})(xi) == a_min + (a_max - a_min) Phi(xi) [piece around xi = {sh}]", out, ar + (br - ar) * PHI(xi), pc, xi, sh)
    amin, scale = sp.Symbol("amin", real=True), sp.Symbol("scale", positive=True)
    for sh, pc, out in _pieces(lambda x, a, s: sd._standard_to_uniform(x, a_min=a, scale=s), (ex, ex, ex),
                               (xa, np.array(amin, dtype=object), np.array(scale, dtype=object)), xi):
        _prove(chk, f"closed_forms: _standard_to_uniform(xi; a_min, scale) == a_min + scale Phi(xi) for symbolic a_min, scale [piece around xi = {sh}]", out, amin + scale * PHI(xi), pc, xi, sh)
        d = sp.simplify(sp.diff(out, xi) - scale * sp.exp(-xi ** 2 / 2) / sp.sqrt(2 * sp.pi))
        chk.obligation(f"closed_forms: the uniform transform is strictly increasing (dT/dxi == scale phi(xi) > 0) [piece around xi = {sh}]", "discharged" if d == 0 else "undecided",
                       backend="sympy", detail=str(d)[:200])
    # ---- Laplace: Q(p) = alpha log(2p) for p < 1/2, -alpha log(2(1-p)) for p >= 1/2
    al = sp.Symbol("alpha", positive=True)
    for sh, pc, out in _pieces(lambda x, a: sd.laplace_prior(a)(x), (ex, ex), (xa, np.array(al, dtype=object)), xi):
        want = al * sp.log(2 * PHI(xi)) if sh < 0 else -al * sp.log(2 * (1 - PHI(xi)))
        lo, hi = (-4, 0) if sh < 0 else (0, 4)
        got = sp.sympify(out)
        st = eq_status(got, want, pc=pc, domain={str(xi): (lo, hi), "alpha": (sp.Rational(1, 10), 3)}, n=8)
        chk.obligation(f"closed_forms: laplace_prior(alpha)(xi) == Laplace quantile of Phi(xi) on the piece around xi = {sh}", st[0], backend=st[1], detail=st[2])
        dT = sp.diff(got, xi)
        pts = [dT.subs({xi: v, al: sp.Rational(3, 2)}) for v in ((sp.Rational(-7, 2), -2, sp.Rational(-1, 10)) if sh < 0 else (sp.Rational(1, 10), 2, sp.Rational(7, 2)))]
        ok = all(sp.N(v, 30) > 0 for v in pts)
        chk.obligation(f"closed_forms: the Laplace transform is increasing on the piece around xi = {sh} (derivative positive at exact points)",
                       "discharged" if ok else "refuted", backend="sympy-points")


def _moments(sd, m, s):
    """lognormal_moments without its eager positivity test (which cannot be traced): the two defining lines of the real function are
    re-executed from its source"""
    import inspect
    import textwrap
    src = textwrap.dedent(inspect.getsource(sd.lognormal_moments))
    body = [ln for ln in src.splitlines() if ln.strip().startswith(("logstd =", "logmean ="))]
    if len(body) != 2:
        from vf import symx
        raise symx.EngineLimit("lognormal_moments no longer consists of the two defining assignments")
    ns = dict(vars(sd))
    ns.update(mean=m, std=s)
    exec("\n".join(ln.strip() for ln in body), ns)
    return ns["logmean"], ns["logstd"]


def sec_prior_classes(chk):
    """the prior model classes of nifty.re.prior wrap the same transforms"""
    import jax
    jax.config.update("jax_enable_x64", True)
    import jax.numpy as jnp
    import nifty.re as jft
    from nifty.re import prior
    xi = sp.Symbol("xi", real=True)
    xa = np.array(xi, dtype=object)
    ex = jnp.asarray(0.3)
    for cls in (prior.NormalPrior, prior.LogNormalPrior, prior.UniformPrior, prior.LaplacePrior):
        chk.under_contract(cls)
    for a, b in ((0., 1.), (2., 3.), (-0.5, 0.5), (0.1, 1.1), (-1., 3.)):
        mdl = jft.UniformPrior(a, b)
        ar, br = sp.nsimplify(a, rational=True), sp.nsimplify(b, rational=True)
        for sh, pc, out in _pieces(lambda x: mdl(x), (ex,), (xa,), xi):
            _prove(chk, f"prior_classes: UniformPrior({a}, {b})(xi) == a_min + (a_max - a_min) Phi(xi) [piece around xi = {sh}]", out, ar + (br - ar) * PHI(xi), pc, xi, sh)
    npr, lnpr = jft.NormalPrior(1.5, 0.25), jft.LogNormalPrior(2., 0.5)          # constructed eagerly (their constructors validate the parameters)
    out, _ = sym_call(lambda x: npr(x), (ex,), (xa,))
    st = eq_status(np.asarray(out, dtype=object).ravel()[0], sp.Rational(3, 2) + xi / 4)
    chk.obligation("prior_classes: NormalPrior(1.5, 0.25)(xi) == 1.5 + 0.25 xi", st[0], backend=st[1], detail=st[2])
    out, _ = sym_call(lambda x: lnpr(x), (ex,), (xa,))
    ls = sp.sqrt(sp.log(1 + sp.Rational(1, 16)))
    lm = sp.log(2) - ls ** 2 / 2
    st = eq_status(np.asarray(out, dtype=object).ravel()[0], sp.exp(lm + ls * xi), domain={"xi": (-3, 3)})
    chk.obligation("prior_classes: LogNormalPrior(2, 0.5)(xi) == exp(log_mean + log_std xi) with moment-matched parameters", st[0], backend=st[1], detail=st[2])
    mdl = jft.LaplacePrior(0.75)
    for sh, pc, out in _pieces(lambda x: mdl(x), (ex,), (xa,), xi):
        a = sp.Rational(3, 4)
        want = a * sp.log(2 * PHI(xi)) if sh < 0 else -a * sp.log(2 * (1 - PHI(xi)))
        _prove(chk, f"prior_classes: LaplacePrior(0.75)(xi) == Laplace quantile of Phi(xi) around xi = {sh}", out, want, pc, xi, sh)


def sec_tables_re(chk):
    """bounded: interpolation-table transforms of nifty.re against SciPy"""
    import jax
    jax.config.update("jax_enable_x64", True)
    import jax.numpy as jnp
    from scipy.stats import invgamma, norm
    from nifty.re.num import stats_distributions as sd
    fails, cases = [], 0
    # loc is documented as a shift of the whole distribution: negative shifts (support reaching below 0) included
    params = [(2.5, 1.0, 0.0), (1.2, 3.0, 0.0), (4.0, 0.5, 0.0), (3.0, 2.0, 1.5), (2.0, 2.0, -1.0)] + ([(6.0, 0.1, 0.0), (1.5, 0.5, -3.0)] if chk.tier == "thorough" else [])
    for a, scale, loc in params:
        cases += 1
        fwd = sd.invgamma_prior(a, scale, loc)
        inv = sd.invgamma_invprior(a, scale, loc)
        nodes = np.arange(-8.2, 8.2, 0.01)[::37]
        want = invgamma.ppf(norm.cdf(nodes), a=a, loc=loc, scale=scale)
        got = np.asarray(fwd(jnp.asarray(nodes)))
        if not np.allclose(got, want, rtol=1e-10, equal_nan=False):
            fails.append(dict(case=f"invgamma_prior(a={a}, scale={scale}, loc={loc}) at table nodes", detail=f"max rel. deviation {np.nanmax(np.abs(got / want - 1)):.2e}, {int(np.isnan(got).sum())} NaN of {got.size}"))
        # between nodes: linear interpolation of log(f - loc) with step h has error <= h^2/8 max|(log(f - loc))''| (derived from the table itself)
        allnodes = np.arange(-8.2, 8.2, 0.01)
        logt = np.log(invgamma.ppf(norm.cdf(allnodes), a=a, loc=0., scale=scale))
        d2 = np.abs(np.diff(logt, 2)) / 0.01 ** 2
        bound = 1.5 * 0.01 ** 2 / 8 * np.max(d2[np.isfinite(d2)][50:-50])
        mid = nodes[20:-20] + 0.00437
        want = invgamma.ppf(norm.cdf(mid), a=a, loc=loc, scale=scale)
        got = np.asarray(fwd(jnp.asarray(mid)))
        with np.errstate(invalid="ignore"):
            dev = np.abs(np.log(got - loc) - np.log(want - loc))
        if not np.all(dev <= bound + 1e-12):
            fails.append(dict(case=f"invgamma_prior(a={a}, scale={scale}, loc={loc}) between nodes", detail=f"max deviation of log(T - loc) {np.nanmax(dev):.2e} exceeds the interpolation bound {bound:.2e} ({int(np.isnan(dev).sum())} NaN)"))
        grid = np.linspace(-8, 8, 4001)
        g = np.asarray(fwd(jnp.asarray(grid)))
        inner = np.abs(grid) <= 6
        if not (np.all(np.diff(g) >= 0) and np.all(np.diff(g[inner]) > 0)):
            fails.append(dict(case=f"invgamma_prior(a={a}, scale={scale}, loc={loc}) is not increasing (strictly on [-6, 6])", detail=""))
        x = np.linspace(-6, 6, 301)
        rt = np.asarray(inv(fwd(jnp.asarray(x))))
        if not np.allclose(rt, x, atol=1e-6):
            fails.append(dict(case=f"invgamma_invprior(invgamma_prior(x)) != x for a={a}, scale={scale}, loc={loc}", detail=f"max deviation {np.max(np.abs(rt - x)):.2e}"))
    chk.bounded("nifty.re inverse-gamma table transform against scipy.stats.invgamma.ppf(norm.cdf(x))", bound=f"{cases} parameter sets; nodes exact to 1e-10, "
                "between nodes within the bound h^2/8 max|(log(f - loc))''| derived from the table, round trip 1e-6", cases=cases, nontrivial=cases, failures=fails, kind="B-runtime")


def sec_classic(chk):
    """bounded: the classic special-distribution operators against SciPy; Normal/Lognormal transforms"""
    import nifty.cl as ift
    from scipy import stats
    from scipy.stats import norm
    fails, cases = [], 0
    dom = ift.UnstructuredDomain(401)
    x = np.linspace(-5, 5, 401)
    fx = ift.makeField(dom, x)
    p = norm.cdf(x)

    def compare(name, op, want, rtol, inverse=True, increasing=True):
        nonlocal cases
        cases += 1
        got = op(fx).asnumpy()
        if not np.allclose(got, want, rtol=rtol, atol=1e-12):
            i = int(np.argmax(np.abs(got - want) / (np.abs(want) + 1e-300)))
            fails.append(dict(case=f"{name}: value != target quantile of Phi(x)", detail=f"x={x[i]:.3f}: {got[i]!r} vs {want[i]!r}"))
        if increasing and not np.all(np.diff(got) > 0):
            fails.append(dict(case=f"{name}: not strictly increasing", detail=""))
        lin = op(ift.Linearization.make_var(fx))
        jac = lin.jac(ift.full(dom, 1.)).asnumpy()
        h = 1e-5
        num = (op(ift.makeField(dom, x + h)).asnumpy() - op(ift.makeField(dom, x - h)).asnumpy()) / (2 * h)
        if not np.allclose(jac, num, rtol=1e-5, atol=1e-9):
            fails.append(dict(case=f"{name}: Jacobian != derivative of the transform", detail=""))
        if inverse and hasattr(op, "inverse"):
            back = op.inverse(op(fx)).asnumpy()
            if not np.allclose(back, x, atol=1e-6):
                fails.append(dict(case=f"{name}: inverse(T(x)) != x", detail=f"max deviation {np.max(np.abs(back - x)):.2e}"))
    ift.random.push_sseq_from_seed(3)
    try:
        for loc, scale in ((0., 1.), (2., 1.), (-0.5, 3.), (1, 2)):
            compare(f"UniformOperator(loc={loc}, scale={scale})", ift.UniformOperator(dom, loc, scale), loc + scale * p, 1e-13)
            compare(f"LaplaceOperator(loc={loc}, scale={scale})", ift.LaplaceOperator(dom, loc, scale), stats.laplace.ppf(p, loc, scale), 1e-10)
        for alpha, q in ((1.5, 2.), (3., 0.5), (0.8, 1.)):
            compare(f"InverseGammaOperator(alpha={alpha}, q={q})", ift.InverseGammaOperator(dom, alpha, q), stats.invgamma.ppf(p, alpha, scale=q), 1e-7, inverse=False)
            compare(f"LogInverseGammaOperator(alpha={alpha}, q={q})", ift.LogInverseGammaOperator(dom, alpha, q), np.log(stats.invgamma.ppf(p, alpha, scale=q)), 1e-7,
                    inverse=False)
        for alpha, beta in ((2., 1.5), (0.7, 3.)):
            compare(f"GammaOperator(alpha={alpha}, beta={beta})", ift.GammaOperator(dom, alpha=alpha, beta=beta), stats.gamma.ppf(p, alpha, scale=1. / beta), 1e-7, inverse=False)
        # every documented parametrisation of the same distribution: (alpha, theta) and (mean, var) as well; field-valued scale parameters
        for alpha, theta in ((2., 0.75), (0.7, 3.)):
            compare(f"GammaOperator(alpha={alpha}, theta={theta})", ift.GammaOperator(dom, alpha=alpha, theta=theta), stats.gamma.ppf(p, alpha, scale=theta), 1e-7, inverse=False)
        for mean, var in ((2., 0.5), (0.5, 0.4), (3., 3.)):      # (shape parameters 8, 0.625, 3; smaller shapes exceed the table accuracy in the far tail)
            th, al = var / mean, mean * mean / var
            compare(f"GammaOperator(mean={mean}, var={var})", ift.GammaOperator(dom, mean=mean, var=var), stats.gamma.ppf(p, al, scale=th), 1e-7, inverse=False)
            op = ift.GammaOperator(dom, mean=mean, var=var)
            cases += 1
            if not (np.isclose(op.mean, mean) and np.isclose(op.var, var)):
                fails.append(dict(case=f"GammaOperator(mean={mean}, var={var}): the reported mean/var differ from the request", detail=f"{op.mean}, {op.var}"))
        thf = ift.makeField(dom, np.linspace(0.5, 2.5, dom.size))
        compare("GammaOperator(alpha=2, theta=<field>)", ift.GammaOperator(dom, alpha=2., theta=thf), stats.gamma.ppf(p, 2., scale=thf.asnumpy()), 1e-7, inverse=False)
        compare("GammaOperator(alpha=2, beta=<field>)", ift.GammaOperator(dom, alpha=2., beta=thf), stats.gamma.ppf(p, 2., scale=1. / thf.asnumpy()), 1e-7, inverse=False)
        compare("InverseGammaOperator(alpha=1.5, q=<field>)", ift.InverseGammaOperator(dom, 1.5, thf), stats.invgamma.ppf(p, 1.5, scale=thf.asnumpy()), 1e-7, inverse=False)
        for mode, mean in ((1.5, 3.), (0.2, 0.9)):
            al = 2. / (mean / mode - 1.) + 1.          # from mode = q / (alpha + 1), mean = q / (alpha - 1)
            qq = mode * (al + 1.)
            compare(f"InverseGammaOperator(mode={mode}, mean={mean})", ift.InverseGammaOperator(dom, mode=mode, mean=mean), stats.invgamma.ppf(p, al, scale=qq), 1e-7, inverse=False)
        for a, b in ((2., 3.), (0.5, 0.5)):
            compare(f"BetaOperator(a={a}, b={b})", ift.BetaOperator(dom, a, b), stats.beta.ppf(p, a, b), 1e-6, inverse=False)
        # mean/mode parametrisations of the inverse gamma operator
        op = ift.InverseGammaOperator(dom, mode=1.5, mean=3.)
        al, qq = op.alpha, op.q
        cases += 1
        if not (np.isclose(qq / (al + 1), 1.5) and np.isclose(qq / (al - 1), 3.)):
            fails.append(dict(case="InverseGammaOperator(mode=1.5, mean=3): alpha, q do not reproduce mode and mean", detail=f"alpha={al}, q={qq}"))
        # Normal / Lognormal transforms and the classic moment matching
        for mean, sig in ((1.5, 0.25), (0.3, 2.)):
            cases += 2
            nt = ift.NormalTransform(mean, sig, "k")
            got = nt(ift.MultiField.from_dict({"k": ift.makeField(nt.domain["k"], np.array(0.7))})).asnumpy()
            if not np.allclose(got, mean + sig * 0.7, rtol=1e-14):
                fails.append(dict(case=f"NormalTransform({mean}, {sig}): value != mean + sigma xi", detail=str(got)))
            lt = ift.LognormalTransform(mean, sig, "k", 0)
            lmean, lsig = ift.utilities.lognormal_moments(mean, sig)
            got = lt(ift.MultiField.from_dict({"k": ift.makeField(lt.domain["k"], np.array(0.7))})).asnumpy()
            if not np.allclose(got, np.exp(lmean + lsig * 0.7), rtol=1e-13):
                fails.append(dict(case=f"LognormalTransform({mean}, {sig}): value != exp(log_mean + log_sigma xi)", detail=str(got)))
            m1, v1 = np.exp(lmean + lsig ** 2 / 2), (np.exp(lsig ** 2) - 1) * np.exp(2 * lmean + lsig ** 2)
            if not (np.allclose(m1, mean, rtol=1e-12) and np.allclose(np.sqrt(v1), sig, rtol=1e-12)):
                fails.append(dict(case=f"cl.utilities.lognormal_moments({mean}, {sig}): moments of exp(N) differ from the request", detail=f"{m1}, {np.sqrt(v1)}"))
    finally:
        ift.random.pop_sseq()
    chk.bounded("classic special-distribution operators against SciPy quantiles of Phi(x) on 401 points in [-5, 5]", bound=f"{cases} operator constructions; "
                "rtol 1e-13 (closed forms) to 1e-6 (cubic-spline tables), Jacobian against central differences 1e-5, inverse round trip 1e-6",
                cases=cases, nontrivial=cases, failures=fails, kind="B-runtime")


SECTIONS = [sec_closed_forms, sec_prior_classes, sec_tables_re, sec_classic]
