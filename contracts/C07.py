"""C07 Fields are immutable once constructed.

Class invariant of Field (contract view):  I(f) :=  f.val.readonly  and  f.val._val.flags.writeable is False
(NumPy then refuses writes through that array object and through every view taken from it afterwards --
assumed NumPy semantics, A-NUMPY).

  lock         AnyArray.lock establishes both parts of I for every wrapped array           (post-condition)
  constructors every public way of obtaining a Field / MultiField establishes I            (class invariant)
  handles      every array handle obtainable from a field is non-writeable or a fresh copy (frame condition)
  histories    bounded driver: constructions interleaved with write attempts; field bytes never change
The code paths involved are data independent (checked syntactically for lock / Field.__init__), so the
concrete runs over the enumerated dtype / shape / layout classes decide the post-conditions for all values.
"""
import ast
import inspect
import itertools

import numpy as np

META = dict(
    title="Fields are immutable once constructed",
    level="other",
    design_ref="DESIGN.md section 4, C07",
    technique="run-time checked contracts (class invariant of Field, post-condition of AnyArray.lock, frame condition on "
              "every array handle) on the real classes over enumerated dtype/shape/layout classes, with a syntactic "
              "data-independence check of the code under contract; bounded history driver",
    text="The invariant 'the wrapped NumPy array is flagged non-writeable and the AnyArray is read-only' is checked as a "
         "post-condition of AnyArray.lock and of every public Field/MultiField constructor, and the frame condition 'a "
         "handle obtained from a field is non-writeable or shares no memory with it' for every accessor. These code paths do "
         "not branch on array contents, so the enumerated runs decide them for all values; sequences of constructions and "
         "write attempts are a bounded stand-in.",
    note="No SMT obligations: the property is about NumPy's writeable flag, which only the real NumPy can exhibit. Assumes "
         "NumPy refuses writes through non-writeable arrays and their later views (A-NUMPY). Views of the caller's buffer "
         "that existed before the field was built cannot be protected without copying (documented behaviour of NumPy flags; "
         "stated, not claimed). GPU arrays (cupy) are not available here.",
    explanation="level 'other': run-time contracts on the real classes with a data-independence argument, plus a bounded "
                "history driver; nothing here is an SMT proof",
)

DTYPES = [np.float64, np.float32, np.complex128, np.int64, np.bool_]


def _arrays(shape):
    """layout classes: fresh C array, Fortran order, non-contiguous view, view of a larger buffer, 0-d, read-only input"""
    rng = np.random.default_rng(0)
    out = []
    for dt in DTYPES:
        base = np.array(rng.normal(size=shape) * 3).astype(dt) if dt is not np.bool_ \
            else np.array(rng.integers(0, 2, size=shape)).astype(bool)
        out.append(("C", dt, base.copy()))
        if len(shape) >= 2:
            out.append(("F", dt, np.asfortranarray(base)))
        big = np.zeros(tuple(2 * s for s in shape), dtype=dt)
        out.append(("strided-view", dt, big[tuple(slice(None, None, 2) for _ in shape)]))
        ro = base.copy()
        ro.flags.writeable = False
        out.append(("read-only-input", dt, ro))
    return out


def _invariant(f):
    v = f.val
    return bool(v.readonly) and (v._val.flags.writeable is False)


def _data_independent(func, allowed_tests=()):
    """no branch of `func` tests array *contents*: every if/while/ternary test is over types, shapes, flags, None"""
    src = inspect.getsource(func)
    tree = ast.parse(__import__("textwrap").dedent(src))
    bad = []
    for node in ast.walk(tree):
        if isinstance(node, (ast.If, ast.While, ast.IfExp)):
            t = ast.unparse(node.test)
            ok = any(k in t for k in ("isinstance", "is None", "is not None", ".shape", "readonly", "_config", "device_id",
                                      "isscalar", "origin", "target", "check_fail", "_writeable") + tuple(allowed_tests))
            if not ok:
                bad.append(t)
    return bad


def sec_lock(chk):
    import nifty.cl as ift
    from nifty.cl.any_array import AnyArray
    chk.under_contract(AnyArray.lock)
    chk.under_contract(AnyArray.__init__)
    chk.assume("A-NUMPY: NumPy refuses writes through arrays flagged non-writeable and through views taken from them afterwards")
    bad = _data_independent(AnyArray.lock) + _data_independent(AnyArray.__init__, allowed_tests=("self._val.shape == tuple()", "self.size"))
    chk.obligation("AnyArray.lock / __init__ do not branch on array contents (data independence)",
                   "discharged" if not bad else "undecided", backend="ast", detail=str(bad))
    fails, n = [], 0
    for shape in ((), (3,), (2, 3)):
        for layout, dt, a in _arrays(shape):
            n += 1
            x = AnyArray(a)
            x.lock()
            if not (x.readonly and x._val.flags.writeable is False and a.flags.writeable is False):
                fails.append(f"shape={shape} layout={layout} dtype={np.dtype(dt).name}: readonly={x.readonly} "
                             f"wrapped.flags.writeable={x._val.flags.writeable} source.flags.writeable={a.flags.writeable}")
    chk.obligation("AnyArray.lock ensures: readonly and the wrapped NumPy array (hence the caller's array object) is "
                   "flagged non-writeable",
                   "discharged" if not fails else "refuted", backend="concrete-path(data-independent)",
                   detail="; ".join(fails[:3]), model=dict(failing=fails[:5], classes=n))
    chk.sample(dict(lock_runs=n, example="AnyArray(np.ones((2,3))).lock()"))


def _constructors(ift, dom, mdom, a):
    """every public way to obtain a Field / MultiField from (or next to) the array `a` of dom.shape"""
    from nifty.cl.any_array import AnyArray
    f0 = ift.Field(ift.DomainTuple.make(dom), a)
    yield "Field(domain, ndarray)", f0
    yield "Field(domain, AnyArray)", ift.Field(ift.DomainTuple.make(dom), AnyArray(a.copy()))
    yield "Field.from_raw", ift.Field.from_raw(dom, a.copy())
    yield "Field.from_raw(scalar)", ift.Field.from_raw(dom, 2.0)
    yield "makeField", ift.makeField(dom, a.copy())
    yield "Field.full", ift.Field.full(dom, 1.5)
    yield "sugar.full", ift.full(dom, 1.5)
    yield "Field.scalar", ift.Field.scalar(3.0)
    yield "Field.from_random", ift.Field.from_random(dom, "normal")
    yield "from_random", ift.from_random(dom, "normal")
    yield "cast_domain", f0.cast_domain(ift.UnstructuredDomain(dom.shape) if len(dom.shape) == 1 else dom)
    yield "astype", f0.astype(np.float32 if f0.dtype == np.float64 else f0.dtype)
    yield "binary op", f0 + f0
    yield "scalar op", 2 * f0
    yield "unary", -f0
    yield "conjugate", f0.conjugate()
    if np.issubdtype(f0.dtype, np.complexfloating):
        yield "real", f0.real
        yield "imag", f0.imag
    if np.issubdtype(f0.dtype, np.floating):
        yield "ptw", f0.ptw("exp")
        yield "clip", f0.clip(-1, 1)
    yield "at(-1)", f0.at(-1)
    yield "val_rw->Field", ift.Field(f0.domain, f0.val_rw())
    mf = ift.MultiField.from_dict({"a": f0, "b": ift.Field.from_raw(dom, a.copy())})
    yield "MultiField.from_dict['b']", mf["b"]
    yield "MultiField.from_raw['a']", ift.MultiField.from_raw(mf.domain, {"a": a.copy(), "b": a.copy()})["a"]
    yield "MultiField binary['a']", (mf + mf)["a"]
    yield "MultiField.full['a']", ift.MultiField.full(mf.domain, 1.0)["a"]
    yield "MultiField.extract['a']", mf.extract_by_keys(["a"])["a"]
    yield "MultiField.union['b']", ift.MultiField.union([mf, mf.extract_by_keys(["a"])])["b"]


def sec_constructors(chk):
    import nifty.cl as ift
    chk.under_contract(ift.Field.__init__)
    for nm in ("full", "from_raw", "from_random", "scalar", "cast_domain", "astype", "at"):
        chk.under_contract(getattr(ift.Field, nm))
    chk.under_contract(ift.makeField)
    chk.under_contract(ift.MultiField.from_dict)
    chk.under_contract(ift.MultiField.from_raw)
    bad = _data_independent(ift.Field.__init__, allowed_tests=("domain.shape != val.shape",))
    chk.obligation("Field.__init__ does not branch on array contents (data independence)",
                   "discharged" if not bad else "undecided", backend="ast", detail=str(bad))
    # no construction path around Field.__init__
    import nifty.cl.field as fmod
    import nifty.cl.multi_field as mfmod
    import nifty.cl.sugar as sugar
    hits = []
    for mod in (fmod, mfmod, sugar):
        tree = ast.parse(inspect.getsource(mod))
        for node in ast.walk(tree):
            if isinstance(node, ast.Call):
                s = ast.unparse(node.func)
                if s in ("Field.__new__", "object.__new__") or s.endswith(".__new__") and "Field" in ast.unparse(node):
                    hits.append((mod.__name__, node.lineno, ast.unparse(node)[:60]))
            if isinstance(node, ast.Assign) and any(ast.unparse(t).endswith(".__class__") for t in node.targets):
                hits.append((mod.__name__, node.lineno, "__class__ assignment"))
    chk.obligation("no Field is created around Field.__init__ (no __new__ / __class__ tricks in field.py, multi_field.py, sugar.py)",
                   "discharged" if not hits else "refuted", backend="ast", detail=str(hits))
    fails, n, kinds = [], 0, set()
    for shape in ((3,), (2, 2)):
        dom = ift.RGSpace(shape)
        for layout, dt, a in _arrays(shape):
            if dt in (np.int64, np.bool_):
                continue
            for name, f in _constructors(ift, dom, None, a):     # an exception here is a harness error -> checker crash
                n += 1
                kinds.add(name)
                if not _invariant(f):
                    fails.append(f"{name} (dtype={np.dtype(dt).name}, layout={layout}): readonly={f.val.readonly} "
                                 f"flags.writeable={f.val._val.flags.writeable}")
    uniq = sorted(set(x.split(" (")[0] for x in fails))
    chk.obligation("class invariant: every public constructor / arithmetic result yields a Field whose array is flagged "
                   "non-writeable and read-only",
                   "discharged" if not fails else "refuted", backend="concrete-path(data-independent)",
                   detail=f"{len(fails)} of {n} constructions violate it; kinds: {uniq[:12]}", model=dict(failing=fails[:6]))
    chk.sample(dict(constructions=n, kinds=sorted(kinds)[:8]))


def _raw(x):
    """AnyArray -> wrapped array; scalar results (0-d contractions) are immutable Python numbers: a fresh array"""
    return x.val if hasattr(x, "val") else np.asarray(x)


def _handles(f):
    """every array handle obtainable from a field"""
    v = f.val
    yield "raw", f.raw
    yield "val.val", v.val
    yield "asnumpy()", f.asnumpy()
    yield "val.asnumpy()", v.asnumpy()
    yield "np.asarray(val.val)", np.asarray(v.val)
    yield "val[...]", _raw(v[...])
    if v.ndim >= 1:
        yield "val[0:1]", _raw(v[0:1])
    yield "val.view()", _raw(v.view())
    yield "val.reshape(-1)", _raw(v.reshape(-1))
    yield "val.real", _raw(v.real)
    yield "val.T", _raw(v.T)
    yield "val.flatten()", _raw(v.flatten())
    yield "val.conj()", _raw(v.conj())
    yield "val_rw()", _raw(f.val_rw())
    yield "asnumpy_rw()", f.asnumpy_rw()
    yield "val.copy()", _raw(v.copy())
    yield "val.at(-1)", _raw(v.at(-1))


def sec_handles(chk):
    import nifty.cl as ift
    from nifty.cl.any_array import AnyArray
    for nm in ("val", "asnumpy", "view", "copy", "__getitem__", "real", "imag", "at"):
        chk.under_contract(getattr(AnyArray, nm) if not isinstance(getattr(AnyArray, nm), property) else getattr(AnyArray, nm).fget)
    fails, fails_rw, n = [], [], 0
    fields = []
    for shape in ((3,), (2, 2)):
        dom = ift.RGSpace(shape)
        for layout, dt, a in _arrays(shape):
            if dt in (np.int64, np.bool_):
                continue
            fields.append((f"dtype={np.dtype(dt).name}, layout={layout}", ift.Field(ift.DomainTuple.make(dom), a)))
    # scalar-domain fields (0-d arrays): Field.scalar, contraction results, scalar entries of a MultiField
    f3 = ift.Field.from_raw(ift.RGSpace(3), np.array([1., 2., 3.]))
    fields += [("Field.scalar", ift.Field.scalar(3.)), ("Field.scalar(complex)", ift.Field.scalar(1. + 2.j)),
               ("sum() result", f3.sum()), ("vdot-field", ift.Field.scalar(f3.s_vdot(f3))),
               ("MultiField scalar entry", ift.MultiField.from_dict({"s": ift.Field.scalar(2.), "v": f3})["s"])]
    for what, f in fields:
        base = f.val._val
        for name, h in _handles(f):
            n += 1
            if h.flags.writeable and np.shares_memory(h, base):
                fails.append(f"{name} ({what}) is writeable and shares memory with the field")
            if name in ("val_rw()", "asnumpy_rw()", "val.copy()") and not (h.flags.writeable and not np.shares_memory(h, base)):
                fails_rw.append(f"{name} ({what}): writeable={h.flags.writeable} shares_memory={np.shares_memory(h, base)}")
    uniq = sorted(set(x.split(" (")[0] for x in fails))
    chk.obligation("frame: every array handle obtained from a field is non-writeable or shares no memory with the field",
                   "discharged" if not fails else "refuted", backend="concrete-path(data-independent)",
                   detail=f"{len(fails)} of {n}; handles: {uniq}", model=dict(failing=fails[:6]))
    chk.obligation("val_rw / asnumpy_rw / copy return a fresh writeable copy (writeable and sharing no memory with the field)",
                   "discharged" if not fails_rw else "refuted", backend="concrete-path(data-independent)",
                   detail="; ".join(fails_rw[:4]), model=dict(failing=fails_rw[:6]))


def _try(fn):
    try:
        fn()
        return "done"
    except (ValueError, TypeError, RuntimeError) as e:
        return f"refused:{type(e).__name__}"


def sec_histories(chk):
    """bounded: constructions interleaved with write attempts through source array, handles, in-place operators, out="""
    import nifty.cl as ift
    from nifty.cl.any_array import AnyArray
    rng = np.random.default_rng(7 + chk.seed)
    fails, n, nontriv, samples = [], 0, 0, []
    dom = ift.RGSpace(4)
    dt = ift.DomainTuple.make(dom)

    def writers(src, f):
        v = f.val
        one = AnyArray(np.ones(4))
        yield "source[0] = 5", lambda: src.__setitem__(0, 5.)
        yield "source += 1", lambda: src.__iadd__(1.)
        yield "raw[1] = 7", lambda: f.raw.__setitem__(1, 7.)
        yield "asnumpy()[2] = 9", lambda: f.asnumpy().__setitem__(2, 9.)
        yield "val[0] = 3", lambda: v.__setitem__(0, 3.)
        yield "val[0:2][0] = 3", lambda: v[0:2].__setitem__(0, 3.)
        yield "val.view()[1] = 3", lambda: v.view().__setitem__(1, 3.)
        yield "val.reshape(2,2)[0,0] = 3", lambda: v.reshape(2, 2).__setitem__((0, 0), 3.)
        yield "val.real[0] = 3", lambda: v.real.__setitem__(0, 3.)
        yield "val += one", lambda: v.__iadd__(one)
        yield "val[0:4] += one", lambda: v[0:4].__iadd__(one)
        yield "val *= one", lambda: v.__imul__(one)
        yield "np.add(one, one, out=val)", lambda: np.add(one, one, out=v)
        yield "np.multiply(val, 2, out=val)", lambda: np.multiply(v, 2., out=v)
        yield "np.copyto(raw, 0)", lambda: np.copyto(f.raw, 0.)
        yield "raw.fill(0)", lambda: f.raw.fill(0.)
        yield "val.val.sort()", lambda: v.val.sort()
        yield "np.asarray(val.val)[0] = 1", lambda: np.asarray(v.val).__setitem__(0, 1.)

    ctors = {
        "Field(domain, ndarray)": lambda a: ift.Field(dt, a),
        "Field(domain, AnyArray)": lambda a: ift.Field(dt, AnyArray(a)),
        "from_raw": lambda a: ift.Field.from_raw(dom, a),
        "makeField": lambda a: ift.makeField(dom, a),
        "MultiField.from_raw['k']": lambda a: ift.MultiField.from_raw(ift.MultiDomain.make({"k": dom}), {"k": a})["k"],
    }
    class _Sub(np.ndarray):
        """a user-defined ndarray subclass"""

    def kinds():
        """source arrays of every array type a user can hand over: plain ndarray and ndarray subclasses (views of the same kind of buffer)"""
        yield "ndarray", lambda a: a
        yield "ndarray subclass", lambda a: a.view(_Sub)
        yield "masked array", lambda a: np.ma.masked_array(a)
        yield "np.memmap-like recarray view", lambda a: a.view(np.recarray)
    runs = [(f"{cname} [{kname} source]", ctor, mk) for cname, ctor in ctors.items() for kname, mk in kinds() if kname == "ndarray" or cname in ("Field(domain, ndarray)", "makeField")]
    for cname, ctor, mk in runs:
        src = mk(rng.normal(size=4))
        try:
            f = ctor(src)
        except Exception as e:  # noqa: BLE001
            samples.append(dict(constructor=cname, outcome=f"refused: {type(e).__name__}")) if len(samples) < 6 else None
            continue
        D = ift.makeOp(f)
        probe = ift.full(dom, 1.)
        for wname, w in writers(src, f):
            n += 1
            before = f.val._val.tobytes()
            out_before = D(probe).asnumpy().copy()
            res = _try(w)
            changed = f.val._val.tobytes() != before
            op_changed = not np.array_equal(D(probe).asnumpy(), out_before)
            nontriv += 1
            if changed or op_changed:
                fails.append(dict(case=f"{cname}; then {wname}", detail=f"write attempt {res}: field bytes changed={changed}, "
                                  f"DiagonalOperator built from the field changed={op_changed}"))
                # restore for the next attempt
                src = mk(rng.normal(size=4))
                f = ctor(src)
                D = ift.makeOp(f)
            elif len(samples) < 3:
                samples.append(dict(constructor=cname, write=wname, outcome=res))
    chk.bounded("no write attempt after construction changes a field's bytes or the action of an operator built from it",
                bound="5 constructors (plain ndarray sources) + 2 constructors x 3 ndarray-subclass sources, each x 18 write attempts (source array, raw/val/numpy handles, views, in-place operators, out=)",
                cases=n, nontrivial=nontriv, failures=fails, samples=samples, kind="B-runtime")


SECTIONS = [sec_lock, sec_constructors, sec_handles, sec_histories]
