"""C36 Fit-quality diagnostics report the documented statistics.

Contract of the classic minisanity(likelihood_energy, samples, return_values=True), per key k of the data residuals and of the
latent variables, with r_s the normalised residual (resp. the latent sample) of sample s, U_s its entries that are neither NaN nor
exactly zero (the ignored entries) and n_s = |U_s|:
    redchisq[k].mean == 1/S sum_s ( sum_{i in U_s} |r_s,i|^2 / n_s )      scmean[k].mean == 1/S sum_s ( sum_{i in U_s} r_s,i / n_s )
    redchisq/scmean[k].std == unbiased sample standard deviation of these per-sample values (None for one sample)
    ndof[k] + nigndof[k] == number of entries, nigndof == number of ignored entries (of the sample the counts are reported for)
Engine O: the real function runs on fields of sympy symbols in which the ignore pattern (NaN in the data, exact zeros) is
enumerated; NumPy's isnan/nansum on object arrays are re-bound to their meaning.  The values are identities in all other entries.
Contract of nifty.re.reduced_residual_stats (Engine J on its jaxpr): mean == 1/S sum_s sum_i r/size, reduced_chisq == 1/S sum_s
sum |r|^2 / ndof with ndof = size (real) or 2 size (complex).
Agreement clause: on the same real samples without ignored entries both report the same reduced chi-square, mean and ndof.  With
NaN or exactly-zero entries, or complex residuals, the two implementations follow different conventions (known findings).
"""
import itertools

import numpy as np
import sympy as sp

from vf import jaxsym, objx
from vf.jaxsym import sym_call, symbols
from vf.objx import SX, eq_status, exprs
from vf.ofield import np_proxy

META = dict(
    title="Fit-quality diagnostics report the documented statistics",
    level="other",
    design_ref="DESIGN.md section 4, C36",
    technique="contract of classic minisanity (reduced chi-square / mean == sample average of the per-sample means over non-ignored "
              "entries, counts of used and ignored entries) discharged on the real function executed on symbolic samples with "
              "enumerated NaN / exact-zero patterns (Engine O; NumPy isnan/nansum re-bound for object arrays); contract of the JAX "
              "reduced_residual_stats on its jaxpr (Engine J); agreement of the two on the same symbolic samples",
    text="For one- and two-key models, one to three samples and every enumerated pattern of NaN data and exactly-zero residuals "
         "(also differing from sample to sample and all-ignored samples): the classic diagnostics report, per key, the sample "
         "average of the mean squared (resp. plain) normalised residual over the non-ignored entries, the unbiased sample standard "
         "deviation, and used / ignored counts that add up to the size; the JAX diagnostics report the plain averages with ndof = "
         "size (2 size for complex input); on real samples without ignored entries both agree in reduced chi-square, mean and ndof.",
    note="Universal in the non-ignored residual values (symbols); bounded in the skeleton (4-pixel keys, <= 3 samples, the enumerated "
         "ignore patterns). Known findings: the JAX diagnostics neither ignore NaN/zero entries nor report ignored counts, and count a "
         "complex entry as two degrees of freedom where the classic ones count one. Standard deviations follow different conventions "
         "(classic unbiased, JAX population) and are not part of the agreement clause.",
    explanation="level 'other': symbolic identities on the real code for enumerated skeletons and ignore patterns",
)

N = 4
NAN = float("nan")


def _isnan(x):
    a = np.asarray(x, dtype=object) if not isinstance(x, np.ndarray) or x.dtype == object else x
    if a.dtype != object:
        return np.isnan(a)
    out = np.zeros(a.shape, dtype=bool)
    for i, e in np.ndenumerate(a):
        v = e.e if isinstance(e, SX) else e
        out[i] = (v is sp.nan) or (isinstance(v, float) and v != v) or (hasattr(v, "has") and v.has(sp.nan))
    return out


def _nansum(x):
    a = np.asarray(x, dtype=object)
    tot = 0
    for e in a.ravel():
        if not _isnan(np.array([e], dtype=object))[0]:
            tot = tot + e
    return tot


def _world(ift, S, pattern, keys=("a",), cplx=False):
    """samples (list of MultiFields of symbols), data with NaNs, and the per-sample residual expressions.
    pattern[s][i] in {'.', '0', 'n'}: generic / residual exactly zero in sample s / NaN datum (all samples)"""
    dom = ift.UnstructuredDomain(N)
    dt = ift.DomainTuple.make(dom)
    d = np.array([0.5, -1.25, 2., 0.75])
    for i in range(N):
        if any(pattern[s][i] == "n" for s in range(S)):
            d[i] = NAN
    w = np.array([4., 1., 0.25, 9.])           # inverse variances; sqrt = 2, 1, 1/2, 3
    sw = [2, 1, sp.Rational(1, 2), 3]
    lh = ift.GaussianEnergy(data=ift.makeField(dom, d), inverse_covariance=ift.makeOp(ift.makeField(dom, w), sampling_dtype=float))
    ads = [ift.FieldAdapter(dt, k) for k in keys]
    model = ads[0]
    for a in ads[1:]:
        model = model + a
    lh = lh @ model
    samples, syms = [], []
    for s in range(S):
        fl, sy = {}, {}
        for k in keys:
            arr = np.empty(N, dtype=object)
            row = []
            for i in range(N):
                if pattern[s][i] == "0" and k == keys[0] and not np.isnan(d[i]):
                    # make the model output equal the datum: first key takes datum minus the other keys' symbols (added below)
                    e = None
                else:
                    e = sp.Symbol(f"x{s}{k}{i}", real=True)
                row.append(e)
            sy[k] = row
        for i in range(N):
            if sy[keys[0]][i] is None:
                sy[keys[0]][i] = sp.nsimplify(d[i], rational=True) - sum(sy[k][i] for k in keys[1:])
        for k in keys:
            arr = np.empty(N, dtype=object)
            for i in range(N):
                arr[i] = SX(sy[k][i])
            fl[k] = ift.Field(dt, arr)
        samples.append(ift.MultiField.from_dict(fl))
        syms.append(sy)
    res = []
    for s in range(S):
        row = []
        for i in range(N):
            if np.isnan(d[i]):
                row.append(sp.nan)
            else:
                row.append(sp.expand(sw[i] * (sum(syms[s][k][i] for k in keys) - sp.nsimplify(d[i], rational=True))))
        res.append(row)
    return lh, samples, syms, res


def _expected(rows):
    """per-sample (chisq, mean, n_used, n_ign) and their averages for rows of sympy residual entries"""
    per = []
    for r in rows:
        used = [e for e in r if e is not sp.nan and e != 0]
        nign = len(r) - len(used)
        if used:
            per.append((sum(sp.Abs(e) ** 2 for e in used) / len(used), sum(used) / len(used), len(used), nign))
        else:
            per.append((sp.Integer(0), sp.Integer(0), 0, nign))
    S = len(per)
    chisq = sum(p[0] for p in per) / S
    mean = sum(p[1] for p in per) / S
    if S > 1:
        sdc = sp.sqrt(sum((p[0] - chisq) ** 2 for p in per) / (S - 1))
        sdm = sp.sqrt(sum((p[1] - mean) ** 2 for p in per) / (S - 1))
    else:
        sdc = sdm = None
    return per, chisq, mean, sdc, sdm


def _eq(chk, label, got, want):
    st = eq_status(sp.sympify(got), sp.sympify(want), n=5)
    chk.obligation(label, st[0], backend=st[1], detail=st[2])


import contextlib  # noqa: E402


@contextlib.contextmanager
def _no_table(extra):
    old = extra._tableentries
    extra._tableentries = lambda *a, **k: ""
    try:
        yield
    finally:
        extra._tableentries = old


PATTERNS = {
    1: ["....", "0...", "...n", "0.n.", ".00."],
    2: ["....|....", "0...|0...", "..n.|..n.", "0...|....", "....|.0.0", "0.n.|.0n."],
    3: ["....|....|....", "0...|.0..|....", "..n.|0.n.|..n."],
}


def sec_classic(chk):
    import nifty.cl as ift
    from nifty.cl import extra
    chk.under_contract(extra.minisanity)
    chk.assume("A-NUMPY: np.isnan / np.nansum on object arrays re-bound to their defining meaning (NaN entries detected / skipped)")
    pats = dict(PATTERNS)
    chk.stub("extra._tableentries (formatting of the printed table) is replaced by an empty string: presentation only, the returned values are under contract")
    with objx.patched(), np_proxy(extra, isnan=_isnan, nansum=_nansum), _no_table(extra):
        for S, plist in pats.items():
            for p in plist:
                for keys in (("a",), ("a", "b")):
                    if keys == ("a", "b") and chk.tier == "quick" and p not in ("....", "0.n.|.0n.", "....|....", "..n.|0.n.|..n."):
                        continue
                    pattern = p.split("|")
                    lab = f"classic: samples={S} keys={list(keys)} pattern {p}"
                    lh, samples, syms, res = _world(ift, S, pattern, keys)
                    sl = ift.SampleList(samples)
                    _, val = extra.minisanity(lh, sl, terminal_colors=False, return_values=True)
                    dkey = list(val["redchisq"]["data_residuals"].keys())[0]
                    per, chisq, mean, sdc, sdm = _expected(res)
                    _eq(chk, f"{lab}: data residuals: reduced chi-square == sample average of the mean squared residual over non-ignored entries",
                        exprs(np.array(val["redchisq"]["data_residuals"][dkey]["mean"], dtype=object))[0], chisq)
                    _eq(chk, f"{lab}: data residuals: mean == sample average of the mean residual over non-ignored entries",
                        exprs(np.array(val["scmean"]["data_residuals"][dkey]["mean"], dtype=object))[0], mean)
                    if S > 1:
                        _eq(chk, f"{lab}: data residuals: std of the reduced chi-square == unbiased sample standard deviation (squared)",
                            sp.expand(exprs(np.array(val["redchisq"]["data_residuals"][dkey]["std"], dtype=object))[0] ** 2), sp.expand(sdc ** 2))
                    else:
                        chk.obligation(f"{lab}: data residuals: no standard deviation for a single sample", "discharged" if val["redchisq"]["data_residuals"][dkey]["std"] is None
                                       else "refuted", backend="identity")
                    nd, ni = val["ndof"]["data_residuals"][dkey], val["nigndof"]["data_residuals"][dkey]
                    ok = nd + ni == N and any(nd == q[2] and ni == q[3] for q in per)
                    chk.obligation(f"{lab}: data residuals: used and ignored counts add up to the size and are those of a sample", "discharged" if ok else "refuted",
                                   backend="identity", detail=f"ndof={nd}, nigndof={ni}, per-sample (used, ignored) = {[(q[2], q[3]) for q in per]}")
                    if len({(q[2], q[3]) for q in per}) == 1:
                        chk.obligation(f"{lab}: data residuals: ndof == number of non-ignored entries, nigndof == number of ignored entries",
                                       "discharged" if (nd, ni) == (per[0][2], per[0][3]) else "refuted", backend="identity")
                    for k in keys:
                        rows = [[sp.expand(syms[s][k][i]) for i in range(N)] for s in range(S)]
                        perk, ck, mk, _, _ = _expected(rows)
                        _eq(chk, f"{lab}: latent key '{k}': reduced chi-square == sample average of the mean squared value",
                            exprs(np.array(val["redchisq"]["latent_variables"][k]["mean"], dtype=object))[0], ck)
                        _eq(chk, f"{lab}: latent key '{k}': mean == sample average of the mean value",
                            exprs(np.array(val["scmean"]["latent_variables"][k]["mean"], dtype=object))[0], mk)
                        ok = val["ndof"]["latent_variables"][k] + val["nigndof"]["latent_variables"][k] == N
                        chk.obligation(f"{lab}: latent key '{k}': used and ignored counts add up to the size", "discharged" if ok else "refuted", backend="identity")


def _jax_stats(S, arr, cplx=False):
    import jax
    jax.config.update("jax_enable_x64", True)
    import jax.numpy as jnp
    import nifty.re as jft
    import importlib
    ms = importlib.import_module("nifty.re.minisanity")
    ex = jnp.ones((S, N)) * ((1 + 1j) if cplx else 1.)
    out, _ = sym_call(lambda x: ms.reduced_residual_stats(jft.Samples(pos=None, samples=x), map="vmap"), (ex,), (arr,))
    return out


def sec_jax(chk):
    import importlib
    ms = importlib.import_module("nifty.re.minisanity")
    chk.under_contract(ms.reduced_residual_stats)
    chk.under_contract(ms._residual_params)
    chk.assume("A-REAL; A-JAXTRACE")
    for S in (1, 2, 3):
        x = symbols((S, N), "x", real=True)
        st = _jax_stats(S, x)
        rows = [list(x[s]) for s in range(S)]
        chisq = sum(sum(e * e for e in r) / N for r in rows) / S
        mean = sum(sum(r) / N for r in rows) / S
        _eq(chk, f"jax: samples={S} real: reduced_chisq[0] == sample average of sum r^2 / size", jaxsym.to_obj(np.asarray(st.reduced_chisq))[0], chisq)
        _eq(chk, f"jax: samples={S} real: mean[0] == sample average of sum r / size", jaxsym.to_obj(np.asarray(st.mean))[0], mean)
        chk.obligation(f"jax: samples={S} real: ndof == size", "discharged" if int(np.asarray(st.ndof)) == N else "refuted", backend="identity")
        xr, xi = symbols((S, N), "xr", real=True), symbols((S, N), "xi", real=True)
        st = _jax_stats(S, xr + sp.I * xi, cplx=True)
        chisq = sum(sum(a * a + b * b for a, b in zip(xr[s], xi[s])) / (2 * N) for s in range(S)) / S
        _eq(chk, f"jax: samples={S} complex: reduced_chisq[0] == sample average of sum |r|^2 / (2 size)", sp.expand(jaxsym.to_obj(np.asarray(st.reduced_chisq))[0]), sp.expand(chisq))
        chk.obligation(f"jax: samples={S} complex: ndof == 2 size", "discharged" if int(np.asarray(st.ndof)) == 2 * N else "refuted", backend="identity")
        # the mean of complex entries is their plain (complex) average over the entries -- the entry count, not the number of real degrees of freedom
        cmean = sum(sum(a + sp.I * b for a, b in zip(xr[s], xi[s])) / N for s in range(S)) / S
        _eq(chk, f"jax: samples={S} complex: mean[0] == sample average of sum r / size (as for real input)", sp.expand(jaxsym.to_obj(np.asarray(st.mean))[0]), sp.expand(cmean))


def sec_agreement(chk):
    """classic vs JAX on the same latent samples"""
    import nifty.cl as ift
    from nifty.cl import extra
    with objx.patched(), np_proxy(extra, isnan=_isnan, nansum=_nansum), _no_table(extra):
        for S, plist in PATTERNS.items():
            for p in plist:
                pattern = p.split("|")
                if any("n" in q for q in pattern):
                    continue        # NaN enters through the data only; latent samples are compared
                lab = f"agreement{'[exact zeros present]' if '0' in p else ''}: samples={S} latent pattern {p}"
                # latent samples with exact zeros where the pattern says so
                rows = [[sp.Integer(0) if pattern[s][i] == "0" else sp.Symbol(f"x{s}_{i}", real=True) for i in range(N)] for s in range(S)]
                dom = ift.UnstructuredDomain(N)
                fields = []
                for r in rows:
                    arr = np.empty(N, dtype=object)
                    for i in range(N):
                        arr[i] = SX(r[i]) if r[i] != 0 else 0.
                    fields.append(ift.MultiField.from_dict({"a": ift.Field(ift.DomainTuple.make(dom), arr)}))
                lh = ift.GaussianEnergy(data=ift.makeField(dom, np.array([0.5, -1.25, 2., 0.75]))) @ ift.FieldAdapter(dom, "a")
                _, val = extra.minisanity(lh, ift.SampleList(fields), terminal_colors=False, return_values=True)
                arr = np.array(rows, dtype=object)
                st = _jax_stats(S, arr)
                c_chi = exprs(np.array(val["redchisq"]["latent_variables"]["a"]["mean"], dtype=object))[0]
                c_mean = exprs(np.array(val["scmean"]["latent_variables"]["a"]["mean"], dtype=object))[0]
                j_chi, j_mean = jaxsym.to_obj(np.asarray(st.reduced_chisq))[0], jaxsym.to_obj(np.asarray(st.mean))[0]
                _eq(chk, f"{lab}: classic and JAX report the same reduced chi-square", c_chi, j_chi)
                _eq(chk, f"{lab}: classic and JAX report the same mean", c_mean, j_mean)
                ok = val["ndof"]["latent_variables"]["a"] == int(np.asarray(st.ndof))
                chk.obligation(f"{lab}: classic and JAX report the same number of degrees of freedom", "discharged" if ok else "refuted", backend="identity",
                               detail=f"classic ndof {val['ndof']['latent_variables']['a']} (+{val['nigndof']['latent_variables']['a']} ignored), JAX ndof {int(np.asarray(st.ndof))}")


def _native(ob):
    import json
    import os
    import subprocess
    import sys
    here = os.path.dirname(os.path.abspath(__file__))
    p = subprocess.run([sys.executable, os.path.join(here, "native", "C36_native.py")], capture_output=True, text=True, timeout=600)
    try:
        return json.loads(p.stdout.strip().splitlines()[-1])
    except Exception:  # noqa: BLE001
        return dict(reproduced=False, error=p.stderr[-500:])


REPLAY = {"agreement[exact zeros present]": _native}

SECTIONS = [sec_classic, sec_jax, sec_agreement]
