"""C31 Multi-grid index maps are consistent at every level.

Engine S/O: the source of nifty/re/multi_grid/grid.py is re-executed on every run with `jnp`/`lax.select` bound to a NumPy
object-array shim (vf/npshim.py) and the index maps of the real classes run on *symbolic* integer indices (z3 Int).  For every
enumerated grid configuration (shape0, splits, padding, ordering: bounded) and every level, the obligations hold for ALL
indices of the level:
  P1 parent(children(i)) == i (each child);  children lie inside the next level and are pairwise distinct
  P2 every index j of the next level is one of the children of parent(j)   (P1+P2: the children partition the next level)
  P3 coord2index(index2coord(i)) == i
  P4 flatindex2index(index2flatindex(i)) == i, 0 <= flat < size, and index2flatindex(flatindex2index(f)) == f
  P5 neighbourhoods: entry k is (i + k - w//2) wrapped modulo the shape (closed grids) or clipped into the grid (open grids)
  P6 sum of the children's volumes == volume(i) ("refinement never creates volume"), and each child's coordinate lies in the
     parent's cell
Grids whose geometry needs floats or tables (HEALPix pix2vec, logarithmic radii, SimpleOpenGrid distances, sparse mappings)
are enumerated natively over all indices (bounded stand-in).
"""
import inspect
import itertools

import numpy as np
import z3

from vf import npshim, symx
from vf.npshim import JNP, oarr, select
from vf.symx import SymInt, SymReal, fresh_int

META = dict(
    title="Multi-grid index maps are consistent at every level",
    level="other",
    design_ref="DESIGN.md section 4, C31",
    technique="the real index-map methods (grid.py re-executed on every run with jnp bound to a NumPy object-array shim) run on "
              "symbolic integer indices; parent/children/partition/coordinate/flat-index/neighbourhood/volume post-conditions "
              "discharged by z3 for all indices of each enumerated configuration; float geometries enumerated natively (bounded)",
    text="For the enumerated regular, open (padded), product and flattened (serial and nest) grid configurations and every level, "
         "for every index: parents of children are the index, children partition the next level, index/coordinate and flat-index "
         "conversions round-trip, neighbourhoods wrap (closed) or clip (open) consistently and the children's volumes add up to "
         "the parent's. HEALPix, logarithmic, SimpleOpenGrid and sparse grids: the same statements natively for all indices of "
         "small instances.",
    note="Universal in the index (z3 Int, every in-range value); bounded in the configuration list (1-3 dimensions, shapes <= 7, "
         "splits 1-4, paddings 0-2, depth <= 3). The shim maps jnp functions to their NumPy object-array meaning "
         "(select/abs/sign/rint as terms); machine integers are mathematical (no overflow).",
    explanation="level 'other': all-index proofs per enumerated configuration (B-shape) plus native enumeration for float geometries",
)


def _module():
    import nifty.re.multi_grid.grid as G
    npshim.install_int_elements()
    src = inspect.getsource(G)
    ns = {"__name__": "nifty.re.multi_grid.grid(verif)", "__package__": "nifty.re.multi_grid"}
    exec(compile(src, G.__file__, "exec"), ns)
    ns["jnp"] = JNP()
    ns["select"] = select

    def eval_shape(f, sds):
        class R:
            shape = np.asarray(f(np.zeros(sds.shape, dtype=np.int64))).shape
        return R
    ns["eval_shape"] = eval_shape
    ns["ShapeDtypeStruct"] = lambda shape, dtype: type("SDS", (), dict(shape=shape, dtype=dtype))
    return ns


def _sym_index(ctx, name, shape, lo=None, hi=None):
    """a symbolic in-range index vector (0 <= i_d < shape_d, or the given bounds)"""
    n = len(shape)
    a = np.empty(n, dtype=object)
    for d in range(n):
        a[d] = fresh_int(f"{name}{d}")
        l = 0 if lo is None else int(lo[d])
        h = int(shape[d]) if hi is None else int(hi[d])
        ctx.assume((a[d] >= l) & (a[d] < h))
    return oarr(a)


def _vec(arr, k):
    """the index vector at batch position k of an array of shape (ndim, *batch)"""
    return oarr(np.array([arr[(d,) + tuple(k)] for d in range(arr.shape[0])], dtype=object))


def _eq_vec(a, b):
    out = True
    for x, y in zip(np.asarray(a, dtype=object).ravel(), np.asarray(b, dtype=object).ravel()):
        out = (x == y) & out if out is not True else (x == y)
    return out


def _as_sym_real(x):
    if isinstance(x, (SymReal, SymInt)):
        return x
    return SymReal(symx._frac(float(x)))


CLOSED = [dict(shape0=(3,), splits=((2,),)), dict(shape0=(2,), splits=((3,), (2,))), dict(shape0=(4,), splits=((1,), (4,))),
          dict(shape0=(3, 2), splits=((2, 3),)), dict(shape0=(2, 3), splits=((2, 2), (3, 1))), dict(shape0=(1, 5), splits=((4, 2),)),
          dict(shape0=(2, 2, 3), splits=((2, 1, 2),)), dict(shape0=(7,), splits=((2,), (2,), (2,)))]
OPEN = [dict(shape0=(5,), splits=((2,),), padding=((1,),)), dict(shape0=(6,), splits=((3,), (2,)), padding=((1,), (2,))),
        dict(shape0=(7,), splits=((4,),), padding=((2,),)), dict(shape0=(5, 4), splits=((2, 3),), padding=((1, 1),)),
        dict(shape0=(5, 6), splits=((3, 2), (2, 3)), padding=((1, 2), (1, 0))), dict(shape0=(4,), splits=((2,), (3,), (2,)), padding=((1,), (1,), (2,))),
        dict(shape0=(3,), splits=((2,),), padding=((0,),)), dict(shape0=(7,), splits=((1,), (3,)), padding=((2,), (1,)))]


def _refined_bounds(lvl):
    pad = getattr(lvl, "padding", None)
    if pad is None:
        return np.zeros(lvl.ndim, dtype=int), np.asarray(lvl.shape)
    return np.asarray(pad), np.asarray(lvl.shape) - np.asarray(pad)


def _check_levels(chk, ns, grid, label, open_):
    """P1, P2, P3, P5, P6 for every level of a Grid / OpenGrid / MGrid"""
    depth = grid.depth
    for level in range(depth + 1):
        lvl = grid.at(level)
        shape = [int(s) for s in lvl.shape]
        tag = f"{label} level {level}"
        if level < depth:
            nxt = grid.at(level + 1)
            lo, hi = _refined_bounds(lvl) if not hasattr(lvl, "grids") else _mgrid_bounds(lvl)

            def run_children(ctx, lvl=lvl, nxt=nxt, lo=lo, hi=hi, shape=shape):
                i = _sym_index(ctx, "i", shape, lo, hi)
                ch = lvl.children(i)
                nsplit = int(np.prod(lvl.splits))
                ctx.prove(int(np.prod(ch.shape[1:])) == nsplit, "P1: an index has prod(splits) children")
                kids = [_vec(ch, k) for k in np.ndindex(*ch.shape[1:])]
                for c in kids:
                    inr = True
                    for d in range(len(shape)):
                        inr = ((c[d] >= 0) & (c[d] < int(nxt.shape[d]))) & inr if inr is not True else ((c[d] >= 0) & (c[d] < int(nxt.shape[d])))
                    ctx.prove(inr, "P1: children lie inside the next level")
                    ctx.prove(_eq_vec(nxt.parent(c), i), "P1: parent(child) == index")
                for a, b in itertools.combinations(kids, 2):
                    ctx.prove(symx.snot(_eq_vec(a, b)), "P1: the children of one index are pairwise distinct")
                # P6 volume and geometric nesting
                vi = _as_sym_real(np.asarray(lvl.index2volume(i)).ravel()[0])
                tot = 0
                for c in kids:
                    tot = tot + _as_sym_real(np.asarray(nxt.index2volume(c)).ravel()[0])
                # volumes are float64 reciprocals: equality up to rounding (relative 1e-12)
                ctx.prove((tot - vi <= vi * 1e-12) & (vi - tot <= vi * 1e-12),
                          "P6: the children's volumes add up to the parent's (refinement never creates volume)")
                ci = lvl.index2coord(i)
                half = [_as_sym_real(1) / (2 * _cells(lvl, d)) for d in range(len(shape))]
                for c in kids:
                    cc = nxt.index2coord(c)
                    for d in range(len(shape)):
                        ctx.prove((cc[d] > ci[d] - half[d]) & (cc[d] < ci[d] + half[d]), "P6: a child's coordinate lies inside the parent's cell")
            chk.explore(run_children, tag=tag)

            def run_partition(ctx, lvl=lvl, nxt=nxt, lo=lo, hi=hi):
                j = _sym_index(ctx, "j", [int(s) for s in nxt.shape])
                p = nxt.parent(j)
                inref = True
                for d in range(len(p)):
                    t = (p[d] >= int(lo[d])) & (p[d] < int(hi[d]))
                    inref = t & inref if inref is not True else t
                ctx.prove(inref, "P2: the parent of every next-level index is a refined index of this level")
                ch = lvl.children(p)
                hit = None
                for k in np.ndindex(*ch.shape[1:]):
                    e = _eq_vec(_vec(ch, k), j)
                    hit = e if hit is None else (hit | e)
                ctx.prove(hit, "P2: every next-level index is a child of its parent (children cover the next level)")
            chk.explore(run_partition, tag=tag)

        def run_coord(ctx, lvl=lvl, shape=shape):
            i = _sym_index(ctx, "i", shape)
            back = lvl.coord2index(lvl.index2coord(i))
            ctx.prove(_eq_vec(back, i), "P3: coord2index(index2coord(i)) == i")
            v = _as_sym_real(np.asarray(lvl.index2volume(i)).ravel()[0])
            ctx.prove(v > 0, "P6: volumes are positive")
        chk.explore(run_coord, tag=tag)

        for w in (1, 2, 3):
            if hasattr(lvl, "grids"):
                continue

            def run_nbr(ctx, lvl=lvl, shape=shape, w=w):
                i = _sym_index(ctx, "i", shape)
                ws = (w,) * len(shape)
                nb = lvl.neighborhood(i, ws)
                ctx.prove(list(nb.shape[1:]) == list(ws), "P5: the neighbourhood has the window's shape")
                for k in np.ndindex(*nb.shape[1:]):
                    for d in range(len(shape)):
                        raw = i[d] + (int(k[d]) - w // 2)
                        if open_:
                            want = symx.ite(raw < 0, 0, symx.ite(raw > shape[d] - 1, shape[d] - 1, raw))
                            # an open grid wraps first (periodic base class) and clips afterwards; inside the grid both agree
                            ctx.prove(symx.implies((raw >= 0) & (raw < shape[d]), nb[(d,) + k] == raw),
                                      "P5: open grid: in-range neighbours are i + offset")
                            ctx.prove((nb[(d,) + k] >= 0) & (nb[(d,) + k] < shape[d]), "P5: open grid: neighbours stay inside the grid")
                            del want
                        else:
                            ctx.prove(nb[(d,) + k] == raw % shape[d], "P5: closed grid: neighbours wrap modulo the shape")
                if w % 2 == 1:
                    mid = tuple(w // 2 for _ in shape)
                    ctx.prove(_eq_vec(_vec(nb, mid), i), "P5: an odd window is centred on the index itself")
            chk.explore(run_nbr, tag=tag)


def _cells(lvl, d):
    """number of cells the unit coordinate interval is divided into along axis d (shape + 2*shifts for open grids)"""
    if hasattr(lvl, "grids"):
        off = 0
        for g in lvl.grids:
            if d < off + g.ndim:
                return _cells(g, d - off)
            off += g.ndim
    sh = getattr(lvl, "shifts", None)
    return int(lvl.shape[d]) + (2 * int(sh[d]) if sh is not None else 0)


def _mgrid_bounds(lvl):
    lo, hi = [], []
    for g in lvl.grids:
        l, h = _refined_bounds(g)
        lo += list(l)
        hi += list(h)
    return np.array(lo), np.array(hi)


def sec_closed(chk):
    ns = _module()
    import nifty.re.multi_grid.grid as G
    for f in (G.GridAtLevel.children, G.GridAtLevel.parent, G.GridAtLevel.neighborhood, G.GridAtLevel.index2coord, G.GridAtLevel.coord2index,
              G.GridAtLevel.index2volume, G.GridAtLevel._parse_index, G.Grid.at):
        chk.under_contract(f)
    chk.assume("A-SHIM: jnp/lax.select act on object arrays as NumPy does element-wise (vf/npshim.py); integers are mathematical")
    for cfg in CLOSED:
        _check_levels(chk, ns, ns["Grid"](**cfg), f"Grid{cfg}", open_=False)


def sec_open(chk):
    ns = _module()
    import nifty.re.multi_grid.grid as G
    for f in (G.OpenGridAtLevel.children, G.OpenGridAtLevel.parent, G.OpenGridAtLevel.neighborhood, G.OpenGridAtLevel.index2coord,
              G.OpenGridAtLevel.coord2index, G.OpenGridAtLevel.index2volume, G.OpenGrid.at):
        chk.under_contract(f)
    for cfg in OPEN:
        _check_levels(chk, ns, ns["OpenGrid"](**cfg), f"OpenGrid{cfg}", open_=True)


def sec_open_clamp(chk):
    """padding indices have no children of their own: children(i) of a padded index are those of the nearest refined index"""
    ns = _module()
    for cfg in OPEN[:5]:
        grid = ns["OpenGrid"](**cfg)
        for level in range(grid.depth):
            lvl = grid.at(level)
            shape = [int(s) for s in lvl.shape]
            lo, hi = _refined_bounds(lvl)

            def run(ctx, lvl=lvl, shape=shape, lo=lo, hi=hi):
                i = _sym_index(ctx, "i", shape)
                near = oarr(np.array([symx.ite(i[d] < int(lo[d]), int(lo[d]), symx.ite(i[d] > int(hi[d]) - 1, int(hi[d]) - 1, i[d]))
                                      for d in range(len(shape))], dtype=object))
                a, b = lvl.children(i), lvl.children(near)
                ctx.prove(_eq_vec(a, b), "open grid: children of a padding index are those of the nearest refined index")
                ref = lvl._is_index_refined(i)
                want = True
                for d in range(len(shape)):
                    t = (i[d] >= int(lo[d])) & (i[d] < int(hi[d]))
                    want = t & want if want is not True else t
                got = ref if isinstance(ref, symx.SymBool) else (ref != 0)
                ctx.prove(symx.implies(want, got) & symx.implies(got, want), "open grid: _is_index_refined <=> inside the padding")
            chk.explore(run, tag=f"OpenGrid{cfg} level {level}")


def sec_product(chk):
    ns = _module()
    import nifty.re.multi_grid.grid as G
    for f in (G.MGridAtLevel.children, G.MGridAtLevel.parent, G.MGridAtLevel.index2coord, G.MGridAtLevel.coord2index, G.MGridAtLevel.index2volume):
        chk.under_contract(f)
    combos = [(("Grid", CLOSED[0]), ("Grid", dict(shape0=(2,), splits=((3,),)))),
              (("Grid", dict(shape0=(2, 2), splits=((2, 1),))), ("OpenGrid", OPEN[0])),
              (("OpenGrid", OPEN[1]), ("Grid", CLOSED[1]))]
    for parts in combos:
        grids = [ns[k](**cfg) for k, cfg in parts]
        mg = ns["MGrid"](*grids)
        _check_levels(chk, ns, mg, "MGrid(" + ", ".join(f"{k}{cfg}" for k, cfg in parts) + ")", open_=False)


def sec_flat(chk):
    ns = _module()
    import nifty.re.multi_grid.grid as G
    for f in (G.FlatGridAtLevel.index2flatindex, G.FlatGridAtLevel.flatindex2index, G.FlatGridAtLevel.children, G.FlatGridAtLevel.parent,
              G.FlatGridAtLevel._weights_nest, G.FlatGridAtLevel._weights_serial, G.FlatGrid.at):
        chk.under_contract(f)
    cases = [("Grid", c, o) for c in CLOSED[:7] for o in ("serial", "nest")] + [("OpenGrid", c, "serial") for c in OPEN[:5]]
    for kind, cfg, ordering in cases:
        base = ns[kind](**cfg)
        fg = ns["FlatGrid"](base, ordering=ordering)
        for level in range(fg.depth + 1):
            fl, bl = fg.at(level), base.at(level)
            shape = [int(s) for s in bl.shape]
            size = int(np.prod(shape))
            tag = f"FlatGrid({kind}{cfg}, {ordering}) level {level}"

            def run_rt(ctx, fl=fl, shape=shape, size=size):
                i = _sym_index(ctx, "i", shape)
                f = fl.index2flatindex(i)
                ctx.prove(f.shape[0] == 1, "P4: the flat index has one component")
                ctx.prove((f[0] >= 0) & (f[0] < size), "P4: 0 <= flat index < size")
                ctx.prove(_eq_vec(fl.flatindex2index(f), i), "P4: flatindex2index(index2flatindex(i)) == i")
            chk.explore(run_rt, tag=tag)

            def run_rt2(ctx, fl=fl, shape=shape, size=size):
                f = _sym_index(ctx, "f", [size])
                i = fl.flatindex2index(f)
                inr = True
                for d in range(len(shape)):
                    t = (i[d] >= 0) & (i[d] < shape[d])
                    inr = t & inr if inr is not True else t
                ctx.prove(inr, "P4: flatindex2index lands inside the grid")
                ctx.prove(_eq_vec(fl.index2flatindex(i), f), "P4: index2flatindex(flatindex2index(f)) == f")
            chk.explore(run_rt2, tag=tag)
            if level < fg.depth:
                nf, nb = fg.at(level + 1), base.at(level + 1)
                lo, hi = _refined_bounds(bl)

                def run_ch(ctx, fl=fl, nf=nf, bl=bl, nb=nb, shape=shape, lo=lo, hi=hi):
                    i = _sym_index(ctx, "i", shape, lo, hi)
                    f = fl.index2flatindex(i)
                    ch = fl.children(f)
                    kids = [ch[(0,) + k] for k in np.ndindex(*ch.shape[1:])]
                    base_kids = bl.children(i)
                    want = [nf.index2flatindex(_vec(base_kids, k))[0] for k in np.ndindex(*base_kids.shape[1:])]
                    ctx.prove(len(kids) == len(want), "P1: flat grid: as many children as the underlying grid")
                    for a, b in zip(kids, want):
                        ctx.prove(a == b, "P1: flat grid: children are the flat indices of the underlying grid's children")
                    for c in kids:
                        ctx.prove(nf.parent(oarr(np.array([c], dtype=object)))[0] == f[0], "P1: flat grid: parent(child) == index")
                chk.explore(run_ch, tag=tag)


def sec_parse_index(chk):
    """out-of-range handling follows array semantics: negative indices count from the end, anything beyond is clamped"""
    ns = _module()
    for shape in ((4,), (3, 5)):
        lvl = ns["GridAtLevel"](shape=np.array(shape))

        def run(ctx, lvl=lvl, shape=shape):
            a = np.empty(len(shape), dtype=object)
            for d in range(len(shape)):
                a[d] = fresh_int(f"i{d}")
            i = oarr(a)
            p = lvl._parse_index(i)
            for d, n in enumerate(shape):
                ctx.prove((p[d] >= 0) & (p[d] < n), "_parse_index: the result is a valid index")
                ctx.prove(symx.implies((i[d] >= 0) & (i[d] < n), p[d] == i[d]), "_parse_index: in-range indices are unchanged")
                ctx.prove(symx.implies((i[d] < 0) & (i[d] > -n), p[d] == i[d] + n), "_parse_index: negative indices count from the end")
                ctx.prove(symx.implies(i[d] >= n, p[d] == n - 1), "_parse_index: too large indices are clamped to the last entry")
                ctx.prove(symx.implies(i[d] <= -n, p[d] == 1 % n), "_parse_index: too negative indices are clamped like array indexing (-(n-1) mod n)")
        chk.explore(run, tag=f"GridAtLevel{shape}")


# ------------------------------------------------------------------------------------- native enumeration (float geometry)
def sec_native(chk):
    """all indices of small HEALPix / logarithmic / SimpleOpenGrid / HEALPix x log-radius grids, natively"""
    import jax
    jax.config.update("jax_enable_x64", True)
    import jax.numpy as jnp
    import nifty.re.multi_grid.grid as G
    import nifty.re.multi_grid.grid_impl as GI
    fails, cases = [], 0

    def all_indices(shape):
        return np.stack([a.ravel() for a in np.meshgrid(*[np.arange(s) for s in shape], indexing="ij")], axis=0)

    def check(name, grid, coord_rt=True, vol_eq=True, open_=False):
        nonlocal cases
        for level in range(grid.depth + 1):
            lvl = grid.at(level)
            shape = tuple(int(s) for s in lvl.shape)
            idx = jnp.asarray(all_indices(shape))
            cases += idx.shape[1]
            if coord_rt:
                back = np.asarray(lvl.coord2index(lvl.index2coord(idx)))
                if not np.array_equal(back.astype(np.int64), np.asarray(idx)):
                    bad = np.nonzero((back.astype(np.int64) != np.asarray(idx)).any(axis=0))[0][:3]
                    fails.append(dict(case=f"{name} level {level}", detail=f"coord2index(index2coord(i)) != i at i={np.asarray(idx)[:, bad].T.tolist()}"))
            if level < grid.depth:
                nxt = grid.at(level + 1)
                ref = np.asarray(lvl.refined_indices()).reshape(len(shape), -1)
                ch = np.asarray(lvl.children(jnp.asarray(ref)))
                kids = ch.reshape(len(shape), ref.shape[1], -1)
                par = np.asarray(nxt.parent(jnp.asarray(kids.reshape(len(shape), -1)))).reshape(kids.shape)
                if not np.array_equal(par, np.broadcast_to(ref[:, :, None], kids.shape)):
                    fails.append(dict(case=f"{name} level {level}", detail="parent(children(i)) != i for some refined index"))
                flat = set(map(tuple, kids.reshape(len(shape), -1).T.tolist()))
                nshape = tuple(int(s) for s in nxt.shape)
                if len(flat) != kids.shape[1] * kids.shape[2] or flat != set(map(tuple, all_indices(nshape).T.tolist())):
                    fails.append(dict(case=f"{name} level {level}", detail=f"children of the refined indices do not partition level {level + 1} "
                                      f"({len(flat)} distinct children, next level has {int(np.prod(nshape))} indices)"))
                vp = np.asarray(lvl.index2volume(jnp.asarray(ref))).reshape(-1)
                vc = np.asarray(nxt.index2volume(jnp.asarray(kids.reshape(len(shape), -1)))).reshape(-1)
                if vc.size == 1:
                    vsum = np.full(ref.shape[1], vc[0] * kids.shape[2])
                else:
                    vsum = vc.reshape(ref.shape[1], -1).sum(axis=1)
                vp = np.broadcast_to(vp, vsum.shape)
                if vol_eq and not np.allclose(vsum, vp, rtol=1e-9):
                    k = int(np.argmax(np.abs(vsum - vp)))
                    fails.append(dict(case=f"{name} level {level}", detail=f"children volumes {vsum[k]!r} vs parent volume {vp[k]!r} at i={ref[:, k].tolist()}"))
                if not vol_eq and np.any(vsum > vp * (1 + 1e-9)):
                    k = int(np.argmax(vsum - vp))
                    fails.append(dict(case=f"{name} level {level}", detail=f"refinement creates volume: children {vsum[k]!r} > parent {vp[k]!r} at i={ref[:, k].tolist()}"))
    check("HEALPixGrid(nside0=1, depth=2)", GI.HEALPixGrid(nside0=1, depth=2))
    check("HEALPixGrid(nside0=2, depth=1)", GI.HEALPixGrid(nside0=2, depth=1))
    for ms, ws, sp, dp in (((8,), 3, 2, 2), ((9,), 5, 3, 1), ((6, 5), 3, 2, 1), ((5,), 3, 4, 1), ((7,), 3, (2,), 2)):
        check(f"SimpleOpenGrid(min_shape={ms}, window_size={ws}, splits={sp}, depth={dp})",
              GI.SimpleOpenGrid(min_shape=ms, window_size=ws, splits=sp, depth=dp), open_=True)
    for sp in (2, 3):
        check(f"LogGrid(r_min=0.5, r_max=7, min_shape=(6,), splits={sp}, depth=2)",
              GI.LogGrid(r_min=0.5, r_max=7., min_shape=(6,), splits=sp, depth=2), open_=True)
    check("HPLogRGrid(nside=2, nside0=1, r_min_shape=4)", GI.HPLogRGrid(nside=2, nside0=1, r_min_shape=4, r_min=0.5, r_max=3.), coord_rt=True)
    for cfg in OPEN + [dict(shape0=(9,), splits=((3,), (4,)), padding=((2,), (1,))), dict(shape0=(6, 7), splits=((4, 3),), padding=((1, 2),))]:
        check(f"OpenGrid{cfg}", G.OpenGrid(**cfg), open_=True)
    for cfg in CLOSED:
        check(f"Grid{cfg}", G.Grid(**cfg))
    chk.bounded("all indices of small instances, natively (jax): coordinate round trip, parent/children, partition, volumes",
                bound="HEALPix nside <= 4, SimpleOpenGrid/LogGrid/HPLogRGrid of <= 40 pixels per axis, the OPEN and CLOSED configurations",
                cases=cases, nontrivial=cases, failures=fails, samples=[dict(grid="HEALPixGrid(nside0=1, depth=2)")], kind="B-runtime")


SECTIONS = [sec_flat, sec_open, sec_closed, sec_product, sec_open_clamp, sec_parse_index, sec_native]
