"""C03 Nonlinear operator values and Jacobians are exact derivatives.

Engine O with sympy elements in concolic mode: the real point-wise table, Field.ptw_with_deriv, the Linearization
arithmetic and the real operator graph (_OpChain/_OpProd/_OpSum/_FunctionApplier, partial_insert, vdot, contractions,
energies) run on fields of symbols.  Comparisons inside the real code (np.clip, masks of sinc/softplus, np.sign) are decided at a
shadow point and recorded, so that one run stands for the whole region with the same outcomes.
Post-conditions, as symbolic identities in every input symbol:
  value on a linearization == plain value == an independent evaluator of the expression;
  Jacobian applied to t == sum_i dV/da_i Re t_i + dV/db_i Im t_i with the derivative taken by sympy from the *value*;
  <s, J t> == <J^adjoint s, t> (real part for real-linear Jacobians);  a requested metric arrives as J^adj M J.
Isolated exceptional points (v = 0 for power/sinc/abs/sign, the +-33 thresholds of softplus, clip bounds) have no open
neighbourhood and are evaluated natively in float64 against 50-digit mpmath derivatives (labelled bounded).
"""
import itertools

import numpy as np
import sympy as sp

from vf import objx
from vf.objx import SX, eq_status, exprs

META = dict(
    title="Nonlinear operator values and Jacobians are exact derivatives",
    level="other",
    design_ref="DESIGN.md section 4, C03",
    technique="the real point-wise table, Linearization arithmetic and operator graph executed on fields of sympy symbols (concolic "
              "for comparisons); value/Jacobian/adjoint/metric post-conditions are symbolic identities against sympy's own derivative "
              "of the value and an independent expression evaluator; exceptional points natively against mpmath (bounded)",
    text="Every entry of the point-wise table returns its documented function and that function's derivative (all open regions of "
         "its valid range symbolically; exceptional points natively). For the enumerated expression skeletons over single and "
         "multi-domains (every table entry under chain/product/sum/partial insertion/key extraction/contraction/vdot/energies, "
         "real and complex inputs, with and without the metric flag) the linearized evaluation returns the plain value, the "
         "Jacobian is the derivative of that value, its adjoint is the conjugate transpose and the metric is carried through.",
    note="Universal in the input values and all symbolic parameters; bounded in the skeletons (2-pixel spaces, depth <= 3). Residues "
         "sympy cannot reduce within its time budget are evaluated at exact rational points of the region (reported as backend "
         "'sympy-points'). Float literals of the source are read as their mathematical values (pi, 1/log(10), exact rationals).",
    explanation="level 'other': symbolic identities on the real classes for enumerated skeletons plus bounded exceptional points",
)

N = 2


# ------------------------------------------------------------------------------------------ the point-wise table
def _spec_table():
    """independent definitions: name -> (F(v, *args), regions), a region = dict(sym kwargs, shadow, domain, args)"""
    v = sp.Symbol("v")
    R = lambda lo, hi, sh, **kw: dict(lo=lo, hi=hi, shadow=sh, assump=kw)  # noqa: E731
    allr = [R(-2, 2, sp.Rational(7, 10), real=True)]
    pos = [R(sp.Rational(1, 10), 3, sp.Rational(7, 10), positive=True)]
    both = [R(sp.Rational(1, 10), 3, sp.Rational(7, 10), positive=True), R(-3, -sp.Rational(1, 10), -sp.Rational(7, 10), negative=True)]
    T = {
        "sqrt": (lambda v: sp.sqrt(v), pos, [()]),
        "sin": (sp.sin, allr, [()]), "cos": (sp.cos, allr, [()]), "tan": (sp.tan, [R(-1, 1, sp.Rational(3, 10), real=True)], [()]),
        "sinc": (lambda v: sp.sin(sp.pi * v) / (sp.pi * v), both, [()]),
        "exp": (sp.exp, allr, [()]), "expm1": (lambda v: sp.exp(v) - 1, allr, [()]),
        "log": (sp.log, pos, [()]), "log10": (lambda v: sp.log(v) / sp.log(10), pos, [()]),
        "log1p": (lambda v: sp.log(1 + v), pos, [()]),
        "sinh": (sp.sinh, allr, [()]), "cosh": (sp.cosh, allr, [()]), "tanh": (sp.tanh, allr, [()]),
        "sigmoid": (lambda v: 1 / (1 + sp.exp(-2 * v)), allr, [()]),     # 0.5 + 0.5 tanh(v), the library's documented sigmoid
        "reciprocal": (lambda v: 1 / v, both, [()]),
        "abs": (lambda v: sp.Abs(v), both, [()]), "absolute": (lambda v: sp.Abs(v), both, [()]),
        "sign": (lambda v: sp.sign(v), both, [()]),
        "power": (lambda v, p: v ** p, pos, [(2,), (3,), (0.5,), (-1,), (2.5,), (1,)]),
        "clip": (lambda v, a, b: sp.Piecewise((a, v < a), (b, v > b), (v, True)),
                 [R(-3, -1.01, -2, real=True), R(-0.99, 1.99, sp.Rational(1, 2), real=True), R(2.01, 4, 3, real=True)], [(-1., 2.)]),
        "softplus": (lambda v: sp.log(1 + sp.exp(v)),
                     [R(-32, 32, sp.Rational(1, 2), real=True), R(sp.Rational(3301, 100), 40, 36, real=True),
                      R(-40, -sp.Rational(3301, 100), -36, real=True)], [()]),   # beyond +-33 the source switches to the asymptote (|error| < 1e-14)
        "exponentiate": (lambda v, b: sp.sympify(b) ** v, allr, [(2.,), (0.5,), (10.,)]),
        "arctan": (sp.atan, allr, [()]),
        "unitstep": (lambda v: sp.Heaviside(v, 1), both, [()]),
    }
    return T


def _region_deriv(name, F, v, args, region):
    """the derivative of the documented function on the open region (piecewise-constant pieces differentiate to 0)"""
    if name in ("abs", "absolute"):
        return sp.Integer(1) if region["shadow"] > 0 else sp.Integer(-1)
    if name in ("sign", "unitstep"):
        return sp.Integer(0)
    if name == "clip":
        a, b = args
        return sp.Integer(1) if a < region["shadow"] < b else sp.Integer(0)
    return sp.diff(F(v, *args), v)


def _region_value(name, F, v, args, region):
    if name == "clip":
        a, b = [sp.nsimplify(x, rational=True) for x in args]
        sh = region["shadow"]
        return a if sh < a else (b if sh > b else v)
    if name == "sign":
        return sp.Integer(1) if region["shadow"] > 0 else sp.Integer(-1)
    if name == "unitstep":
        return sp.Integer(1) if region["shadow"] > 0 else sp.Integer(0)
    if name in ("abs", "absolute"):
        return v if region["shadow"] > 0 else -v
    return F(v, *[sp.nsimplify(x, rational=True) if isinstance(x, float) else x for x in args])


def sec_table(chk):
    from nifty.cl import pointwise
    T = _spec_table()
    missing = sorted(set(pointwise.ptw_dict) - set(T))
    chk.obligation("every entry of the point-wise table has a specification in the contract", "discharged" if not missing else "refuted",
                   backend="enumeration", detail=f"no specification for {missing}" if missing else "")
    for name, (F, regions, arglist) in T.items():
        if name not in pointwise.ptw_dict:
            chk.obligation(f"{name}: the table entry exists", "refuted", backend="enumeration", detail="entry removed from ptw_dict")
            continue
        f_plain, f_deriv = pointwise.ptw_dict[name]
        chk.under_contract(f_deriv)
        for args in arglist:
            for ri, reg in enumerate(regions):
                # two pixels: the region's generic point and a second point in the same region (masks act per pixel)
                syms = [sp.Symbol(f"v{k}", **reg["assump"]) for k in range(2)]
                sh2 = reg["shadow"] + (reg["hi"] - reg["shadow"]) / 3
                shadow = {syms[0]: reg["shadow"], syms[1]: sh2}
                dom = {str(s): (reg["lo"], reg["hi"]) for s in syms}
                arr = np.empty(2, dtype=object)
                arr[0], arr[1] = SX(syms[0]), SX(syms[1])
                label = f"{name}{args if args else ''}"
                with SX.concolic(shadow) as pc:
                    plain = f_plain(arr.copy(), *args)
                    val, der = f_deriv(arr.copy(), *args)
                    pc = list(pc)
                for k in range(2):
                    want_v = _region_value(name, F, syms[k], args, dict(reg, shadow=shadow[syms[k]]))
                    want_d = _region_deriv(name, lambda v, *a: F(v, *[sp.nsimplify(x, rational=True) if isinstance(x, float) else x for x in a]),
                                           syms[k], args, dict(reg, shadow=shadow[syms[k]]))
                    for what, got, want in (("plain value == documented function", exprs(plain)[k], want_v),
                                            ("value returned with the derivative == documented function", exprs(val)[k], want_v),
                                            ("derivative == d/dv of the documented function", exprs(der)[k], want_d)):
                        # beyond its +-33 thresholds softplus returns the asymptote: documented function up to 1e-14 absolute
                        st, be, det = eq_status(got, want, pc=pc, domain=dom, abs_tol=1e-14 if (name == "softplus" and ri > 0) else 0.)
                        chk.obligation(f"table: {label}: {what}", st, backend=be, detail=det and f"region {ri} pixel {k}: {det}")


def sec_table_points(chk):
    """exceptional points natively (float64) against mpmath; also through Field.ptw_with_deriv"""
    import mpmath
    import nifty.cl as ift
    from nifty.cl import pointwise
    mpmath.mp.dps = 50
    mp = mpmath
    D = {
        "sqrt": (mp.sqrt, [0.25, 1., 4., 1e-8, 1e8]), "sin": (mp.sin, [0., -1., 1., 3.]), "cos": (mp.cos, [0., 1., -2.]),
        "tan": (mp.tan, [0., 1., -1.]), "sinc": (lambda v: mp.sincpi(v), [0., 1., -1., 0.5, 2., 1e-3, -1e-3]),
        "exp": (mp.exp, [0., 1., -30., 30.]), "expm1": (mp.expm1, [0., 1e-10, -1e-10, 1., -1.]),
        "log": (mp.log, [1., 0.5, 1e-8, 1e8]), "log10": (mp.log10, [1., 10., 0.01]), "log1p": (mp.log1p, [0., 1e-12, -0.5, 3.]),
        "sinh": (mp.sinh, [0., 1., -1.]), "cosh": (mp.cosh, [0., 1., -1.]), "tanh": (mp.tanh, [0., 1., -1., 20., -20.]),
        "sigmoid": (lambda v: 1 / (1 + mp.exp(-2 * v)), [0., 1., -1., 10., -10.]),
        "reciprocal": (lambda v: 1 / v, [1., -1., 0.5, -4., 1e-6]),
        "arctan": (mp.atan, [0., 1., -1., 1e6]),
        "softplus": (lambda v: mp.log(1 + mp.exp(v)), [0., 1., -1., 32.9, 33., 33.1, -32.9, -33., -33.1, 40., -40.]),
    }
    cases, fails, nontriv = 0, [], 0

    def cmp(name, pt, got_v, got_d, want_v, want_d, via):
        nonlocal cases, nontriv
        cases += 1
        for what, g, w in (("value", got_v, want_v), ("derivative", got_d, want_d)):
            w = float(w)
            if not (g == w or abs(g - w) <= 1e-9 * max(1., abs(w)) + 1e-13):
                fails.append(dict(case=f"{name} at v={pt!r} ({via})", detail=f"{what} {g!r}, exact {w!r}"))
        nontriv += 1
    for name, (f, pts) in D.items():
        helper = pointwise.ptw_dict[name][1]
        for pt in pts:
            v, d = helper(np.array([pt, 0.7 if name not in ("log", "sqrt", "log10") else 0.7]))
            cmp(name, pt, float(v[0]), float(d[0]), f(mp.mpf(pt)), mp.diff(f, mp.mpf(pt)) if not (name == "sinc" and pt == 0.) else 0, "table helper")
    # power: integer exponents include v = 0 (the derivative of v**2 at 0 is 0, of v**1 is 1); negative v for integer exponents
    for expo, pts in ((2, [0., 1., -1., 2.5, -3.]), (3, [0., 1., -2.]), (1, [0., 2., -2.]), (2., [0., 1.5, -1.5]), (0.5, [1., 4., 1e-6]), (-1, [1., -2.]),
                      (2.5, [1., 3.]), (-2, [0.5, -0.5])):
        helper = pointwise.ptw_dict["power"][1]
        for pt in pts:
            v, d = helper(np.array([pt, 1.]), expo)
            want_d = 0. if (pt == 0. and expo > 1) else (1. if (expo == 1) else float(expo * mp.mpf(pt) ** (expo - 1)))
            cmp(f"power({expo})", pt, float(v[0]), float(d[0]), mp.mpf(pt) ** expo, want_d, "table helper")
            fld = ift.makeField(ift.UnstructuredDomain(2), np.array([pt, 1.]))
            lin = ift.Linearization.make_var(fld).ptw("power", expo)
            one = ift.makeField(ift.UnstructuredDomain(2), np.array([1., 0.]))
            cmp(f"power({expo})", pt, float(lin.val.asnumpy()[0]), float(lin.jac(one).asnumpy()[0]), mp.mpf(pt) ** expo, want_d, "Linearization.ptw")
    for base, pts in ((2., [0., 1., -1.]), (0.5, [0., 2.]), (10., [0., -1.])):
        for pt in pts:
            v, d = pointwise.ptw_dict["exponentiate"][1](np.array([pt, 1.]), base)
            cmp(f"exponentiate({base})", pt, float(v[0]), float(d[0]), mp.mpf(base) ** pt, mp.log(base) * mp.mpf(base) ** pt, "table helper")
    # piecewise-constant derivatives away from and at their kinks
    for pt, wv, wd in ((2., 2., 1.), (-2., 2., -1.), (1e-300, 1e-300, 1.)):
        v, d = pointwise.ptw_dict["abs"][1](np.array([pt, 1.]))
        cmp("abs", pt, float(v[0]), float(d[0]), wv, wd, "table helper")
    for pt, wv in ((2., 1.), (-2., -1.)):
        v, d = pointwise.ptw_dict["sign"][1](np.array([pt, 1.]))
        cmp("sign", pt, float(v[0]), float(d[0]), wv, 0., "table helper")
    for pt in (0.,):
        for nm in ("abs", "sign"):
            v, d = pointwise.ptw_dict[nm][1](np.array([pt, 1.]))
            cases += 1
            if not (np.isnan(d[0]) and v[0] == 0.):
                fails.append(dict(case=f"{nm} at the kink v=0", detail=f"documented: value 0, derivative undefined (nan); got {v[0]!r}, {d[0]!r}"))
    for pt, wv, wd in ((-3., -1., 0.), (0.5, 0.5, 1.), (5., 2., 0.), (-1., -1., 0.), (2., 2., 0.)):
        v, d = pointwise.ptw_dict["clip"][1](np.array([pt, 0.]), -1., 2.)
        cmp("clip(-1,2)", pt, float(v[0]), float(d[0]), wv, wd, "table helper")
    for pt, wv in ((-1., 0.), (0., 1.), (3., 1.), (-1e-300, 0.)):
        v, d = pointwise.ptw_dict["unitstep"][1](np.array([pt, 1.]))
        cmp("unitstep", pt, float(v[0]), float(d[0]), wv, 0., "table helper")
    # complex arguments of the holomorphic entries
    for name in ("sin", "cos", "exp", "tanh", "sinh", "cosh", "log", "sqrt", "reciprocal", "expm1", "log1p", "arctan", "tan", "sigmoid"):
        f = D[name][0]
        for pt in (0.3 + 0.4j, -0.7 + 1.1j):
            v, d = pointwise.ptw_dict[name][1](np.array([pt, 1. + 0j]))
            z = mp.mpc(pt)
            wv, wd = complex(f(z)), complex(mp.diff(f, z))
            cases += 1
            nontriv += 1
            for what, g, w in (("value", complex(v[0]), wv), ("derivative", complex(d[0]), wd)):
                if abs(g - w) > 1e-9 * max(1., abs(w)):
                    fails.append(dict(case=f"{name} at complex v={pt!r}", detail=f"{what} {g!r}, exact {w!r}"))
    chk.bounded("table entries at exceptional and representative points, natively in float64, against 50-digit mpmath",
                bound="the listed points per entry (kinks, thresholds, zeros, large/small arguments, two complex points)", cases=cases,
                nontrivial=nontriv, failures=fails, samples=[dict(entry="power(2)", v=0.0)], kind="B-runtime")


# ------------------------------------------------------------------------------------------ expression skeletons
class World:
    """one symbolic input on a single or multi-domain, real or complex"""

    def __init__(self, ift, multi, cplx, sign="real", dom=None):
        self.ift = ift
        self.dom = dom if dom is not None else ift.UnstructuredDomain(N)
        self.dt = ift.DomainTuple.make(self.dom)
        self.keys = ("a", "b") if multi else (None,)
        self.cplx = cplx
        self.syms, self.shadow, self.vals = [], {}, {}
        kw = dict(positive=True) if sign == "positive" else dict(real=True)
        sh = itertools.cycle([sp.Rational(7, 10), sp.Rational(13, 10), sp.Rational(3, 10), sp.Rational(9, 10), sp.Rational(11, 10),
                              sp.Rational(1, 2), sp.Rational(17, 10), sp.Rational(6, 10)])
        for k in self.keys:
            arr = np.empty(N, dtype=object)
            for i in range(N):
                a = sp.Symbol(f"{k or 'x'}{i}", **kw)
                self.syms.append(a)
                self.shadow[a] = next(sh)
                e = a
                if cplx:
                    b = sp.Symbol(f"{k or 'x'}{i}i", real=True)
                    self.syms.append(b)
                    self.shadow[b] = next(sh) - 1
                    e = a + sp.I * b
                arr[i] = SX(e)
            self.vals[k] = arr
        if multi:
            self.x = ift.MultiField.from_dict({k: ift.Field(self.dt, v) for k, v in self.vals.items()})
        else:
            self.x = ift.Field(self.dt, self.vals[None])
        self.domain = self.x.domain

    def tangent(self, name="t"):
        """a symbolic tangent on the input domain: Field/MultiField t and {real symbol: (real part of which input, ...)}"""
        ift = self.ift
        parts, fl = {}, {}
        for k in self.keys:
            arr = np.empty(N, dtype=object)
            comps = []
            for i in range(N):
                tr = sp.Symbol(f"{name}{k or ''}{i}", real=True)
                e = tr
                ti = None
                if self.cplx:
                    ti = sp.Symbol(f"{name}{k or ''}{i}i", real=True)
                    e = tr + sp.I * ti
                arr[i] = SX(e)
                comps.append((tr, ti))
            parts[k] = comps
            fl[k] = ift.Field(self.dt, arr)
        t = ift.MultiField.from_dict(fl) if len(self.keys) > 1 else fl[None]
        return t, parts

    def directional(self, V):
        """sum_i dV/da_i tr_i + dV/db_i ti_i, with sympy's derivative of the value expression V"""
        t, parts = self.tangent()
        out = 0
        idx = 0
        for k in self.keys:
            for i in range(N):
                tr, ti = parts[k][i]
                a = self.syms[idx]
                idx += 1
                out = out + sp.diff(V, a) * tr
                if self.cplx:
                    b = self.syms[idx]
                    idx += 1
                    out = out + sp.diff(V, b) * ti
        return t, out


def _flat(f):
    """expressions of a Field / MultiField / scalar result in a canonical order"""
    from nifty.cl.multi_field import MultiField
    if isinstance(f, MultiField):
        out = []
        for k in sorted(f.keys()):
            out += exprs(f[k].asnumpy())
        return out
    return exprs(f.asnumpy())


def _scalar(x):
    if hasattr(x, "asnumpy"):
        return exprs(x.asnumpy())[0]
    if hasattr(x, "val") and hasattr(x.val, "asnumpy"):
        return exprs(x.val.asnumpy())[0]
    return exprs(np.asarray(x, dtype=object))[0]


def _check_tree(chk, W, label, op, ref=None, metric=None, real_out=False):
    """the four post-conditions for one operator expression `op` on world W"""
    ift = W.ift
    with SX.concolic(W.shadow) as pc:
        plain = op(W.x)
        lin = op(ift.Linearization.make_var(W.x, want_metric=metric is not None))
        t, _ = W.tangent()
        jt = lin.jac(t)
        pc = list(pc)
    V = _flat(plain)
    Vl = _flat(lin.val)
    dom = {str(s): ((sp.Rational(1, 10), 2) if s.is_positive else (-2, 2)) for s in W.syms}
    ok = len(V) == len(Vl)
    worst = ("discharged", "sympy", "")
    for a, b in zip(V, Vl):
        st = eq_status(a, b, pc=pc, domain=dom, n=4)
        if st[0] != "discharged":
            worst = st
            break
        if st[1] != "sympy":
            worst = st
    chk.obligation(f"trees: {label}: value on a linearization == plain value", worst[0] if ok else "refuted", backend=worst[1],
                   detail=worst[2])
    if ref is not None:
        R = ref
        worst = ("discharged", "sympy", "")
        if len(R) != len(V):
            worst = ("refuted", "sympy", f"result has {len(V)} entries, the independent evaluator {len(R)}")
        for a, b in zip(V, R):
            st = eq_status(a, b, pc=pc, domain=dom, n=4)
            if st[0] != "discharged":
                worst = st
                break
            if st[1] != "sympy":
                worst = st
        chk.obligation(f"trees: {label}: plain value == independent evaluation of the expression", worst[0], backend=worst[1],
                       detail=worst[2])
    J = _flat(jt)
    worst = ("discharged", "sympy", "")
    for k, v in enumerate(V):
        _, want = W.directional(v)
        st = eq_status(J[k], want, pc=pc, domain=dom, n=4)
        if st[0] != "discharged":
            worst = st
            break
        if st[1] != "sympy":
            worst = st
    chk.obligation(f"trees: {label}: Jacobian applied to t == directional derivative of the value (sympy)", worst[0], backend=worst[1],
                   detail=worst[2])
    # adjoint: <s, J t> == <J^adj s, t>; real part when the Jacobian is only real-linear (complex worlds)
    s_arr = []
    tgt = lin.jac.target

    def sfield(d, nm):
        n = int(np.prod(d.shape, dtype=int))
        arr = np.empty(n, dtype=object)
        for i in range(n):
            e = sp.Symbol(f"s{nm}{i}", real=True)
            if W.cplx and not real_out:
                e = e + sp.I * sp.Symbol(f"s{nm}{i}i", real=True)
            arr[i] = SX(e)
        return ift.Field(d, arr.reshape(d.shape))
    if isinstance(tgt, ift.MultiDomain):
        s = ift.MultiField.from_dict({k: sfield(tgt[k], k) for k in tgt.keys()})
    else:
        s = sfield(tgt, "")
    with SX.concolic(W.shadow):
        lhs = s.vdot(jt)
        rhs = lin.jac.adjoint_times(s).vdot(t)
    l, r = _scalar(lhs), _scalar(rhs)
    if W.cplx:
        l, r = sp.re(sp.expand(l)), sp.re(sp.expand(r))
    st = eq_status(sp.expand(l), sp.expand(r), pc=pc, domain=dom, n=4)
    chk.obligation(f"trees: {label}: <s, J t> == <J^adjoint s, t>", st[0], backend=st[1], detail=st[2])
    if metric is not None:
        with SX.concolic(W.shadow):
            mt = _flat(lin.metric(t)) if lin.metric is not None else None
        if mt is None:
            chk.obligation(f"trees: {label}: a requested metric is carried through", "refuted", backend="sympy", detail=f"{label}: no metric on the result")
        else:
            want = metric(t)
            worst = ("discharged", "sympy", "")
            for a, b in zip(mt, want):
                st = eq_status(a, b, pc=pc, domain=dom, n=4)
                if st[0] != "discharged":
                    worst = st
                    break
                if st[1] != "sympy":
                    worst = st
            chk.obligation(f"trees: {label}: a requested metric is carried through (== J^adj M J)", worst[0], backend=worst[1],
                           detail=worst[2])


def _ptw_sym(name, args):
    T = _spec_table()
    F = T[name][0]
    a = [sp.nsimplify(x, rational=True) if isinstance(x, float) else x for x in args]
    return lambda v: F(v, *a)


SMOOTH_REAL = [("sin", ()), ("cos", ()), ("tan", ()), ("exp", ()), ("expm1", ()), ("sinh", ()), ("cosh", ()), ("tanh", ()), ("sigmoid", ()),
               ("arctan", ()), ("softplus", ()), ("exponentiate", (2.,)), ("log1p", ()), ("sqrt", ()), ("log", ()), ("log10", ()), ("reciprocal", ()),
               ("power", (2,)), ("power", (0.5,)), ("power", (-1,)), ("sinc", ()), ("abs", ()), ("sign", ()), ("clip", (0.5, 1.)), ("unitstep", ())]
HOLO = [("sin", ()), ("cos", ()), ("exp", ()), ("tanh", ()), ("sinh", ()), ("cosh", ()), ("expm1", ()), ("reciprocal", ()), ("power", (2,)),
        ("power", (3,)), ("sigmoid", ()), ("tan", ())]


def _sym_of(name, args, W):
    """element-wise symbolic semantics of a table entry at the world's region (shadow decides the piece)"""
    F = _ptw_sym(name, args)

    def g(e):
        if name in ("abs", "absolute", "sign", "unitstep", "clip"):
            shv = sp.N(sp.sympify(e).subs(W.shadow))
            reg = dict(shadow=shv)
            return _region_value(name, _spec_table()[name][0], e, args, reg)
        return F(e)
    return g


def sec_trees_single(chk):
    """every table entry as f(x), f(g(x)), f(x)*g(x), f(x)+g(x), contractions and vdot on a single domain"""
    import nifty.cl as ift
    with objx.patched():
        W = World(ift, multi=False, cplx=False, sign="positive")
        I_ = ift.ScalingOperator(W.dt, 1.)
        xs = exprs(W.vals[None])
        for name, args in SMOOTH_REAL:
            f = _sym_of(name, args, W)
            op = I_.ptw(name, *args)
            _check_tree(chk, W, f"{name}{args}(x)", op, ref=[f(x) for x in xs])
            op2 = getattr(I_, name)(*args) if hasattr(I_, name) else op
            # composition with an inner exp/scale: f(exp(-x)) stays inside every valid range (0,1)
            inner = I_.scale(-1.).exp()
            _check_tree(chk, W, f"{name}{args}(exp(-x))", op2 @ inner, ref=[f(sp.exp(-x)) for x in xs])
            # ptw_pre: the function first, then a linear operator
            D = ift.DiagonalOperator(ift.Field(W.dt, objx.sx_array((N,), "w", positive=True)))
            ws = exprs(D._ldiag.asnumpy()) if hasattr(D, "_ldiag") else None
            if ws is not None:
                _check_tree(chk, W, f"Diag @ {name}{args}", D.ptw_pre(name, *args), ref=[ws[i] * f(xs[i]) for i in range(N)])
        # products, sums, quotients, powers of operators
        for (n1, a1), (n2, a2) in [(("sin", ()), ("exp", ())), (("log", ()), ("tanh", ())), (("sqrt", ()), ("cos", ())),
                                    (("power", (2,)), ("arctan", ())), (("sigmoid", ()), ("log1p", ())), (("abs", ()), ("sinh", ()))]:
            f1, f2 = _sym_of(n1, a1, W), _sym_of(n2, a2, W)
            o1, o2 = I_.ptw(n1, *a1), I_.ptw(n2, *a2)
            _check_tree(chk, W, f"{n1}*{n2}", o1 * o2, ref=[f1(x) * f2(x) for x in xs])
            _check_tree(chk, W, f"{n1}+{n2}", o1 + o2, ref=[f1(x) + f2(x) for x in xs])
            _check_tree(chk, W, f"{n1}-{n2}", o1 - o2, ref=[f1(x) - f2(x) for x in xs])
            _check_tree(chk, W, f"{n1}/{n2}", o1 / o2, ref=[f1(x) / f2(x) for x in xs])
            _check_tree(chk, W, f"({n1}*{n2}).sum()", (o1 * o2).sum(), ref=[sum(f1(x) * f2(x) for x in xs)])
            _check_tree(chk, W, f"{n1}.vdot({n2})", o1.vdot(o2), ref=[sum(f1(x) * f2(x) for x in xs)])
        e1 = I_.exp()
        _check_tree(chk, W, "exp(x)**x", e1 ** I_, ref=[sp.exp(x) ** x for x in xs])
        _check_tree(chk, W, "x**1.5", I_ ** 1.5, ref=[x ** sp.Rational(3, 2) for x in xs])
        _check_tree(chk, W, "2**x", 2. ** I_, ref=[2 ** x for x in xs])
        _check_tree(chk, W, "3/x", 3. / I_, ref=[3 / x for x in xs])
        _check_tree(chk, W, "x/4", I_ / 4., ref=[x / 4 for x in xs])
        _check_tree(chk, W, "1.5 - x", 1.5 - I_, ref=[sp.Rational(3, 2) - x for x in xs])
        _check_tree(chk, W, "x + 2", I_ + 2., ref=[x + 2 for x in xs])
        c = ift.makeField(W.dom, np.array([0.5, -1.5]))
        _check_tree(chk, W, "sin(x)*c + c", I_.sin() * c + c, ref=[sp.sin(xs[0]) / 2 + sp.Rational(1, 2), -sp.Rational(3, 2) * sp.sin(xs[1]) - sp.Rational(3, 2)])
        _check_tree(chk, W, "abs(x - c)", abs(I_ - ift.makeField(W.dom, np.array([0.25, 5.]))),
                    ref=[xs[0] - sp.Rational(1, 4) if W.shadow[W.syms[0]] > sp.Rational(1, 4) else sp.Rational(1, 4) - xs[0], 5 - xs[1]])
        # broadcast and outer structure
        sc = ift.DomainTuple.scalar_domain()
        _check_tree(chk, W, "sin(x).sum() broadcast * x", (I_.sin().sum().broadcast(0, W.dom)) * I_,
                    ref=[(sp.sin(xs[0]) + sp.sin(xs[1])) * x for x in xs])
        del sc


def sec_trees_complex(chk):
    import nifty.cl as ift
    with objx.patched(complex_objects=True):
        W = World(ift, multi=False, cplx=True)
        I_ = ift.ScalingOperator(W.dt, 1.)
        zs = exprs(W.vals[None])
        for name, args in HOLO:
            f = _ptw_sym(name, args)
            _check_tree(chk, W, f"{name}{args}(z)", I_.ptw(name, *args), ref=[f(z) for z in zs])
        _check_tree(chk, W, "exp(z).real", I_.exp().real, ref=[sp.re(sp.exp(z)) for z in zs], real_out=True)
        _check_tree(chk, W, "exp(z).conjugate()", I_.exp().conjugate(), ref=[sp.conjugate(sp.exp(z)) for z in zs])
        _check_tree(chk, W, "(z*conj(z)).real", (I_ * I_.conjugate()).real, ref=[sp.re(z * sp.conjugate(z)) for z in zs], real_out=True)
        _check_tree(chk, W, "exp(z)*sin(z)", I_.exp() * I_.sin(), ref=[sp.exp(z) * sp.sin(z) for z in zs])
        _check_tree(chk, W, "z.vdot(exp(z)).real", I_.vdot(I_.exp()).real, ref=[sp.re(sum(sp.conjugate(z) * sp.exp(z) for z in zs))], real_out=True)
        _check_tree(chk, W, "(1+2j)*z", I_.scale(1 + 2j), ref=[(1 + 2 * sp.I) * z for z in zs])


def sec_trees_multi(chk):
    """key extraction, partial insertion, sums over different keys, energies with the metric flag"""
    import nifty.cl as ift
    with objx.patched():
        for cplx in (False,):
            W = World(ift, multi=True, cplx=cplx, sign="positive")
            a, b = ift.FieldAdapter(W.dt, "a"), ift.FieldAdapter(W.dt, "b")
            xa, xb = exprs(W.vals["a"]), exprs(W.vals["b"])
            _check_tree(chk, W, "exp(a)*b", a.exp() * b, ref=[sp.exp(xa[i]) * xb[i] for i in range(N)])
            _check_tree(chk, W, "sin(a)+log(b)", a.sin() + b.log(), ref=[sp.sin(xa[i]) + sp.log(xb[i]) for i in range(N)])
            _check_tree(chk, W, "a.ducktape_left('u') + b.ducktape_left('v') (multi-target)",
                        a.exp().ducktape_left("u") + b.sqrt().ducktape_left("v"), ref=[sp.exp(x) for x in xa] + [sp.sqrt(x) for x in xb])
            _check_tree(chk, W, "(a*b).sum()", (a * b).sum(), ref=[sum(xa[i] * xb[i] for i in range(N))])
            _check_tree(chk, W, "a.vdot(tanh(b))", a.vdot(b.tanh()), ref=[sum(xa[i] * sp.tanh(xb[i]) for i in range(N))])
            _check_tree(chk, W, "tanh(a)**b", a.tanh() ** b, ref=[sp.tanh(xa[i]) ** xb[i] for i in range(N)])
            # partial insertion: op on {u, b} with u := exp(a)
            u = ift.FieldAdapter(W.dt, "u")
            outer = u.sin() * b
            ins = a.exp().ducktape_left("u")
            _check_tree(chk, W, "(sin(u)*b).partial_insert(u=exp(a))", outer.partial_insert(ins),
                        ref=[sp.sin(sp.exp(xa[i])) * xb[i] for i in range(N)])
            _check_tree(chk, W, "(sin(u)*b) @ (u=exp(a))", outer @ ins, ref=[sp.sin(sp.exp(xa[i])) * xb[i] for i in range(N)])
            # subscripting a multi-target operator
            mt = a.exp().ducktape_left("u") + b.ducktape_left("v")
            _check_tree(chk, W, "(multi-target)['u']", mt["u"], ref=[sp.exp(x) for x in xa])
            # energies composed with a model, metric requested: M = J^adj Fisher J
            d = np.array([3, 1])
            model = a.exp() * b
            lam = [sp.exp(xa[i]) * xb[i] for i in range(N)]
            E = ift.PoissonianEnergy(ift.makeField(W.dom, d)) @ model

            def pois_metric(t, lam=lam, xa=xa, xb=xb):
                ta, tb = exprs(t["a"].asnumpy()), exprs(t["b"].asnumpy())
                # J t = lam*ta + exp(a)*tb ; Fisher 1/lam ; J^adj: a-part lam*., b-part exp(a)*.
                jt = [lam[i] * ta[i] + sp.exp(xa[i]) * tb[i] for i in range(N)]
                y = [jt[i] / lam[i] for i in range(N)]
                return [lam[i] * y[i] for i in range(N)] + [sp.exp(xa[i]) * y[i] for i in range(N)]
            _check_tree(chk, W, "Poisson @ (exp(a)*b), want_metric", E, ref=[sum(lam[i] - int(d[i]) * sp.log(lam[i]) for i in range(N))],
                        metric=pois_metric)
            G = ift.GaussianEnergy(data=ift.makeField(W.dom, np.array([0.5, -1.]))) @ (a.sin() + b)

            def gauss_metric(t, xa=xa):
                ta, tb = exprs(t["a"].asnumpy()), exprs(t["b"].asnumpy())
                jt = [sp.cos(xa[i]) * ta[i] + tb[i] for i in range(N)]
                return [sp.cos(xa[i]) * jt[i] for i in range(N)] + [jt[i] for i in range(N)]
            dd = [sp.Rational(1, 2), -1]
            _check_tree(chk, W, "Gaussian @ (sin(a)+b), want_metric", G,
                        ref=[sum((sp.sin(xa[i]) + xb[i] - dd[i]) ** 2 for i in range(N)) / 2], metric=gauss_metric)
            S = E + G

            def sum_metric(t):
                return [p + q for p, q in zip(pois_metric(t), gauss_metric(t))]
            _check_tree(chk, W, "(Poisson@model) + (Gaussian@model), want_metric", S,
                        ref=[sum(lam[i] - int(d[i]) * sp.log(lam[i]) for i in range(N)) + sum((sp.sin(xa[i]) + xb[i] - dd[i]) ** 2 for i in range(N)) / 2],
                        metric=sum_metric)


def sec_linearization_methods(chk):
    """the Linearization arithmetic called directly (as model code does inside apply)"""
    import nifty.cl as ift
    with objx.patched():
        W = World(ift, multi=False, cplx=False, sign="positive")
        xs = exprs(W.vals[None])
        c = ift.makeField(W.dom, np.array([0.5, -1.5]))
        cs = [sp.Rational(1, 2), -sp.Rational(3, 2)]

        class Fn(ift.Operator):
            def __init__(self, fn):
                self._domain = W.dt
                self._fn = fn
                self._target = None

            @property
            def target(self):
                return self._fn(W.x).domain

            def apply(self, x):
                self._check_input(x)
                return self._fn(x)
        cases = [
            ("x*x", lambda x: x * x, [v * v for v in xs]),
            ("x*c", lambda x: x * c, [xs[i] * cs[i] for i in range(N)]),
            ("c*x", lambda x: c * x, [xs[i] * cs[i] for i in range(N)]),
            ("3*x", lambda x: 3. * x, [3 * v for v in xs]),
            ("x/c", lambda x: x / c, [xs[i] / cs[i] for i in range(N)]),
            ("c/x", lambda x: c / x, [cs[i] / xs[i] for i in range(N)]),
            ("x/2", lambda x: x / 2., [v / 2 for v in xs]),
            ("x/x.exp()", lambda x: x / x.ptw("exp"), [v / sp.exp(v) for v in xs]),
            ("x+c", lambda x: x + c, [xs[i] + cs[i] for i in range(N)]),
            ("c-x", lambda x: c - x, [cs[i] - xs[i] for i in range(N)]),
            ("x-c", lambda x: x - c, [xs[i] - cs[i] for i in range(N)]),
            ("x+1", lambda x: x + 1., [v + 1 for v in xs]),
            ("-x", lambda x: -x, [-v for v in xs]),
            ("x**2", lambda x: x ** 2, [v ** 2 for v in xs]),
            ("x**x", lambda x: x ** x, [v ** v for v in xs]),
            ("x.vdot(c)", lambda x: x.vdot(c), [sum(xs[i] * cs[i] for i in range(N))]),
            ("x.vdot(x.sin())", lambda x: x.vdot(x.ptw("sin")), [sum(v * sp.sin(v) for v in xs)]),
            ("x.sum()", lambda x: x.sum(), [sum(xs)]),
            ("x.outer(c)", lambda x: x.outer(c), [xs[i] * cs[j] for i in range(N) for j in range(N)]),
            ("x.outer(x.sin())", lambda x: x.outer(x.ptw("sin")), [xs[i] * sp.sin(xs[j]) for i in range(N) for j in range(N)]),
            ("x.real", lambda x: x.real, list(xs)),
            ("x.conjugate()", lambda x: x.conjugate(), list(xs)),
        ]
        for label, fn, ref in cases:
            chk.under_contract(ift.Linearization.__mul__)
            try:
                _check_tree(chk, W, f"Linearization: {label}", Fn(fn), ref=ref)
            except objx.symx.EngineLimit:
                raise
            except Exception as e:  # noqa: BLE001
                chk.obligation("trees: the Linearization method runs on a variable", "refuted", backend="engine",
                               detail=f"{label}: {type(e).__name__}: {e}")


def sec_ptw_field_arguments(chk):
    """point-wise functions with extra arguments given as Fields / MultiFields (one argument entry per pixel and per key)"""
    import nifty.cl as ift
    from nifty.cl.field import Field
    from nifty.cl.multi_field import MultiField
    from vf.ofield import all_equal
    chk.under_contract(MultiField.ptw)
    chk.under_contract(MultiField.ptw_with_deriv)
    chk.under_contract(MultiField._prep_args)
    chk.under_contract(Field.ptw_with_deriv)
    domsets = [("keys of different shapes", {"a": ift.DomainTuple.make(ift.UnstructuredDomain(2)), "b": ift.DomainTuple.make(ift.RGSpace(3, distances=0.5)),
                                              "c": ift.DomainTuple.make(ift.UnstructuredDomain(1))}, None),
               ("keys of equal shape", {"a": ift.DomainTuple.make(ift.UnstructuredDomain(2)), "b": ift.DomainTuple.make(ift.RGSpace(2, distances=0.5))}, None)]
    for dname, doms, _ in domsets:
        with objx.patched():
            _ptw_field_arguments(chk, ift, dname, doms)


def _ptw_field_arguments(chk, ift, dname, doms):
    from vf.ofield import all_equal
    if True:
        mdom = ift.MultiDomain.make(doms)
        sym, fields = {}, {}
        for k, d in doms.items():
            n = d.size
            sym[k] = [sp.Symbol(f"x{k}{i}", positive=True) for i in range(n)]
            arr = np.empty(n, dtype=object)
            for i in range(n):
                arr[i] = SX(sym[k][i])
            fields[k] = ift.Field(d, arr.reshape(d.shape))
        x = ift.MultiField.from_dict(fields, mdom)
        # numeric arguments that differ from key to key and from pixel to pixel
        cut = lambda tab: {k: tab[k][:doms[k].size] for k in doms}      # noqa: E731
        expo = cut({"a": [2., 3.], "b": [0.5, 2., -1.], "c": [4.]})
        base = cut({"a": [2., 3.], "b": [1.5, 0.5, 4.], "c": [10.]})
        lo = cut({"a": [0.5, 0.2], "b": [0.1, 0.3, 0.2], "c": [0.4]})
        hi = cut({"a": [5., 7.], "b": [6., 8., 9.], "c": [3.]})
        mk = lambda vals: ift.MultiField.from_dict({k: ift.makeField(doms[k], np.array(vals[k]).reshape(doms[k].shape)) for k in doms}, mdom)      # noqa: E731
        R = lambda v: sp.nsimplify(v, rational=True)      # noqa: E731
        cases = [
            ("power(exponent field)", "power", (mk(expo),), {}, lambda k, i, v: v ** R(expo[k][i]), lambda k, i, v: R(expo[k][i]) * v ** (R(expo[k][i]) - 1)),
            ("exponentiate(base field)", "exponentiate", (mk(base),), {}, lambda k, i, v: R(base[k][i]) ** v, lambda k, i, v: sp.log(R(base[k][i])) * R(base[k][i]) ** v),
            ("clip(a_min field, a_max field) inside the interval", "clip", (mk(lo), mk(hi)), {}, lambda k, i, v: v, lambda k, i, v: sp.Integer(1)),
            ("power(3.0) scalar argument", "power", (3.,), {}, lambda k, i, v: v ** 3, lambda k, i, v: 3 * v ** 2),
        ]
        for label, name, args, kwargs, f, df in cases:
            # concolic point inside every clip interval
            shadow = {s: sp.Rational(1) + sp.Rational(j + 1, 7) for j, s in enumerate([q for k in doms for q in sym[k]])}
            lab = f"ptw_field_arguments: MultiField({', '.join(sorted(doms))}; {dname}).{label}"
            try:
                with SX.concolic(shadow):
                    x.ptw_with_deriv(name, *args, **kwargs)
                    ift.Linearization.make_var(x).ptw(name, *args, **kwargs)
            except Exception as e:  # noqa: BLE001
                chk.obligation(f"{lab}: the documented call is accepted (arguments given as MultiFields on the same domain)", "refuted", backend="native", detail=f"{type(e).__name__}: {e}"[:300])
                continue
            with SX.concolic(shadow):
                plain = x.ptw(name, *args, **kwargs)
                val, der = x.ptw_with_deriv(name, *args, **kwargs)
                lin = ift.Linearization.make_var(x).ptw(name, *args, **kwargs)
                t = ift.MultiField.from_dict({k: ift.Field(doms[k], np.array([SX(sp.Symbol(f"t{k}{i}", real=True)) for i in range(doms[k].size)], dtype=object).reshape(doms[k].shape))
                                              for k in doms}, mdom)
                jt = lin.jac(t)
            want_v = [f(k, i, sym[k][i]) for k in sorted(doms) for i in range(doms[k].size)]
            want_d = [df(k, i, sym[k][i]) for k in sorted(doms) for i in range(doms[k].size)]
            flat_mf = lambda m: [e for k in sorted(doms) for e in exprs(m[k].asnumpy())]      # noqa: E731
            all_equal(chk, f"{lab}: ptw == the function with each key's and pixel's own argument", flat_mf(plain), want_v)
            all_equal(chk, f"{lab}: ptw_with_deriv value == ptw", flat_mf(val), want_v)
            all_equal(chk, f"{lab}: ptw_with_deriv derivative == d/dx of that function", flat_mf(der), want_d)
            all_equal(chk, f"{lab}: Linearization.ptw value == plain evaluation", flat_mf(lin.val), want_v)
            tsym = [sp.Symbol(f"t{k}{i}", real=True) for k in sorted(doms) for i in range(doms[k].size)]
            all_equal(chk, f"{lab}: Linearization.ptw Jacobian == diag(derivative)", flat_mf(jt), [d * tt for d, tt in zip(want_d, tsym)])


def sec_trees_volume(chk):
    """integration over a regular grid: the volume factor enters value and Jacobian"""
    import nifty.cl as ift
    with objx.patched():
        W = World(ift, multi=False, cplx=False, sign="positive", dom=ift.RGSpace((N,), distances=0.25))
        I_ = ift.ScalingOperator(W.dt, 1.)
        xs = exprs(W.vals[None])
        q = sp.Rational(1, 4)
        _check_tree(chk, W, "sin(x).integrate() on a grid with pixel volume 1/4", I_.sin().integrate(), ref=[q * sum(sp.sin(x) for x in xs)])
        _check_tree(chk, W, "(x*exp(x)).integrate()", (I_ * I_.exp()).integrate(), ref=[q * sum(x * sp.exp(x) for x in xs)])
        _check_tree(chk, W, "x.sum() on the grid (no volume)", I_.log().sum(), ref=[sum(sp.log(x) for x in xs)])

        class Fn(ift.Operator):
            def __init__(self, fn):
                self._domain = W.dt
                self._fn = fn
                self._target = ift.DomainTuple.scalar_domain()

            def apply(self, x):
                self._check_input(x)
                return self._fn(x)
        _check_tree(chk, W, "Linearization: x.integrate()", Fn(lambda x: x.integrate()), ref=[q * sum(xs)])
        _check_tree(chk, W, "Linearization: (x*x).integrate()", Fn(lambda x: (x * x).integrate()), ref=[q * sum(x * x for x in xs)])


def _native(ob):
    import json
    import os
    import subprocess
    import sys
    here = os.path.dirname(os.path.abspath(__file__))
    p = subprocess.run([sys.executable, os.path.join(here, "native", "C03_native.py")], capture_output=True, text=True, timeout=600)
    try:
        return json.loads(p.stdout.strip().splitlines()[-1])
    except Exception:  # noqa: BLE001
        return dict(reproduced=False, error=p.stderr[-500:])


REPLAY = {"x.outer(": _native}

SECTIONS = [sec_trees_volume, sec_table, sec_table_points, sec_trees_single, sec_trees_complex, sec_trees_multi, sec_linearization_methods, sec_ptw_field_arguments]
