"""C32 HMC and NUTS: reversible volume-preserving dynamics, invariant target.

What contracts decide here (Engine J; the potential-energy gradient is an *uninterpreted* JAX primitive, so every identity holds
for every potential):
  leapfrog_step           flip(L(flip(L(q, p)))) == (q, p)  and  det d(q', p')/d(q, p) == 1   for symbolic step size and diagonal
                          inverse mass, n = 1, 2 (vector) and a two-leaf pytree position; the kinetic-energy gradient is odd
  generate_hmc_acc_rej    the proposal is the momentum-flipped end point of num_steps leapfrog steps; the move is accepted iff
                          u < min(1, exp(H(initial) - H(proposal))) for the uniform draw u, a NaN energy difference rejects;
                          (accepted, rejected) are (proposal, initial) resp. (initial, proposal)
  _Sampler (HMCChain/NUTSChain)  the momentum refresh  mass_matrix_sqrt * xi  has covariance M = inverse_mass_matrix^-1, the
                          inverse Hessian of the kinetic energy actually used; kinetic_energy_gradient == d kinetic_energy / dp
With the standard Metropolis argument (lemma L-METRO: a reversible, volume-preserving proposal with acceptance min(1, e^-dH) and
momentum refreshed from exp(-K) leaves exp(-H) invariant) this gives invariance of HMC.
  merge_trees / add_single_qp_to_tree / is_euclidean_uturn  (NUTS) the local steps of progressive multinomial sampling: the new
                          candidate replaces the old one with probability w_new / (w_old + w_new) (min(1, w_new / w_old) when biased),
                          weights add up (logweight == log(w_old + w_new)), the merged tree spans the outer end points, turning is
                          the U-turn criterion of those end points, depth/divergence/acceptance bookkeeping; for an uninterpreted
                          potential.  Lemma L-MULTINOMIAL turns these into 'candidate ~ e^-H over the trajectory'.
  generate_nuts_tree      (bounded, native) against an independent reference of the doubling procedure: retained trajectory (end points),
                          depth, logweight == log sum e^-H over it, turning flag, candidate is a point of it -- the control flow of
                          iterative_build_tree's aligned sub-tree U-turn checks included
Not decided: 'long chains reproduce the moments' (whole-history probabilistic statement).
"""
import numpy as np
import sympy as sp

from vf import jaxsym
from vf.jaxsym import opaque, sym_call, symbols
from vf.objx import eq_status

META = dict(
    title="HMC and NUTS: reversible volume-preserving dynamics, invariant target",
    level="other",
    design_ref="DESIGN.md section 4, C32",
    technique="contracts of leapfrog_step (time reversibility, unit Jacobian determinant), generate_hmc_acc_rej (proposal, Metropolis "
              "acceptance rule, NaN rejects) and the sampler's momentum refresh (covariance == inverse Hessian of the kinetic energy): "
              "JAX traces the real functions with the potential-energy gradient as an uninterpreted primitive; the jaxprs are "
              "evaluated on sympy symbols (Engine J), so the identities hold for every potential, step size and diagonal mass matrix",
    text="For every potential (uninterpreted gradient), step size and diagonal inverse mass matrix, on 1- and 2-dimensional vectors "
         "and a two-leaf pytree: one leapfrog step followed by a momentum flip is an involution and has unit Jacobian determinant; "
         "generate_hmc_acc_rej proposes the flipped end point of num_steps (1-3) leapfrog steps and accepts exactly when the uniform "
         "draw is below min(1, exp(H_old - H_new)), rejecting on NaN; the HMC/NUTS sampler classes refresh the momentum with the "
         "covariance that matches their kinetic energy, whose gradient is the one the integrator uses. NUTS: merging two trees / adding a "
         "point selects the new candidate with probability w_new / (w_old + w_new) (biased: min(1, w_new / w_old)), weights add up, the "
         "merged tree spans the outer ends and its turning flag is the U-turn criterion of those ends. On generated potentials, step "
         "sizes, depths and keys (bounded) the tree returned by generate_nuts_tree is the one of the doubling procedure with aligned "
         "sub-tree U-turn checks. The chain-moment clause is not decided (see note).",
    note="Universal in potential, step size, masses, positions and momenta; bounded in dimension (n <= 2, two leaves) and in the number of "
         "leapfrog steps (<= 3). Invariance of the HMC transition then follows from lemma L-METRO (stated, standard); the NUTS helper "
         "contracts give 'candidate ~ e^-H over the trajectory' with lemma L-MULTINOMIAL (stated). The control flow of "
         "generate_nuts_tree / iterative_build_tree is compared natively with an independent reference (bounded stand-in: quadratic and "
         "quartic potentials, dimension <= 3, depth <= 5). The statistical clause 'long chains reproduce the moments' has no per-call "
         "contract and is not covered.",
    explanation="level 'other': symbolic identities on jaxprs for the integrator, the acceptance rule and the NUTS merge steps; tree control flow bounded; chain statistics not covered",
)


def _eq(chk, label, got, want, **kw):
    worst = ("discharged", "sympy", "")
    if len(got) != len(want):
        chk.obligation(label, "refuted", backend="sympy", detail=f"{len(got)} entries, expected {len(want)}")
        return
    for a, b in zip(got, want):
        st = eq_status(sp.expand(sp.sympify(a)), sp.expand(sp.sympify(b)), n=5, **kw)
        if st[0] != "discharged":
            worst = st
            break
        if st[1] != "sympy":
            worst = st
    chk.obligation(label, worst[0], backend=worst[1], detail=worst[2])


def _fl(tree):
    import jax
    out = []
    for leaf in jax.tree_util.tree_leaves(tree, is_leaf=lambda x: isinstance(x, np.ndarray)):
        out += list(jaxsym.to_obj(np.asarray(leaf)).ravel())
    return out


def sec_leapfrog(chk):
    import jax
    jax.config.update("jax_enable_x64", True)
    import jax.numpy as jnp
    from nifty.re import hmc
    chk.under_contract(hmc.leapfrog_step)
    chk.under_contract(hmc.flip_momentum)
    chk.assume("A-REAL; A-JAXTRACE")
    chk.lemma("L-METRO: a reversible volume-preserving proposal with Metropolis acceptance and momentum refresh from exp(-K) leaves exp(-H) invariant")
    kg = lambda inv_m, mom: inv_m * mom  # noqa: E731   (the sampler classes' kinetic_energy_gradient, checked in sec_sampler)
    eps = symbols((), "eps", positive=True)
    for n in (1, 2):
        G = opaque(f"G{n}")
        q, p, w = symbols((n,), "q", real=True), symbols((n,), "p", real=True), symbols((n,), "w", positive=True)
        ex = (jnp.ones(n), jnp.ones(n), jnp.asarray(0.1), jnp.ones(n))

        def step(q_, p_, e_, w_, G=G):
            r = hmc.leapfrog_step(G, kg, e_, w_, hmc.QP(position=q_, momentum=p_))
            return r.position, r.momentum

        def there_and_back(q_, p_, e_, w_):
            a = hmc.leapfrog_step(G, kg, e_, w_, hmc.QP(position=q_, momentum=p_))
            b = hmc.leapfrog_step(G, kg, e_, w_, hmc.flip_momentum(a))
            c = hmc.flip_momentum(b)
            return c.position, c.momentum
        (q1, p1), used = sym_call(step, ex, (q, p, eps, w))
        (q2, p2), _ = sym_call(there_and_back, ex, (q, p, eps, w))
        lab = f"leapfrog: n={n}, any potential gradient, symbolic step size and diagonal inverse mass"
        _eq(chk, f"{lab}: flip o L o flip o L == identity (time reversibility)", list(q2) + list(p2), list(q) + list(p))
        J = sp.Matrix([[sp.diff(e, v) for v in list(q) + list(p)] for e in list(q1) + list(p1)])
        d = sp.simplify(J.det())
        chk.obligation(f"{lab}: det d(q', p')/d(q, p) == 1 (volume preservation)", "discharged" if d == 1 else ("undecided" if d.free_symbols else "refuted"),
                       backend="sympy", detail=str(d)[:300])
        # the documented update: p_half = p - eps/2 G(q); q' = q + eps w p_half; p' = p_half - eps/2 G(q')
        Gf = [sp.Function(f"G{n}{j}", real=True) for j in range(n)]
        ph = [p[j] - eps[()] / 2 * Gf[j](*[sp.expand(v) for v in q]) for j in range(n)]
        qn = [q[j] + eps[()] * w[j] * ph[j] for j in range(n)]
        pn = [ph[j] - eps[()] / 2 * Gf[j](*[sp.expand(v) for v in qn]) for j in range(n)]
        _eq(chk, f"{lab}: one step == half kick, drift, half kick", list(q1) + list(p1), qn + pn)
        chk.note(f"{lab}: jaxpr primitives interpreted: {sorted(used)}")
    # pytree positions: {'a': (2,), 'b': ()} with leaf-wise opaque gradients
    Ga, Gb = opaque("Ha"), opaque("Hb")
    q = {"a": symbols((2,), "qa", real=True), "b": symbols((1,), "qb", real=True)}
    p = {"a": symbols((2,), "pa", real=True), "b": symbols((1,), "pb", real=True)}
    w = {"a": symbols((2,), "wa", positive=True), "b": symbols((1,), "wb", positive=True)}
    ex1 = {"a": jnp.ones(2), "b": jnp.ones(1)}

    def pg(x):           # separable potential on the tree (each leaf's gradient is an arbitrary function of that leaf)
        return {"a": Ga(x["a"]), "b": Gb(x["b"])}

    def kg_t(inv_m, mom):
        return jax.tree_util.tree_map(lambda a, b: a * b, inv_m, mom)

    def tree_mul(c, t):
        return jax.tree_util.tree_map(lambda a: c * a, t)
    import nifty.re as jft

    def back_tree(q_, p_, e_, w_):
        V = jft.Vector
        a = hmc.leapfrog_step(lambda x: V(pg(x.tree)), lambda i, m: V(kg_t(i.tree, m.tree)), e_, V(w_), hmc.QP(position=V(q_), momentum=V(p_)))
        b = hmc.leapfrog_step(lambda x: V(pg(x.tree)), lambda i, m: V(kg_t(i.tree, m.tree)), e_, V(w_), hmc.flip_momentum(a))
        c = hmc.flip_momentum(b)
        return c.position.tree, c.momentum.tree
    (q2, p2), _ = sym_call(back_tree, (ex1, ex1, jnp.asarray(0.1), ex1), (q, p, eps, w))
    _eq(chk, "leapfrog: pytree position/momentum (Vector of two leaves): flip o L o flip o L == identity", _fl(q2) + _fl(p2), _fl(q) + _fl(p))


def sec_acc_rej(chk):
    """the proposal and the selected states, for every potential gradient: with constant energies the move is always accepted
    (probability min(1, exp(0)) = 1), so the accepted state *is* the proposal; the acceptance decision itself is checked natively"""
    import jax
    jax.config.update("jax_enable_x64", True)
    import jax.numpy as jnp
    from jax import random
    from nifty.re import hmc
    chk.under_contract(hmc.generate_hmc_acc_rej)
    chk.under_contract(hmc.total_energy_of_qp)
    n = 2
    G = opaque("G2")
    kg = lambda inv_m, mom: inv_m * mom  # noqa: E731
    q, p, w = symbols((n,), "q", real=True), symbols((n,), "p", real=True), symbols((n,), "w", positive=True)
    eps = symbols((), "eps", positive=True)
    ex = (jnp.ones(n), jnp.ones(n), jnp.asarray(0.1), jnp.ones(n))
    for num_steps in (1, 2, 3):
        key = random.PRNGKey(num_steps)

        def run(q_, p_, e_, w_):
            stepper = lambda ss, im, qp: hmc.leapfrog_step(G, kg, ss, im, qp)  # noqa: E731
            r = hmc.generate_hmc_acc_rej(key=key, initial_qp=hmc.QP(position=q_, momentum=p_), potential_energy=lambda x: 0., kinetic_energy=lambda im, m: 0.,
                                         inverse_mass_matrix=w_, stepper=stepper, num_steps=num_steps, step_size=e_, max_energy_difference=1000.)
            return r.accepted_qp.position, r.accepted_qp.momentum, r.rejected_qp.position, r.rejected_qp.momentum, r.accepted

        def prop(q_, p_, e_, w_):
            qp = hmc.QP(position=q_, momentum=p_)
            for _ in range(num_steps):
                qp = hmc.leapfrog_step(G, kg, e_, w_, qp)
            qp = hmc.flip_momentum(qp)
            return qp.position, qp.momentum
        (aq, ap, rq, rp, acc), used = sym_call(run, ex, (q, p, eps, w))
        (pq, pp), _ = sym_call(prop, ex, (q, p, eps, w))
        lab = f"acc_rej: num_steps={num_steps}, any potential gradient"
        chk.obligation(f"{lab}: equal energies are always accepted (probability min(1, exp(0)) == 1)", "discharged" if bool(np.asarray(acc)) else "refuted", backend="sympy")
        _eq(chk, f"{lab}: the accepted state is the momentum-flipped end point of num_steps leapfrog steps", list(aq) + list(ap), list(pq) + list(pp))
        _eq(chk, f"{lab}: the rejected state is the initial point", list(rq) + list(rp), list(q) + list(p))
        chk.note(f"{lab}: jaxpr primitives interpreted: {sorted(used)}")


def sec_acc_rej_native(chk):
    """bounded: the acceptance rule natively on concrete potentials, including the NaN branch"""
    import jax
    jax.config.update("jax_enable_x64", True)
    import jax.numpy as jnp
    from jax import random
    from nifty.re import hmc
    fails, cases = [], 0
    kg = lambda inv_m, mom: inv_m * mom  # noqa: E731
    ke = lambda inv_m, mom: jnp.sum(inv_m * mom ** 2 / 2.)  # noqa: E731
    rng = np.random.default_rng(32 + chk.seed)
    for rep in range(40 if chk.tier == "quick" else 400):
        cases += 1
        a = rng.uniform(0.2, 3.)
        pot = (lambda x, a=a: 0.5 * a * jnp.sum(x ** 2) + 0.1 * jnp.sum(x ** 4)) if rep % 5 else (lambda x: jnp.sum(jnp.log(x)))   # the log potential goes NaN for negative positions
        grad = jax.grad(pot)
        key = random.PRNGKey(rep)
        q0, p0 = jnp.asarray(rng.normal(size=2)), jnp.asarray(rng.normal(size=2))
        if rep % 5 == 0:
            q0 = jnp.abs(q0) * 0.05 + 0.01
        w = jnp.asarray(rng.uniform(0.3, 2., size=2))
        eps = float(rng.uniform(0.05, 0.9))
        r = hmc.generate_hmc_acc_rej(key=key, initial_qp=hmc.QP(q0, p0), potential_energy=pot, kinetic_energy=ke, inverse_mass_matrix=w,
                                     stepper=lambda ss, im, qp: hmc.leapfrog_step(grad, kg, ss, im, qp), num_steps=3, step_size=eps, max_energy_difference=1000.)
        qp = hmc.QP(q0, p0)
        for _ in range(3):
            qp = hmc.leapfrog_step(grad, kg, eps, w, qp)
        qp = hmc.flip_momentum(qp)
        dE = float(pot(q0) + ke(w, p0) - pot(qp.position) - ke(w, qp.momentum))
        u = float(random.uniform(key, ()))
        want = (not np.isnan(dE)) and u < min(1., np.exp(dE)) if not np.isnan(dE) else True
        if np.isnan(dE):
            want = u < 1.0          # documented: NaN energy difference is replaced by +inf -> probability min(1, exp(inf)) = 1
        if bool(r.accepted) != bool(want):
            fails.append(dict(case=f"#{rep}: dE={dE}, u={u}: accepted={bool(r.accepted)}, rule says {bool(want)}", detail=""))
        exp_acc = qp if bool(r.accepted) else hmc.QP(q0, p0)
        if not (np.allclose(r.accepted_qp.position, exp_acc.position, equal_nan=True) and np.allclose(r.accepted_qp.momentum, exp_acc.momentum, equal_nan=True)):
            fails.append(dict(case=f"#{rep}: accepted_qp is not the {'proposal' if bool(r.accepted) else 'initial point'}", detail=""))
    chk.bounded("generate_hmc_acc_rej natively: acceptance decision and selected state against the rule on generated potentials (incl. NaN energies)",
                bound=f"{cases} generated (potential, state, step size, key) cases", cases=cases, nontrivial=cases, failures=fails, kind="B-runtime")


def sec_sampler(chk):
    """HMCChain / NUTSChain: momentum refresh matches the kinetic energy; its gradient is the one handed to the integrator"""
    import jax
    jax.config.update("jax_enable_x64", True)
    import jax.numpy as jnp
    from jax import random
    from nifty.re import hmc, hmc_oo
    chk.under_contract(hmc_oo._Sampler.__init__)
    chk.under_contract(hmc.sample_momentum_from_diagonal)
    n = 2
    w = symbols((n,), "w", positive=True)
    pm = symbols((n,), "p", real=True)
    pot = lambda x: jnp.sum(x ** 2)  # noqa: E731
    for cls in (hmc_oo.HMCChain, hmc_oo.NUTSChain):
        kw = dict(num_steps=2) if cls is hmc_oo.HMCChain else dict(max_tree_depth=2)

        def parts(w_, p_, cls=cls, kw=kw):
            s = cls(potential_energy=pot, inverse_mass_matrix=w_, position_proto=jnp.ones(n), step_size=0.1, **kw)
            ke = s.kinetic_energy(s.inverse_mass_matrix, p_)
            return s.mass_matrix_sqrt, s.inverse_mass_matrix, ke
        try:
            (msq, im, ke), _ = sym_call(parts, (jnp.ones(n), jnp.ones(n)), (w, pm))
        except Exception as e:  # noqa: BLE001
            chk.obligation(f"sampler: {cls.__name__}: the sampler can be constructed inside a trace", "undecided", backend="engine", detail=f"{type(e).__name__}: {e}"[:300])
            continue
        msq, im = list(jaxsym.to_obj(np.asarray(msq)).ravel()), list(jaxsym.to_obj(np.asarray(im)).ravel())
        ke = jaxsym.to_obj(np.asarray(ke))[()]
        hess = [sp.diff(ke, pm[j], 2) for j in range(n)]
        _eq(chk, f"sampler: {cls.__name__}: the kinetic energy is 1/2 sum inverse_mass p^2 (its Hessian is the inverse mass matrix)", hess, im)
        _eq(chk, f"sampler: {cls.__name__}: mass_matrix_sqrt^2 * Hessian(kinetic energy) == 1 (momentum refresh covariance == M)",
            [msq[j] ** 2 * hess[j] for j in range(n)], [1] * n)
    # the refresh itself: mass_matrix_sqrt * standard normal draws
    key = random.PRNGKey(3)
    draws = np.asarray(hmc.sample_momentum_from_diagonal(key=key, mass_matrix_sqrt=jnp.ones(n)))     # the key's standard normal draws
    ms = symbols((n,), "m", positive=True)
    out, _ = sym_call(lambda m_: hmc.sample_momentum_from_diagonal(key=key, mass_matrix_sqrt=m_), (jnp.ones(n),), (ms,))
    got = list(jaxsym.to_obj(np.asarray(out)).ravel())
    ok = all(sp.simplify(got[j] / ms[j]).is_number and abs(complex(sp.N(got[j] / ms[j])) - draws[j]) < 1e-12 for j in range(n))
    chk.obligation("sampler: sample_momentum_from_diagonal == mass_matrix_sqrt * (the key's standard normal draws): linear in mass_matrix_sqrt",
                   "discharged" if ok else "refuted", backend="sympy", detail=f"{got} vs draws {draws}")


# ------------------------------------------------------------------------------------------------------------ NUTS helpers
def _sym_tree(hmc, jnp, pref, n, depth, turning=False, diverging=False):
    ex = hmc.Tree(left=hmc.QP(jnp.ones(n), jnp.ones(n) * .5), right=hmc.QP(jnp.ones(n) * 2, jnp.ones(n) * .3), logweight=jnp.asarray(-1.2),
                  proposal_candidate=hmc.QP(jnp.ones(n) * 1.5, jnp.ones(n) * .1), turning=jnp.asarray(turning), diverging=jnp.asarray(diverging),
                  depth=jnp.asarray(depth), cumulative_acceptance=jnp.asarray(0.7))
    sy = hmc.Tree(left=hmc.QP(symbols((n,), pref + "ql", real=True), symbols((n,), pref + "pl", real=True)),
                  right=hmc.QP(symbols((n,), pref + "qr", real=True), symbols((n,), pref + "pr", real=True)),
                  logweight=symbols((), pref + "lw", real=True),
                  proposal_candidate=hmc.QP(symbols((n,), pref + "qc", real=True), symbols((n,), pref + "pc", real=True)),
                  turning=np.asarray(turning), diverging=np.asarray(diverging), depth=np.asarray(depth),
                  cumulative_acceptance=symbols((), pref + "ca", real=True))
    return ex, sy


def _transition_probability(chk, label, pw, u0, new_val, old_val):
    """pw: the selected candidate entry, Piecewise((new, cond), (old, True)) with cond <=> u0 < P; returns P"""
    pw = sp.sympify(pw)
    if not isinstance(pw, sp.Piecewise) or len(pw.args) != 2 or pw.args[0][0] != new_val or pw.args[1][0] != old_val:
        chk.obligation(f"{label}: the candidate is the new one iff the uniform draw is below the transition probability, the old one otherwise", "refuted", backend="sympy", detail=str(pw)[:300])
        return None
    cond = pw.args[0][1]
    num = [a for a in (cond.lhs, cond.rhs) if a.is_number]
    oth = [a for a in (cond.lhs, cond.rhs) if not a.is_number]
    if len(num) != 1 or len(oth) != 1 or not isinstance(cond, (sp.StrictGreaterThan, sp.StrictLessThan)):
        chk.obligation(f"{label}: the selection predicate compares the uniform draw with the transition probability (strictly)", "undecided", backend="sympy", detail=str(cond)[:300])
        return None
    c, e = num[0], oth[0]
    bigger = (isinstance(cond, sp.StrictGreaterThan) and cond.lhs is e) or (isinstance(cond, sp.StrictLessThan) and cond.rhs is e)      # e > c
    if not bigger:
        c, e = -c, -e                                                                                                                  # e < c  <=>  -e > -c
    ok = abs(float(c) - u0) < 1e-15
    chk.obligation(f"{label}: the threshold of the selection is the uniform draw of the given key (Bernoulli semantics)", "discharged" if ok else "refuted", backend="native",
                   detail=f"threshold {float(c)!r}, uniform draw {u0!r}")
    return e


def sec_nuts_helpers(chk):
    """merge_trees / add_single_qp_to_tree / is_euclidean_uturn: the local steps of multinomial (progressive) sampling over the trajectory"""
    import jax
    jax.config.update("jax_enable_x64", True)
    import jax.numpy as jnp
    from nifty.re import hmc
    for f in (hmc.merge_trees, hmc.add_single_qp_to_tree, hmc.is_euclidean_uturn, hmc.count_trailing_ones):
        chk.under_contract(f)
    chk.lemma("L-MULTINOMIAL: if every merge keeps the old candidate with probability w_old / (w_old + w_new) (weights e^-H summed over the sub-trajectories), "
              "the final candidate is distributed as e^-H over the whole trajectory (induction over merges); the biased rule min(1, w_new / w_old) at the top "
              "level preserves the target as well (Betancourt 2017, A.3.2) -- stated, not mechanised")
    n = 2
    w = lambda x: sp.exp(x)      # noqa: E731
    for seed in (3, 11):
        key = jax.random.PRNGKey(seed)
        u0 = float(jax.random.uniform(key, (), dtype=jnp.float64))
        for turning_c, div_c, div_n in ((False, False, False), (True, True, False), (False, False, True)):
            ce, cs = _sym_tree(hmc, jnp, "c", n, 1, turning=turning_c, diverging=div_c)
            ne, ns = _sym_tree(hmc, jnp, "n", n, 1, diverging=div_n)
            for go_right in (True, False):
                for bias in (False, True):
                    lab = f"nuts_helpers: merge_trees(go_right={go_right}, bias_transition={bias}, flags {turning_c}/{div_c}/{div_n}, key {seed})"
                    out, _ = sym_call(lambda k, a, b: hmc.merge_trees(k, a, b, go_right, bias), (key, ce, ne), (key, cs, ns))
                    P = _transition_probability(chk, lab, out.proposal_candidate.position[0], u0, ns.proposal_candidate.position[0], cs.proposal_candidate.position[0])
                    if P is not None:
                        lwc, lwn = cs.logweight[()], ns.logweight[()]
                        want = sp.Min(1, w(lwn) / w(lwc)) if bias else w(lwn) / (w(lwc) + w(lwn))
                        _eq(chk, f"{lab}: P(take the new subtree's candidate) == " + ("min(1, w_new / w_old)" if bias else "w_new / (w_old + w_new)"), [P], [want])
                        same = all(sp.sympify(e).args[0][1] == sp.sympify(out.proposal_candidate.position[0]).args[0][1]
                                   for e in list(out.proposal_candidate.position) + list(out.proposal_candidate.momentum))
                        chk.obligation(f"{lab}: position and momentum of the candidate are selected by the same draw", "discharged" if same else "refuted", backend="identity")
                    _eq(chk, f"{lab}: logweight == log(w_old + w_new)", [out.logweight[()]], [sp.log(w(cs.logweight[()]) + w(ns.logweight[()]))])
                    L, R = ((cs.left, ns.right) if go_right else (ns.left, cs.right))
                    ok = all(a == b for a, b in zip(_fl(out.left) + _fl(out.right), _fl(L) + _fl(R)))
                    chk.obligation(f"{lab}: the merged tree spans from the outer left end to the outer right end", "discharged" if ok else "refuted", backend="identity")
                    turn_want = sp.And(sum(R.momentum[i] * (R.position[i] - L.position[i]) for i in range(n)) < 0, sum(L.momentum[i] * (L.position[i] - R.position[i]) for i in range(n)) < 0)
                    got_turn = sp.sympify(out.turning[()])
                    ok = sp.simplify_logic(sp.Equivalent(got_turn, turn_want)) is sp.true or _same_truth(got_turn, turn_want, chk.seed)
                    chk.obligation(f"{lab}: turning == the U-turn criterion of the merged end points", "discharged" if ok else "refuted", backend="sympy")
                    ok = int(out.depth) == 2 and bool(out.diverging) == (div_c or div_n)
                    chk.obligation(f"{lab}: depth + 1, diverging == either subtree diverging", "discharged" if ok else "refuted", backend="identity")
                    _eq(chk, f"{lab}: cumulative acceptance is additive", [out.cumulative_acceptance[()]], [cs.cumulative_acceptance[()] + ns.cumulative_acceptance[()]])
    # add_single_qp_to_tree with an uninterpreted potential and the real kinetic energy
    V = opaque("potential", scalar_out=True)
    for seed in (5,):
        key = jax.random.PRNGKey(seed)
        u0 = float(jax.random.uniform(key, (), dtype=jnp.float64))
        te, ts = _sym_tree(hmc, jnp, "t", n, 1)
        qe = hmc.QP(jnp.ones(n) * .7, jnp.ones(n) * -.2)
        qs = hmc.QP(symbols((n,), "q", real=True), symbols((n,), "p", real=True))
        im = symbols((), "im", positive=True)
        h0 = symbols((), "h0", real=True)
        dmax = symbols((), "dmax", positive=True)

        def kin(inv_mass, p):
            return 0.5 * jnp.sum(inv_mass * p * p)
        for go_right in (True, False):
            lab = f"nuts_helpers: add_single_qp_to_tree(go_right={go_right})"
            jaxsym.Shadow.point, jaxsym.Shadow.pc = None, []
            out, _ = sym_call(lambda k, t, qp, m, e0, dm: hmc.add_single_qp_to_tree(k, t, qp, go_right, V, kin, m, e0, dm),
                              (key, te, qe, jnp.asarray(1.3), jnp.asarray(-0.4), jnp.asarray(1000.)), (key, ts, qs, im, h0, dmax))
            negE = -(sp.Function("potential_0")(*list(qs.position)) + sp.Rational(1, 2) * im[()] * sum(x * x for x in qs.momentum))
            lw = sp.sympify(out.logweight[()])
            fn = [f for f in lw.atoms(sp.Function) if f.func.__name__.startswith("potential")]
            # the uninterpreted potential value V(q) is treated as one real symbol: the identities hold for every value it can take
            vq = sp.Symbol("Vq", real=True)
            negE = -(vq + sp.Rational(1, 2) * im[()] * sum(x * x for x in qs.momentum))
            ok = len(fn) == 1 and list(fn[0].args) == list(qs.position)
            chk.obligation(f"{lab}: the potential is evaluated once, at the new point's position", "discharged" if ok else "refuted", backend="identity", detail=str(fn)[:200])
            lw = lw.subs(fn[0], vq) if fn else lw
            P = _transition_probability(chk, lab, sp.sympify(out.proposal_candidate.position[0]).subs(fn[0], vq) if fn else out.proposal_candidate.position[0], u0,
                                        ts.proposal_candidate.position[0], qs.position[0])
            if P is not None:
                _eq(chk, f"{lab}: P(keep the tree's candidate) == w_tree / (w_tree + e^-H(new point))", [P], [w(ts.logweight[()]) / (w(ts.logweight[()]) + w(negE))])
            _eq(chk, f"{lab}: logweight == log(w_tree + e^-H(new point))", [lw], [sp.log(w(ts.logweight[()]) + w(negE))])
            L, R = ((ts.left, qs) if go_right else (qs, ts.right))
            ok = all(a == b for a, b in zip(_fl(out.left) + _fl(out.right), _fl(L) + _fl(R)))
            chk.obligation(f"{lab}: the new point becomes the outer end on the side the tree grows", "discharged" if ok else "refuted", backend="identity")
            dv = sp.sympify(out.diverging[()])
            want = sp.Abs(negE - h0[()]) > dmax[()]
            if fn:
                dv = dv.subs(fn[0], vq)
            ok = sp.simplify_logic(sp.Equivalent(dv, want)) is sp.true or _same_truth(dv, want, chk.seed)
            chk.obligation(f"{lab}: diverging == |H(new point) - H(initial)| > max_energy_difference", "discharged" if ok else "refuted", backend="sympy", detail=str(dv)[:200])
    # U-turn criterion and trailing-ones counter
    qs_l = hmc.QP(symbols((n,), "ql", real=True), symbols((n,), "pl", real=True))
    qs_r = hmc.QP(symbols((n,), "qr", real=True), symbols((n,), "pr", real=True))
    out, _ = sym_call(hmc.is_euclidean_uturn, (hmc.QP(jnp.ones(n), jnp.ones(n)), hmc.QP(jnp.ones(n) * 2, jnp.ones(n))), (qs_l, qs_r))
    want = sp.And(sum(qs_r.momentum[i] * (qs_r.position[i] - qs_l.position[i]) for i in range(n)) < 0, sum(qs_l.momentum[i] * (qs_l.position[i] - qs_r.position[i]) for i in range(n)) < 0)
    got = sp.sympify(np.asarray(out, dtype=object)[()])
    ok = sp.simplify_logic(sp.Equivalent(got, want)) is sp.true or _same_truth(got, want, chk.seed)
    chk.obligation("nuts_helpers: is_euclidean_uturn == (p_right . (q_right - q_left) < 0) and (p_left . (q_left - q_right) < 0)", "discharged" if ok else "refuted", backend="sympy")
    fails = [k for k in list(range(0, 130)) + [2 ** 20 - 1, 2 ** 31 - 1, 2 ** 40 + 7] if int(hmc.count_trailing_ones(jnp.asarray(k, dtype=jnp.uint64))) != (len(bin(k)) - len(bin(k).rstrip("1")))]
    chk.bounded("count_trailing_ones against the binary representation", bound="n = 0..129 and three large values", cases=133, nontrivial=133,
                failures=[dict(case=f"count_trailing_ones({k}) is wrong", detail="") for k in fails], kind="B-runtime")


def _same_truth(a, b, seed, n=200):
    """two Boolean expressions in real symbols agree at n random rational points (fallback when sympy cannot prove equivalence)"""
    import random
    rnd = random.Random(seed)
    syms = sorted(a.free_symbols | b.free_symbols, key=str)
    seen = set()
    for _ in range(n):
        pt = {s: sp.Rational(rnd.randint(-300, 300), 100) for s in syms}
        va, vb = bool(a.subs(pt)), bool(b.subs(pt))
        if va != vb:
            return False
        seen.add(va)
    return len(seen) == 2          # both truth values were exercised


def sec_nuts_tree_native(chk):
    """bounded: generate_nuts_tree against an independent recursive reference of the doubling procedure (deterministic parts)"""
    import jax
    jax.config.update("jax_enable_x64", True)
    import jax.numpy as jnp
    from functools import partial
    from nifty.re import hmc
    chk.under_contract(hmc.generate_nuts_tree)
    chk.under_contract(hmc.iterative_build_tree)
    rng = np.random.default_rng(3200 + chk.seed)
    fails, cases, stops = [], 0, dict(turn_sub=0, turn_total=0, depth=0, diverging=0)

    def uturn(l, r):
        return (np.dot(r[1], r[0] - l[0]) < 0) and (np.dot(l[1], l[0] - r[0]) < 0)
    pots = [("quadratic", lambda c: (lambda q: 0.5 * jnp.sum(c * q * q))), ("quartic", lambda c: (lambda q: jnp.sum(c * q ** 4) + 0.1 * jnp.sum(q * q)))]
    reps = 6 if chk.tier == "quick" else 30
    for pname, mk in pots:
        for dim in (1, 2, 3):
            for rep in range(reps):
                cases += 1
                c = jnp.asarray(rng.uniform(0.3, 2.0, size=dim))
                V = mk(c)
                gV = jax.grad(V)
                im = jnp.asarray(rng.uniform(0.5, 2.0, size=dim))
                kin = lambda inv_m, p: 0.5 * jnp.sum(inv_m * p * p)      # noqa: E731
                stepper = partial(hmc.leapfrog_step, gV, lambda inv_m, p: inv_m * p)
                eps = float(rng.uniform(0.05, 0.7))
                maxd = int(rng.integers(1, 6))
                q0, p0 = jnp.asarray(rng.normal(size=dim)), jnp.asarray(rng.normal(size=dim))
                seed = int(rng.integers(0, 2 ** 31 - 1))
                key = jax.random.PRNGKey(seed)
                maxdiff = [1000., 5., 50.][rep % 3]       # divergence threshold: a trajectory whose energy error exceeds it is abandoned
                tree = hmc.generate_nuts_tree(hmc.QP(q0, p0), key, eps, maxd, stepper, V, kin, im, bias_transition=bool(rep % 2), max_energy_difference=maxdiff)
                # ---- reference: trajectory as a dict time -> (q, p); directions drawn as the driver documents (one Bernoulli(1/2) per doubling)
                H = lambda qp: float(V(jnp.asarray(qp[0])) + kin(im, jnp.asarray(qp[1])))      # noqa: E731

                def step(qp, direction):
                    out = stepper(direction * eps, im, hmc.QP(jnp.asarray(qp[0]), jnp.asarray(qp[1])))
                    return (np.asarray(out.position), np.asarray(out.momentum))
                traj = {0: (np.asarray(q0), np.asarray(p0))}
                H0 = H(traj[0])
                lo = hi = 0
                depth, k, stop_reason = 0, key, None
                while depth <= maxd:
                    k, k_dir, _, _ = jax.random.split(k, 4)
                    right = bool(jax.random.bernoulli(k_dir, 0.5))
                    npts = 2 ** depth
                    new, cur = [], (hi if right else lo)
                    sub_turn = False
                    for n in range(npts):
                        nxt = cur + (1 if right else -1)
                        traj[nxt] = step(traj[cur], 1. if right else -1.)
                        new.append(nxt)
                        cur = nxt
                        if abs(H(traj[nxt]) - H0) > maxdiff:
                            sub_turn = "diverging"
                            break
                        if n % 2 == 1:      # right end of aligned sub-trees of sizes 2, 4, ..: check each against its other end
                            size = 2
                            while (n + 1) % size == 0 and size <= n + 1:
                                if uturn(traj[new[n - size + 1]], traj[new[n]]):
                                    sub_turn = True
                                size *= 2
                            if sub_turn:
                                break
                    if sub_turn:
                        for t in new:
                            traj.pop(t)
                        stop_reason = "diverging" if sub_turn == "diverging" else "turn_sub"
                        break
                    lo, hi = (lo, hi + npts) if right else (lo - npts, hi)
                    depth += 1
                    if uturn(traj[lo], traj[hi]):
                        stop_reason = "turn_total"
                        break
                stops[stop_reason or "depth"] += 1
                lab = f"{pname} potential, dimension {dim}, step {eps:.3f}, max depth {maxd}, key {seed}"
                got_l, got_r = (np.asarray(tree.left.position), np.asarray(tree.left.momentum)), (np.asarray(tree.right.position), np.asarray(tree.right.momentum))
                if stop_reason == "diverging" and not bool(tree.diverging):
                    fails.append(dict(case=f"{lab}: the energy error exceeds max_energy_difference but the tree is not flagged diverging", detail=""))
                if not all(np.all(np.isfinite(traj[t][0])) and np.all(np.isfinite(traj[t][1])) for t in range(lo, hi + 1)):
                    fails.append(dict(case=f"{lab}: the retained trajectory of the reference is not finite (the divergence threshold should have stopped it)", detail=""))
                    continue
                if not (np.allclose(got_l[0], traj[lo][0], rtol=1e-9, atol=1e-11) and np.allclose(got_l[1], traj[lo][1], rtol=1e-9, atol=1e-11)
                        and np.allclose(got_r[0], traj[hi][0], rtol=1e-9, atol=1e-11) and np.allclose(got_r[1], traj[hi][1], rtol=1e-9, atol=1e-11)):
                    fails.append(dict(case=f"{lab}: the end points of the returned tree are not those of the doubling procedure (reference stops by {stop_reason or 'depth'} at depth {depth})", detail=""))
                    continue
                if int(tree.depth) != depth:
                    fails.append(dict(case=f"{lab}: depth {int(tree.depth)} != {depth}", detail=""))
                lw = np.logaddexp.reduce([-H(traj[t]) for t in range(lo, hi + 1)])
                if not np.isclose(float(tree.logweight), lw, rtol=1e-9, atol=1e-10):
                    fails.append(dict(case=f"{lab}: logweight {float(tree.logweight)!r} != log sum exp(-H) over the trajectory {lw!r}", detail=""))
                cq = np.asarray(tree.proposal_candidate.position)
                if not any(np.allclose(cq, traj[t][0], rtol=1e-9, atol=1e-11) for t in range(lo, hi + 1)):
                    fails.append(dict(case=f"{lab}: the proposal candidate is not a point of the retained trajectory", detail=""))
                if depth > 0 and bool(tree.turning) != uturn(traj[lo], traj[hi]):
                    fails.append(dict(case=f"{lab}: turning flag {bool(tree.turning)} != U-turn criterion of the end points", detail=""))
    chk.note(f"nuts_tree_native: reference stop reasons {stops}")
    nontriv = cases if min(stops["turn_sub"], stops["turn_total"]) > 0 else 0
    chk.bounded("generate_nuts_tree against an independent reference of the doubling procedure: retained trajectory, depth, weights, turning, candidate membership",
                bound=f"{cases} (potential, dimension, step size, max depth <= 5, key) cases; stop reasons {stops}", cases=cases, nontrivial=nontriv, failures=fails, kind="B-runtime")


SECTIONS = [sec_leapfrog, sec_acc_rej, sec_acc_rej_native, sec_sampler, sec_nuts_helpers, sec_nuts_tree_native]
