"""C12 JAX likelihoods factor their metric and equal the Fisher information.

Engine J: JAX traces the real likelihood methods (constructed *inside* the traced function, so that data, noise parameters and
degrees of freedom are arguments) into jaxprs -- including the jax.vjp / jax.linear_transpose of the base-class defaults -- and the
jaxprs are evaluated on sympy symbols.  Contracts, per likelihood, as identities in every parameter, datum, position p, tangent t
and cotangent s:
   (a) d/dp [ energy(p) - (-log pdf of the documented distribution) ] == 0
   (b) metric(p, t) == F(p) t with F the Fisher information of that distribution, written independently
   (c) metric(p, t) == left_sqrt_metric(p, right_sqrt_metric(p, t))
   (d) <s, right_sqrt_metric(p, t)> == <left_sqrt_metric(p, s), t>            (right = left^H)
   (e) left_sqrt_metric(p, s) == (d transformation / dp)^H s  exactly, or E_data[J^H J] == F where the transformation is documented
       as a local approximation invoking the residual
   (f) normalized_residual is the documented one
and the same after amending a forward model (J_f^H M J_f, left sqrt J_f^H L), adding likelihoods and freezing point estimates.
"""
import numpy as np
import sympy as sp

from vf import jaxsym
from vf.jaxsym import sym_call, symbols
from vf.objx import eq_status

META = dict(
    title="JAX likelihoods factor their metric and equal the Fisher information",
    level="other",
    design_ref="DESIGN.md section 4, C12",
    technique="contracts metric == L R, R == L^H, L == (d transformation)^H (exactly or in expectation over data), metric == Fisher "
              "information, energy == -log pdf, on the real nifty.re likelihood classes: JAX traces the unmodified methods (incl. "
              "their jax.vjp / linear_transpose defaults) to jaxprs, which are evaluated on sympy symbols primitive by primitive "
              "(Engine J); identities decided by sympy for all parameter, data and tangent values",
    text="For Gaussian (unit, diagonal inverse covariance, diagonal inverse standard deviation, dense callable covariance), Student-t, "
         "Poissonian, variable-covariance Gaussian, variable-covariance Student-t and Categorical likelihoods on scalar-like, batched "
         "and two-leaf pytree data: the energy differs from the negative log-pdf by a parameter-independent constant, the metric is "
         "the Fisher information and equals left-sqrt after right-sqrt, the right square root is the transpose of the left one, the "
         "left square root is the pull-back through the transformation (exactly, or in expectation over data for the variable-"
         "covariance Gaussian), and amending a forward model, adding likelihoods and freezing point estimates preserve these "
         "identities. NDVariableCovarianceGaussian (matrix square roots, logm, solve) is checked natively at generated points only.",
    note="Universal in all values (symbols); bounded in skeleton: leaf shapes (2,), (2,2) and two-leaf trees, the listed constructions. "
         "Trusted: JAX's tracer (it is what produces the program that runs) and Engine J's primitive table; floats are reals (A-REAL). "
         "Fisher information of the Student-t families are quoted closed forms (L-FISHER, cross-checked by quadrature in C11). "
         "Residues sympy cannot reduce are evaluated at exact rational points.",
    explanation="level 'other': symbolic identities on jaxprs of the real code for enumerated skeletons; one class bounded natively",
)


def _flat(tree):
    import jax
    out = []
    for leaf in jax.tree_util.tree_leaves(tree, is_leaf=lambda x: isinstance(x, np.ndarray)):
        out += list(jaxsym.to_obj(np.asarray(leaf)).ravel())
    return out


def _all(chk, label, got, want, domain=None):
    if len(got) != len(want):
        chk.obligation(label, "refuted", backend="sympy", detail=f"{len(got)} entries, expected {len(want)}")
        return
    worst = ("discharged", "sympy", "")
    for a, b in zip(got, want):
        st = eq_status(sp.sympify(a), sp.sympify(b), domain=domain, n=6)
        if st[0] != "discharged":
            worst = st
            break
        if st[1] != "sympy":
            worst = st
    chk.obligation(label, worst[0], backend=worst[1], detail=worst[2])


def _ones_like(tree):
    import jax
    import jax.numpy as jnp
    return jax.tree_util.tree_map(lambda a: jnp.asarray(np.full(np.shape(a), 1.5)), tree, is_leaf=lambda x: isinstance(x, np.ndarray))


def _sym_like(tree, name, **assump):
    """same pytree with fresh symbols"""
    import jax
    cnt = [0]

    def mk(a):
        cnt[0] += 1
        return symbols(np.shape(a), f"{name}{cnt[0]}_", **assump)
    return jax.tree_util.tree_map(mk, tree, is_leaf=lambda x: isinstance(x, np.ndarray))


class Case:
    """one likelihood construction: make(*params) -> Likelihood;  params/primals as pytrees of object arrays (symbols)"""

    def __init__(self, name, make, params, primals, nlp, fisher, trafo="exact", nres=None, expect=None, domain=None, params_ex=None):
        self.name, self.make, self.params, self.primals = name, make, params, primals
        self.nlp, self.fisher, self.trafo, self.nres, self.expect, self.domain = nlp, fisher, trafo, nres, expect, domain
        self.params_ex = params_ex


def _check(chk, C, group):
    import jax
    jax.config.update("jax_enable_x64", True)
    lab = f"{group}: {C.name}"
    pex = C.params_ex if C.params_ex is not None else _ones_like(C.params)
    xex = _ones_like(C.primals)
    p = _flat(C.primals)
    n = len(p)
    dom = C.domain
    used = set()

    def call(fn, ex, sy):
        res, u = sym_call(fn, ex, sy)
        used.update(u)
        return res
    lh0 = C.make(*jax.tree_util.tree_leaves(pex)) if False else None  # noqa: F841  (construction happens inside the trace)
    # (a) energy
    E = _flat(call(lambda prm, x: C.make(*prm)(x), (pex, xex), (C.params, C.primals)))[0]
    _all(chk, f"{lab}: energy == -log pdf up to a parameter-independent constant", [sp.diff(E - C.nlp, s) for s in p], [0] * n, dom)
    # (b) metric == Fisher
    t = _sym_like(C.primals, "t", real=True)
    tf = _flat(t)
    M = _flat(call(lambda prm, x, tt: C.make(*prm).metric(x, tt), (pex, xex, xex), (C.params, C.primals, t)))
    Ft = list(C.fisher * sp.Matrix(tf))
    _all(chk, f"{lab}: metric(p, t) == Fisher information times t", M, Ft, dom)
    # shapes of the left-sqrt tangents
    lsm_shape = C.make(*pex).lsm_tangents_shape            # static shapes: an eager construction with the example parameters
    sex = jax.tree_util.tree_map(lambda s: jax.numpy.ones(s.shape), lsm_shape, is_leaf=lambda x: hasattr(x, "shape") and hasattr(x, "dtype"))
    s = _sym_like(jax.tree_util.tree_map(np.asarray, sex), "s", real=True)
    sf = _flat(s)
    R = call(lambda prm, x, tt: C.make(*prm).right_sqrt_metric(x, tt), (pex, xex, xex), (C.params, C.primals, t))
    LR = _flat(call(lambda prm, x, tt: C.make(*prm).left_sqrt_metric(x, C.make(*prm).right_sqrt_metric(x, tt)), (pex, xex, xex),
                    (C.params, C.primals, t)))
    _all(chk, f"{lab}: metric == left_sqrt_metric applied after right_sqrt_metric", M, LR, dom)
    L = _flat(call(lambda prm, x, ss: C.make(*prm).left_sqrt_metric(x, ss), (pex, xex, sex), (C.params, C.primals, s)))
    lhs = sp.expand(sum(a * b for a, b in zip(sf, _flat(R))))
    rhs = sp.expand(sum(a * b for a, b in zip(L, tf)))
    _all(chk, f"{lab}: <s, right_sqrt_metric t> == <left_sqrt_metric s, t>  (right == left^H)", [lhs], [rhs], dom)
    # (e) transformation
    if C.trafo is not None:
        T = _flat(call(lambda prm, x: C.make(*prm).transformation(x), (pex, xex), (C.params, C.primals)))
        J = sp.Matrix([[sp.diff(Tk, pj) for pj in p] for Tk in T])
        if C.trafo == "exact":
            _all(chk, f"{lab}: left_sqrt_metric(p, s) == (d transformation / dp)^H s", L, list(J.T * sp.Matrix(sf)), dom)
            _all(chk, f"{lab}: J^H J of the transformation == Fisher information", list((J.T * J) * sp.Matrix(tf)), Ft, dom)
        else:
            JJ = (J.T * J) * sp.Matrix(tf)
            _all(chk, f"{lab}: E_data[J^H J] of the transformation == Fisher information (documented local approximation)",
                 [C.expect(e) for e in JJ], Ft, dom)
            LL = _flat(call(lambda prm, x, tt: C.make(*prm).left_sqrt_metric(x, jax.linear_transpose(
                lambda q: C.make(*prm).left_sqrt_metric(x, q), sex)(tt)[0]), (pex, xex, xex), (C.params, C.primals, t)))
            _all(chk, f"{lab}: left_sqrt_metric times its transpose == Fisher information", LL, Ft, dom)
    if C.nres is not None:
        NR = _flat(call(lambda prm, x: C.make(*prm).normalized_residual(x), (pex, xex), (C.params, C.primals)))
        _all(chk, f"{lab}: normalized_residual is the documented one", NR, C.nres, dom)
    chk.note(f"{lab}: jaxpr primitives interpreted: {sorted(used)}")


def _pos(shape, name):
    return symbols(shape, name, positive=True)


def _real(shape, name):
    return symbols(shape, name, real=True)


def sec_gaussian_family(chk):
    import nifty.re as jft
    from nifty.re import likelihood_impl as li
    for c in (li.Gaussian, li.StudentT, li.Poissonian):
        for m in ("energy", "metric", "left_sqrt_metric", "transformation", "normalized_residual"):
            chk.under_contract(getattr(c, m))
    from nifty.re.likelihood import Likelihood
    for m in ("metric", "left_sqrt_metric", "right_sqrt_metric"):
        chk.under_contract(getattr(Likelihood, m), note="base-class defaults through jax.vjp / jax.linear_transpose, traced by JAX")
    chk.assume("A-REAL: jaxpr primitives have their mathematical meaning over the reals")
    chk.assume("A-JAXTRACE: jax.make_jaxpr yields the program that JAX runs for these functions")
    for shape in ((2,), (2, 2)):
        n = int(np.prod(shape))
        d, w, sdev, p = _real(shape, "d"), _pos(shape, "w"), _pos(shape, "u"), _real(shape, "p")
        df, wf, uf, pf = list(d.ravel()), list(w.ravel()), list(sdev.ravel()), list(p.ravel())
        _check(chk, Case(f"Gaussian(d) unit covariance {shape}", lambda d_: jft.Gaussian(d_), (d,), p,
                         sum((a - b) ** 2 for a, b in zip(df, pf)) / 2, sp.eye(n), nres=[a - b for a, b in zip(df, pf)]), "gaussian_family")
        _check(chk, Case(f"Gaussian(d, noise_cov_inv=w) {shape}", lambda d_, w_: jft.Gaussian(d_, noise_cov_inv=w_), (d, w), p,
                         sum(ww * (a - b) ** 2 for ww, a, b in zip(wf, df, pf)) / 2, sp.diag(*wf),
                         nres=[sp.sqrt(ww) * (a - b) for ww, a, b in zip(wf, df, pf)]), "gaussian_family")
        # observation (constructor, outside the property): Gaussian(d, noise_std_inv=<array>) alone raises TypeError on the pinned tree
        # ('Array' object is not callable in _get_cov_inv_and_std_inv); the callable form is used instead
        _check(chk, Case(f"Gaussian(d, noise_std_inv=x -> u*x) {shape}", lambda d_, u_: jft.Gaussian(d_, noise_std_inv=lambda q: u_ * q), (d, sdev), p,
                         sum(uu ** 2 * (a - b) ** 2 for uu, a, b in zip(uf, df, pf)) / 2, sp.diag(*[uu ** 2 for uu in uf]),
                         nres=[uu * (a - b) for uu, a, b in zip(uf, df, pf)]), "gaussian_family")
        th = _pos((), "theta")
        thv = th[()]
        _check(chk, Case(f"StudentT(d, dof, noise_cov_inv=w) {shape}", lambda d_, th_, w_: jft.StudentT(d_, th_, noise_cov_inv=w_), (d, th, w), p,
                         sum((thv + 1) / 2 * sp.log(1 + ww * (a - b) ** 2 / thv) for ww, a, b in zip(wf, df, pf)),
                         sp.diag(*[(thv + 1) / (thv + 3) * ww for ww in wf]),
                         nres=[sp.sqrt((thv + 1) / (thv + 3)) * sp.sqrt(ww) * (a - b) for ww, a, b in zip(wf, df, pf)]), "gaussian_family")
        lam = _pos(shape, "l")
        lf = list(lam.ravel())
        cnt = np.arange(n).reshape(shape) * 2 + 1
        import jax.numpy as jnp
        pois = jft.Poissonian(jnp.asarray(cnt))        # integer data are validated eagerly: constructed outside the trace
        _check(chk, Case(f"Poissonian(counts) {shape}", lambda pois=pois: pois, (), lam,
                         sum(l_ - int(c) * sp.log(l_) for l_, c in zip(lf, cnt.ravel())), sp.diag(*[1 / l_ for l_ in lf]),
                         nres=[(int(c) - l_) / sp.sqrt(l_) for l_, c in zip(lf, cnt.ravel())], params_ex=()), "gaussian_family")
    # dense covariance given as callables: the documented (symmetric) square root S of the inverse covariance, cov_inv = S S
    import jax.numpy as jnp
    Ssym = symbols((3,), "S", real=True)
    d, p = _real((2,), "d"), _real((2,), "p")
    Sm = sp.Matrix([[Ssym[0], Ssym[1]], [Ssym[1], Ssym[2]]])
    r = sp.Matrix([d[i] - p[i] for i in range(2)])

    def mk_dense(d_, s_):
        S_ = jnp.array([[s_[0], s_[1]], [s_[1], s_[2]]])
        return jft.Gaussian(d_, noise_cov_inv=lambda x: S_ @ (S_ @ x), noise_std_inv=lambda x: S_ @ x)
    _check(chk, Case("Gaussian(d, noise_cov_inv=x -> S S x, noise_std_inv=x -> S x) dense symmetric square root", mk_dense, (d, Ssym), p,
                     (r.T * Sm * Sm * r)[0] / 2, Sm * Sm, nres=list(Sm * r)), "gaussian_family")
    # two-leaf pytree data
    d1, d2, p1, p2, w1, w2 = _real((2,), "d"), _real((1,), "e"), _real((2,), "p"), _real((1,), "q"), _pos((2,), "w"), _pos((1,), "v")
    ds, ps, ws = list(d1) + list(d2), list(p1) + list(p2), list(w1) + list(w2)
    _check(chk, Case("Gaussian on a two-leaf dict pytree, noise_cov_inv a pytree",
                     lambda a, b, c, e: jft.Gaussian(jft.Vector({"x": a, "y": b}), noise_cov_inv=jft.Vector({"x": c, "y": e})),
                     (d1, d2, w1, w2), jft.Vector({"x": p1, "y": p2}),
                     sum(ww * (a - b) ** 2 for ww, a, b in zip(ws, ds, ps)) / 2, sp.diag(*ws)), "gaussian_family")


def sec_variable_covariance(chk):
    import nifty.re as jft
    from nifty.re import likelihood_impl as li
    for c in (li.VariableCovarianceGaussian, li.VariableCovarianceStudentT):
        for m in ("energy", "metric", "left_sqrt_metric"):
            chk.under_contract(getattr(c, m))
    chk.lemma("L-FISHER: location-scale Student-t: F_mu = (theta+1)/((theta+3) sigma^2), F_sigma = 2 theta/((theta+3) sigma^2)")
    for shape in ((2,), (2, 2)):
        n = int(np.prod(shape))
        d, m, s = _real(shape, "d"), _real(shape, "m"), _pos(shape, "s")
        df, mf, sf = list(d.ravel()), list(m.ravel()), list(s.ravel())
        z = [sp.Symbol(f"z{i}", real=True) for i in range(n)]

        def expect(e, df=df, mf=mf, sf=sf, z=z):
            # d_i = m_i + z_i / s_i with z standard normal, independent: E z = 0, E z^2 = 1
            e = sp.expand(sp.sympify(e).subs({df[i]: mf[i] + z[i] / sf[i] for i in range(len(df))}))
            poly = sp.Poly(e, *z)
            out = 0
            for mon, co in poly.terms():
                if any(k % 2 for k in mon):
                    continue
                f = 1
                for k in mon:
                    f *= sp.factorial2(k - 1) if k > 0 else 1
                out += co * f
            return sp.simplify(out)
        _check(chk, Case(f"VariableCovarianceGaussian(d) on (mean, std_inv) {shape}", lambda d_: jft.VariableCovarianceGaussian(d_), (d,), (m, s),
                         sum(((a - b) * c) ** 2 / 2 - sp.log(c) for a, b, c in zip(df, mf, sf)),
                         sp.diag(*([c ** 2 for c in sf] + [2 / c ** 2 for c in sf])), trafo="expect", expect=expect,
                         nres=[(a - b) * c for a, b, c in zip(df, mf, sf)]), "variable_covariance")
        th = _pos((), "theta")
        thv = th[()]
        sig = _pos(shape, "g")
        gf = list(sig.ravel())
        _check(chk, Case(f"VariableCovarianceStudentT(d, dof) on (mean, std) {shape}", lambda d_, th_: jft.VariableCovarianceStudentT(d_, th_), (d, th), (m, sig),
                         sum((thv + 1) / 2 * sp.log(1 + ((a - b) / c) ** 2 / thv) + sp.log(c) for a, b, c in zip(df, mf, gf)),
                         sp.diag(*([(thv + 1) / (thv + 3) / c ** 2 for c in gf] + [2 * thv / (thv + 3) / c ** 2 for c in gf])), trafo=None,
                         nres=[(a - b) / c * sp.sqrt((thv + 1) / (thv + 3)) for a, b, c in zip(df, mf, gf)]), "variable_covariance")


def sec_categorical(chk):
    import jax.numpy as jnp
    import nifty.re as jft
    from nifty.re import likelihood_impl as li
    for m in ("energy", "metric", "left_sqrt_metric"):
        chk.under_contract(getattr(li.Categorical, m))
    for shape, data in (((3,), np.array([1])), ((2, 3), np.array([[2], [0]]))):
        x = _real(shape, "x")
        X = x.reshape(-1, shape[-1])
        nlp = 0
        blocks = []
        for b in range(X.shape[0]):
            ex = [sp.exp(v) for v in X[b]]
            Z = sum(ex)
            pr = [e / Z for e in ex]
            nlp += -sp.log(pr[int(data.reshape(-1)[b])])
            blocks.append(sp.Matrix(len(pr), len(pr), lambda i, j: (pr[i] if i == j else 0) - pr[i] * pr[j]))
        F = sp.diag(*blocks)
        _check(chk, Case(f"Categorical(data, axis=-1) logits {shape}", lambda: jft.Categorical(jnp.asarray(data), axis=-1), (), x, nlp, F, trafo=None,
                         params_ex=()), "categorical")


def sec_compositions(chk):
    """amend (forward model), sum of likelihoods, frozen point estimates"""
    import jax
    import jax.numpy as jnp
    import nifty.re as jft
    from nifty.re import likelihood as lk
    for c in (lk.LikelihoodWithModel, lk.LikelihoodSum, lk.LikelihoodPartial):
        chk.under_contract(c)
    d, w = _real((2,), "d"), _pos((2,), "w")
    A = _real((2, 2), "A")
    x = _real((2,), "x")
    xs = list(x)
    Am = sp.Matrix(2, 2, list(A.ravel()))
    fx = [sp.exp(v) for v in Am * sp.Matrix(xs)]
    Jf = sp.Matrix([[sp.diff(f, v) for v in xs] for f in fx])
    W = sp.diag(*list(w))
    nlp = sum(w[i] * (d[i] - fx[i]) ** 2 for i in range(2)) / 2
    _check(chk, Case("Gaussian(d, w).amend(x -> exp(A x))", lambda d_, w_, A_: jft.Gaussian(d_, noise_cov_inv=w_).amend(lambda q: jnp.exp(A_ @ q)),
                     (d, w, A), x, nlp, Jf.T * W * Jf, nres=[sp.sqrt(w[i]) * (d[i] - fx[i]) for i in range(2)]), "compositions")
    lam = [sp.exp(v) for v in Am * sp.Matrix(xs)]
    cnt = np.array([3, 1])
    nlp_p = sum(lam[i] - int(cnt[i]) * sp.log(lam[i]) for i in range(2))
    Fp = Jf.T * sp.diag(*[1 / l_ for l_ in lam]) * Jf
    pois = jft.Poissonian(jnp.asarray(cnt))
    _check(chk, Case("Poissonian(counts).amend(x -> exp(A x))", lambda A_: pois.amend(lambda q: jnp.exp(A_ @ q)), (A,), x,
                     nlp_p, Fp), "compositions")
    # sum of two likelihoods sharing the latent x (dict pytree with two keys, each likelihood reads one model of both)
    y = _real((2,), "y")
    ys = list(y)
    gy = [sp.tanh(v) for v in ys]
    prim = jft.Vector({"x": x, "y": y})
    Jg = sp.diag(*[sp.diff(g, v) for g, v in zip(gy, ys)])
    nlp_s = nlp + sum((d[i] - gy[i] * fx[i]) ** 2 for i in range(2)) / 2
    # second likelihood: unit Gaussian on tanh(y) * exp(A x)
    h = [gy[i] * fx[i] for i in range(2)]
    allv = xs + ys
    Jh = sp.Matrix([[sp.diff(hh, v) for v in allv] for hh in h])
    Jf_full = sp.Matrix([[sp.diff(f, v) for v in allv] for f in fx])
    Fs = Jf_full.T * W * Jf_full + Jh.T * Jh

    def mk_sum(d_, w_, A_):
        l1 = jft.Gaussian(d_, noise_cov_inv=w_).amend(lambda q: jnp.exp(A_ @ q["x"]))
        l2 = jft.Gaussian(d_).amend(lambda q: jnp.tanh(q["y"]) * jnp.exp(A_ @ q["x"]))
        return l1 + l2
    _check(chk, Case("LikelihoodSum of two amended Gaussians on a shared dict pytree", mk_sum, (d, w, A), prim, nlp_s, Fs), "compositions")
    # freeze y as a point estimate: a likelihood of x alone with y inserted
    yv = [sp.Rational(1, 2), sp.Rational(-1, 4)]
    sub = {ys[i]: yv[i] for i in range(2)}

    def mk_frozen(d_, w_, A_):
        full = mk_sum(d_, w_, A_)
        prm = jft.Vector({"x": jnp.ones(2), "y": jnp.asarray([0.5, -0.25])})
        lp, _ = full.freeze(primals=prm, point_estimates=("y",))
        return lp
    Fx = (Fs[:2, :2]).subs(sub)
    _check(chk, Case("freeze(point_estimates=('y',)) of the sum: likelihood of x with y inserted", mk_frozen, (d, w, A), jft.Vector({"x": x}),
                     nlp_s.subs(sub), Fx), "compositions")


def sec_complex_models(chk):
    """forward models with a complex-valued Jacobian (real -> complex and complex -> complex): the square-root factorisation needs the
    *conjugate* transpose of the Jacobian"""
    import jax
    jax.config.update("jax_enable_x64", True)
    import jax.numpy as jnp
    import nifty.re as jft
    from nifty.re import likelihood as lk
    chk.under_contract(lk.LikelihoodWithModel.left_sqrt_metric)
    chk.under_contract(lk.LikelihoodWithModel.right_sqrt_metric)
    chk.under_contract(lk.LikelihoodWithModel.metric)
    chk.under_contract(lk.LikelihoodWithModel.transformation)
    nd, npar = 2, 2

    def csym(shape, name):
        re_, im_ = symbols(shape, name + "r", real=True), symbols(shape, name + "i", real=True)
        out = np.empty(re_.shape, dtype=object)
        for idx in np.ndindex(*re_.shape):
            out[idx] = re_[idx] + sp.I * im_[idx]
        return out, list(re_.ravel()) + list(im_.ravel())

    def rdot(a, b):          # the real inner product of the real-ified spaces
        return sp.re(sp.expand(sum(sp.conjugate(sp.sympify(x)) * sp.sympify(y) for x, y in zip(a, b))))
    C, _ = csym((nd, npar), "C")
    d, _ = csym((nd,), "d")
    w = _pos((nd,), "w")
    Cex = jnp.ones((nd, npar)) * (1. + 0.5j)
    dex = jnp.ones(nd) * (0.3 - 0.2j)
    wex = jnp.ones(nd)
    cases = []
    # real parameters -> complex data
    x = _real((npar,), "x")
    cases.append(("real parameters -> complex data: x -> C exp(x)", lambda q, C_: C_ @ jnp.exp(q), x, jnp.ones(npar) * 0.3, list(x), False))
    # complex parameters -> complex data
    z, zreal = csym((npar,), "z")
    cases.append(("complex parameters -> complex data: z -> C (z * z)", lambda q, C_: C_ @ (q * q), z, jnp.ones(npar) * (0.4 + 0.7j), zreal, True))
    for name, fwd, prim, pex, preal, cplx in cases:
        lab = f"complex_models: Gaussian(complex data, std_inv w).amend({name})"

        def make(d_, w_, C_):
            g = jft.Gaussian(d_, noise_cov_inv=lambda v: w_ ** 2 * v, noise_std_inv=lambda v: w_ * v)
            return g.amend(lambda q: fwd(q, C_), domain=jft.ShapeWithDtype((npar,), jnp.complex128 if cplx else jnp.float64))
        if cplx:
            t, treal = csym((npar,), "t")
            t2, _ = csym((npar,), "u")
        else:
            t, t2 = _real((npar,), "t"), _real((npar,), "u")
            treal = list(t)
        sv, _ = csym((nd,), "s")
        tex, sex = (jnp.ones(npar) * (1. + 1j) if cplx else jnp.ones(npar)), jnp.ones(nd) * (1. + 1j)
        try:
            M = _flat(sym_call(lambda d_, w_, C_, q, tt: make(d_, w_, C_).metric(q, tt), (dex, wex, Cex, pex, tex), (d, w, C, prim, t))[0])
            R = _flat(sym_call(lambda d_, w_, C_, q, tt: make(d_, w_, C_).right_sqrt_metric(q, tt), (dex, wex, Cex, pex, tex), (d, w, C, prim, t))[0])
            L = _flat(sym_call(lambda d_, w_, C_, q, ss: make(d_, w_, C_).left_sqrt_metric(q, ss), (dex, wex, Cex, pex, sex), (d, w, C, prim, sv))[0])
            LR = _flat(sym_call(lambda d_, w_, C_, q, tt: make(d_, w_, C_).left_sqrt_metric(q, make(d_, w_, C_).right_sqrt_metric(q, tt)), (dex, wex, Cex, pex, tex), (d, w, C, prim, t))[0])
            T = _flat(sym_call(lambda d_, w_, C_, q: make(d_, w_, C_).transformation(q), (dex, wex, Cex, pex), (d, w, C, prim))[0])
        except Exception as e:  # noqa: BLE001
            chk.obligation(f"{lab}: the likelihood is built and traced", "undecided", backend="engine", detail=f"{type(e).__name__}: {e}"[:400])
            continue
        tl, sl, t2l = list(t.ravel()), list(sv.ravel()), list(t2.ravel())
        _all(chk, f"{lab}: <s, right_sqrt_metric t> == <left_sqrt_metric s, t> over the real-ified spaces (right == left^H)", [rdot(sl, R)], [rdot(L, tl)])
        _all(chk, f"{lab}: metric == left_sqrt_metric applied after right_sqrt_metric", [sp.expand(m) for m in M], [sp.expand(e) for e in LR])
        # directional derivatives of the transformation and of the forward model along t (real and imaginary parts are independent directions)
        def directional(F, tv):
            out = []
            tre = [sp.re(sp.sympify(v)) for v in tv] + ([sp.im(sp.sympify(v)) for v in tv] if cplx else [])
            for f in F:
                f = sp.sympify(f)
                out.append(sum(sp.diff(f, pr) * tr_ for pr, tr_ in zip(preal, tre)))
            return out
        JTt = directional(T, tl)
        _all(chk, f"{lab}: left_sqrt_metric(p, s) is the pull-back of s through the transformation (<s, dT t> == <L s, t>)", [rdot(sl, JTt)], [rdot(L, tl)])
        # Fisher information of the complex Gaussian: Re (J^H W^2 J)
        prim_j = jnp.asarray(pex)
        Fx = [sum(C[i, j] * (sp.exp(prim[j]) if not cplx else prim[j] * prim[j]) for j in range(npar)) for i in range(nd)]
        JFt, JFu = directional(Fx, tl), directional(Fx, t2l)
        want = rdot([w[i] * JFu[i] for i in range(nd)], [w[i] * JFt[i] for i in range(nd)])
        Mu = _flat(sym_call(lambda d_, w_, C_, q, tt: make(d_, w_, C_).metric(q, tt), (dex, wex, Cex, pex, tex), (d, w, C, prim, t))[0])
        _all(chk, f"{lab}: <u, metric t> == <W J u, W J t> (Fisher information Re J^H W^2 J)", [rdot(t2l, Mu)], [want])


def sec_nd_native(chk):
    """bounded: NDVariableCovarianceGaussian uses sqrtm/logm/solve (outside Engine J): identities at generated points in float64"""
    import jax
    jax.config.update("jax_enable_x64", True)
    import jax.numpy as jnp
    import nifty.re as jft
    rng = np.random.default_rng(7 + chk.seed)
    fails, cases = [], 0
    for cov in (True, False):
        for rep in range(4 if chk.tier == "quick" else 20):
            cases += 1
            dim = 2 + rep % 2
            B = rng.normal(size=(dim, dim))
            mat = B @ B.T + dim * np.eye(dim)
            d, m = rng.normal(size=(dim,)), rng.normal(size=(dim,))
            lh = jft.NDVariableCovarianceGaussian(jnp.asarray(d), covariance=cov)
            prim = (jnp.asarray(m), jnp.asarray(mat))
            tm, tM = rng.normal(size=(dim,)), rng.normal(size=(dim, dim))
            tM = tM + tM.T
            t = (jnp.asarray(tm), jnp.asarray(tM))
            met = lh.metric(prim, t)
            lr = lh.left_sqrt_metric(prim, lh.right_sqrt_metric(prim, t))
            for a, b, what in ((met[0], lr[0], "mean"), (met[1], lr[1], "matrix")):
                if not np.allclose(a, b, rtol=1e-8, atol=1e-10):
                    fails.append(dict(case=f"covariance={cov} dim={dim} #{rep}: metric != L R on the {what} part", detail=f"{np.asarray(a).ravel()[:4]} vs {np.asarray(b).ravel()[:4]}"))
            # Fisher information of the mean block: Sigma^-1
            S = mat if cov else np.linalg.inv(mat)
            if not np.allclose(met[0], np.linalg.solve(S, tm), rtol=1e-8):
                fails.append(dict(case=f"covariance={cov} dim={dim} #{rep}: mean block of the metric != Sigma^-1 t", detail=""))
            # energy gradient in the mean: Sigma^-1 (m - d)
            g = jax.grad(lambda mm: lh((mm, prim[1])))(prim[0])
            if not np.allclose(g, np.linalg.solve(S, m - d), rtol=1e-8):
                fails.append(dict(case=f"covariance={cov} dim={dim} #{rep}: d energy / d mean != Sigma^-1 (m - d)", detail=""))
    chk.bounded("NDVariableCovarianceGaussian: metric == L R, mean block == Sigma^-1, energy gradient in the mean (float64, generated SPD matrices)",
                bound=f"{cases} generated (matrix, data, tangent) cases, dimension 2-3, rtol 1e-8", cases=cases, nontrivial=cases, failures=fails,
                kind="B-runtime")


def _native(which):
    def run(ob):
        import json
        import os
        import subprocess
        import sys
        here = os.path.dirname(os.path.abspath(__file__))
        p = subprocess.run([sys.executable, os.path.join(here, "native", "C12_native.py"), which], capture_output=True, text=True, timeout=600)
        try:
            return json.loads(p.stdout.strip().splitlines()[-1])
        except Exception:  # noqa: BLE001
            return dict(reproduced=False, error=p.stderr[-500:])
    return run


REPLAY = {"Categorical(data, axis=-1) logits (2, 3): metric(p, t) == Fisher": _native("batch"),
          "metric == left_sqrt_metric applied after right_sqrt_metric": _native("lsm_shape")}

SECTIONS = [sec_gaussian_family, sec_variable_covariance, sec_categorical, sec_compositions, sec_complex_models, sec_nd_native]
