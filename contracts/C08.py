"""C08 Domain geometry is self-consistent and domain identity is canonical.

Class invariants (contracts on the real domain classes, evaluated after construction and again after every public query, so
that a query that mutates shared state is caught):
  I-VOL   total_volume == sum of the pixel volumes (dvol array, or scalar_dvol * size);  scalar_dvol is None or every dvol entry
  I-K     harmonic spaces: get_unique_k_lengths() == sorted distinct values of get_k_length_array() (relative 1e-12), unchanged by
          any other call (get_unique_k_lengths / useful_binbounds / PowerSpace construction do not alter the space)
  I-POW   PowerSpace(h, bounds): pindex in [0, nbin), every bin non-empty, dvol[b] == sum of partner pixel volumes in bin b,
          k_lengths[b] == mean of the partner's k-lengths in bin b, bins ordered by k (max k of bin b <= min k of bin b+1),
          explicit bounds respected (bound_(b-1) < k <= bound_b)
  I-ID    DomainTuple.make / MultiDomain.make: equal descriptions -> the identical object; make(x) is x; pickle round trip returns
          the identical object; equal domains have equal hashes; different descriptions -> different, unequal objects
These are run-time contracts over an enumerated catalogue (bounded).  Unbounded part: LMSpace.size and the fill loop of
LMSpace.get_k_length_array are executed on symbolic lmax, mmax (sympy) and shown to count exactly the (l, m) pairs.
"""
import itertools
import pickle

import numpy as np
import sympy as sp

META = dict(
    title="Domain geometry is self-consistent and domain identity is canonical",
    level="other",
    design_ref="DESIGN.md section 4, C08",
    technique="class invariants of the real domain classes (volume, k-length and power-bin consistency, canonical identity under make and "
              "pickling) checked as run-time contracts on an enumerated catalogue, after construction and after every public query "
              "(state frame); LMSpace.size and the index arithmetic of its k-length table discharged symbolically for all lmax >= mmax",
    text="For every domain of the catalogue (regular grids in 1-3 dimensions with even/odd sizes and equal/unequal distances, position and "
         "harmonic; LM spaces lmax <= 4; GL, HP, DOF spaces; power spaces over these harmonic partners with natural, linear, "
         "logarithmic and explicit bin bounds): total volume equals the sum of pixel volumes, scalar volumes agree with per-pixel "
         "volumes, unique k-lengths are the distinct values of the k-length table and stay so after every query, power bins are "
         "non-empty and their volumes and k-lengths are the sums and means over member pixels; equal descriptions give identical "
         "DomainTuple / MultiDomain objects, also after pickling. LMSpace.size counts the (l, m) pairs for all lmax >= mmax >= 0.",
    note="Bounded: the invariants are evaluated on the enumerated catalogue (about 60 domains and 150 power spaces), not proved for all "
         "shapes; the LM identities are symbolic. Assumed: NumPy searchsorted/bincount/unique, pickle.",
    explanation="level 'other': run-time contracts on an enumerated catalogue (bounded) plus two symbolic identities",
)


def _harmonic(ift, tier):
    H = {
        "RG(8) harmonic": ift.RGSpace(8, harmonic=True), "RG(7, d=0.3) harmonic": ift.RGSpace(7, distances=0.3, harmonic=True),
        "RG(4,6) harmonic equal distances": ift.RGSpace((4, 6), distances=0.5, harmonic=True),
        "RG(4,6; d=0.5,0.25) harmonic": ift.RGSpace((4, 6), distances=(0.5, 0.25), harmonic=True),
        "RG(5,3; d=1,2) harmonic": ift.RGSpace((5, 3), distances=(1., 2.), harmonic=True),
        "RG(4,4,3; d=1,0.5,0.25) harmonic": ift.RGSpace((4, 4, 3), distances=(1., 0.5, 0.25), harmonic=True),
        "RG(3,3,3) harmonic": ift.RGSpace((3, 3, 3), harmonic=True),
        "LM(4)": ift.LMSpace(4), "LM(4,2)": ift.LMSpace(4, 2), "LM(0)": ift.LMSpace(0), "LM(3,0)": ift.LMSpace(3, 0),
    }
    if tier == "thorough":
        H.update({"RG(6,5,4; d=0.7,0.2,1.3) harmonic": ift.RGSpace((6, 5, 4), distances=(0.7, 0.2, 1.3), harmonic=True), "LM(7,5)": ift.LMSpace(7, 5),
                  "RG(16,9; d=0.1,0.3) harmonic": ift.RGSpace((16, 9), distances=(0.1, 0.3), harmonic=True)})
    return H


def _position(ift):
    return {"RG(8, d=0.5)": ift.RGSpace(8, distances=0.5), "RG(4,6; d=0.5,0.25)": ift.RGSpace((4, 6), distances=(0.5, 0.25)), "RG(3,3,3)": ift.RGSpace((3, 3, 3)),
            "GL(4)": ift.GLSpace(4), "GL(3,5)": ift.GLSpace(3, 5), "HP(1)": ift.HPSpace(1), "HP(2)": ift.HPSpace(2),
            "DOF([1,2.5,0.5])": ift.DOFSpace(np.array([1., 2.5, 0.5])), "RG default distances (8,4)": ift.RGSpace((8, 4))}


def _inv_volume(name, d, fails):
    n = int(np.prod(d.shape, dtype=int))
    if d.scalar_dvol is not None:
        dv = np.full(n, d.scalar_dvol)
        if not np.isscalar(d.dvol) and not np.allclose(np.asarray(d.dvol).ravel(), d.scalar_dvol, rtol=1e-14):
            fails.append(dict(case=f"{name}: scalar_dvol differs from the per-pixel volumes", detail=""))
    else:
        dv = np.asarray(d.dvol, dtype=float).ravel()
        if dv.size != n:
            fails.append(dict(case=f"{name}: dvol has {dv.size} entries for {n} pixels", detail=""))
            return
        if np.allclose(dv, dv[0], rtol=1e-14) is False and d.scalar_dvol is not None:
            fails.append(dict(case=f"{name}: scalar_dvol given although the pixel volumes differ", detail=""))
    if not np.isclose(d.total_volume, dv.sum(), rtol=1e-12):
        fails.append(dict(case=f"{name}: total_volume {d.total_volume} != sum of pixel volumes {dv.sum()}", detail=""))
    if d.size != n:
        fails.append(dict(case=f"{name}: size {d.size} != product of the shape {n}", detail=""))


def _inv_k(name, h, fails):
    k = np.asarray(h.get_k_length_array().asnumpy(), dtype=float).ravel()
    u = np.asarray(h.get_unique_k_lengths(), dtype=float)
    ref = np.unique(k)
    tol = 1e-12 * max(ref[-1], 1e-300)
    keep = [ref[0]]
    for v in ref[1:]:
        if v - keep[-1] > tol:
            keep.append(v)
    ref = np.array(keep)
    if len(u) != len(ref) or not np.allclose(u, ref, rtol=1e-11, atol=tol):
        fails.append(dict(case=f"{name}: get_unique_k_lengths() is not the sorted distinct values of get_k_length_array()", detail=f"{u[:5]} ... vs {ref[:5]} ... (lengths {len(u)}, {len(ref)})"))
    if np.any(np.diff(u) <= 0):
        fails.append(dict(case=f"{name}: unique k-lengths are not strictly increasing", detail=""))


def _inv_power(name, ps, fails):
    h = ps.harmonic_partner
    k = np.asarray(h.get_k_length_array().asnumpy(), dtype=float).ravel()
    pin = np.asarray(ps.pindex).ravel()
    nb = ps.shape[0]
    if pin.min() < 0 or pin.max() >= nb:
        fails.append(dict(case=f"{name}: pindex outside [0, nbin)", detail=""))
        return
    cnt = np.bincount(pin, minlength=nb)
    if (cnt == 0).any():
        fails.append(dict(case=f"{name}: empty bin", detail=str(cnt)))
        return
    dv = np.asarray(ps.dvol, dtype=float).ravel()
    if not np.allclose(dv, cnt * h.scalar_dvol, rtol=1e-13):
        fails.append(dict(case=f"{name}: bin volumes are not the summed pixel volumes of the members", detail=f"{dv[:4]} vs {(cnt * h.scalar_dvol)[:4]}"))
    kl = np.asarray(ps.k_lengths, dtype=float)
    want = np.array([k[pin == b].mean() for b in range(nb)])
    if not np.allclose(kl, want, rtol=1e-12, atol=1e-14):
        fails.append(dict(case=f"{name}: bin k-lengths are not the means over the members", detail=f"{kl[:4]} vs {want[:4]}"))
    mx = np.array([k[pin == b].max() for b in range(nb)])
    mn = np.array([k[pin == b].min() for b in range(nb)])
    if np.any(mx[:-1] > mn[1:] + 1e-12 * max(mx.max(), 1e-300)):
        fails.append(dict(case=f"{name}: bins are not ordered by k-length", detail=""))
    bb = ps.binbounds
    if bb is not None:
        bb = np.asarray(bb, dtype=float)
        if nb != len(bb) + 1 or len(dv) != nb or len(kl) != nb:
            fails.append(dict(case=f"{name}: {len(bb)} bounds declare {len(bb) + 1} bins, but the space has {nb} bins, {len(dv)} volumes and {len(kl)} k-lengths "
                                   "(an empty bin must be refused, not dropped)", detail=""))
            return
        for b in range(nb):
            lo = -np.inf if b == 0 else bb[b - 1]
            hi = np.inf if b == nb - 1 else bb[b]
            kk = k[pin == b]
            if not (np.all(kk > lo - 1e-15) and np.all(kk <= hi + 1e-15)):
                fails.append(dict(case=f"{name}: a member of bin {b} lies outside its bounds ({lo}, {hi}]", detail=""))
                break
    if not np.isclose(ps.total_volume, dv.sum(), rtol=1e-12):
        fails.append(dict(case=f"{name}: total_volume != sum of bin volumes", detail=""))


def sec_invariants(chk):
    import nifty.cl as ift
    from nifty.cl.domains import power_space, rg_space, lm_space
    chk.under_contract(rg_space.RGSpace.get_unique_k_lengths)
    chk.under_contract(rg_space.RGSpace._get_dist_array)
    chk.under_contract(lm_space.LMSpace.get_k_length_array)
    chk.under_contract(power_space.PowerSpace.__init__)
    chk.under_contract(power_space.PowerSpace.useful_binbounds)
    fails, cases = [], 0
    H = _harmonic(ift, chk.tier)
    for name, d in {**H, **_position(ift)}.items():
        cases += 1
        _inv_volume(name, d, fails)
    for name, h in H.items():
        cases += 1
        _inv_k(name, h, fails)
        before = np.array(h.get_unique_k_lengths(), dtype=float, copy=True)
        binnings = {"natural": None}
        if len(before) >= 3:
            for logarithmic, nbin in ((False, None), (True, None), (False, 3), (True, 3)):
                try:
                    bb = ift.PowerSpace.useful_binbounds(h, logarithmic, nbin)
                except ValueError:
                    continue
                binnings[f"useful_binbounds(logarithmic={logarithmic}, nbin={nbin})"] = bb
                # frame: the query must not change the space
                after = np.asarray(h.get_unique_k_lengths(), dtype=float)
                if len(after) != len(before) or not np.array_equal(after, before):
                    fails.append(dict(case=f"{name}: useful_binbounds(logarithmic={logarithmic}, nbin={nbin}) changed the space's unique k-lengths",
                                      detail=f"before {before[:3]} ... {before[-2:]}, after {after[:3]} ... {after[-2:]}"))
                    before = np.array(after, copy=True)
                again = ift.PowerSpace.useful_binbounds(h, logarithmic, nbin)
                if not np.array_equal(np.asarray(again), np.asarray(bb)):
                    fails.append(dict(case=f"{name}: useful_binbounds(logarithmic={logarithmic}, nbin={nbin}) is not repeatable", detail=f"{bb[:3]} vs {again[:3]}"))
            mid = 0.5 * (before[:-1] + before[1:])
            binnings["explicit(every second natural bound)"] = tuple(mid[::2])
            # bounds that leave a bin empty -- in front, in the middle, at the end: refused, or (if accepted) all invariants hold
            binnings["explicit(trailing bound above the largest k-length)"] = tuple(mid[:2]) + (float(before[-1]) * 1.5,)
            binnings["explicit(trailing bound equal to the largest k-length)"] = tuple(mid[:2]) + (float(before[-1]),)
            binnings["explicit(leading bound below the smallest k-length)"] = (-1.,) + tuple(mid[:2])
            binnings["explicit(two bounds in one gap)"] = (float(mid[0]), float(0.5 * (mid[0] + before[1])), float(mid[1])) if len(mid) > 1 else (float(mid[0]),)
        for bn, bb in binnings.items():
            cases += 1
            try:
                ps = ift.PowerSpace(h, bb)
            except ValueError as e:
                if bn == "natural":
                    fails.append(dict(case=f"{name}: natural binning refused: {e}", detail=""))
                continue
            _inv_power(f"PowerSpace({name}, {bn})", ps, fails)
            _inv_k(f"{name} (after PowerSpace construction with {bn})", h, fails)
            ps2 = pickle.loads(pickle.dumps(ps))
            if not (ps2 == ps and hash(ps2) == hash(ps) and np.array_equal(ps2.pindex, ps.pindex) and np.array_equal(ps2.k_lengths, ps.k_lengths)):
                fails.append(dict(case=f"PowerSpace({name}, {bn}): the pickled copy differs", detail=""))
        hp = pickle.loads(pickle.dumps(h))
        _inv_k(f"{name} (pickled copy)", hp, fails)
        if not (hp == h and hash(hp) == hash(h)):
            fails.append(dict(case=f"{name}: the pickled copy is not equal / hashes differently", detail=""))
    chk.bounded("domain invariants I-VOL, I-K, I-POW (after construction and after every query) on the catalogue", bound=f"{cases} (domain, binning) cases",
                cases=cases, nontrivial=cases, failures=fails, kind="B-runtime")


def sec_identity(chk):
    import nifty.cl as ift
    from nifty.cl import domain_tuple, multi_domain
    chk.under_contract(domain_tuple.DomainTuple.make)
    chk.under_contract(domain_tuple.DomainTuple.__reduce__)
    chk.under_contract(multi_domain.MultiDomain.make)
    chk.under_contract(multi_domain.MultiDomain.__reduce__)
    fails, cases = [], 0
    mk = {
        "RG(4,d=.5)": lambda: ift.RGSpace(4, distances=0.5), "RG(4,d=.25)": lambda: ift.RGSpace(4, distances=0.25), "RG(4) harmonic": lambda: ift.RGSpace(4, harmonic=True),
        "LM(3)": lambda: ift.LMSpace(3), "LM(3,2)": lambda: ift.LMSpace(3, 2), "GL(3)": lambda: ift.GLSpace(3), "HP(1)": lambda: ift.HPSpace(1), "U(3)": lambda: ift.UnstructuredDomain(3),
        "U(3,2)": lambda: ift.UnstructuredDomain((3, 2)), "Power(RG(8)h)": lambda: ift.PowerSpace(ift.RGSpace(8, harmonic=True)),
        "Power(RG(8)h, bounds)": lambda: ift.PowerSpace(ift.RGSpace(8, harmonic=True), (0.5, 2.5)), "DOF": lambda: ift.DOFSpace(np.array([1., 2.])),
    }
    names = list(mk)
    for n1 in names:
        cases += 1
        a, b = mk[n1](), mk[n1]()
        if not (a == b and hash(a) == hash(b)):
            fails.append(dict(case=f"two {n1} built from the same description are unequal or hash differently", detail=""))
        if ift.DomainTuple.make(a) is not ift.DomainTuple.make(b):
            fails.append(dict(case=f"DomainTuple.make of two equal {n1} gives two objects", detail=""))
        t = ift.DomainTuple.make(a)
        if ift.DomainTuple.make(t) is not t or ift.DomainTuple.make((b,)) is not t or ift.DomainTuple.make([b]) is not t:
            fails.append(dict(case=f"DomainTuple.make is not idempotent / depends on the container for {n1}", detail=""))
        if pickle.loads(pickle.dumps(t)) is not t:
            fails.append(dict(case=f"pickle round trip of DomainTuple({n1}) is not the identical object", detail=""))
        for n2 in names:
            if n2 == n1:
                continue
            c = mk[n2]()
            if a == c:
                fails.append(dict(case=f"{n1} == {n2}", detail=""))
            if ift.DomainTuple.make(a) is ift.DomainTuple.make(c) or ift.DomainTuple.make(a) == ift.DomainTuple.make(c):
                fails.append(dict(case=f"DomainTuple({n1}) and DomainTuple({n2}) coincide", detail=""))
            t2, t3 = ift.DomainTuple.make((mk[n1](), mk[n2]())), ift.DomainTuple.make((mk[n1](), mk[n2]()))
            cases += 1
            if t2 is not t3 or pickle.loads(pickle.dumps(t2)) is not t2:
                fails.append(dict(case=f"DomainTuple(({n1}, {n2})) is not canonical (make twice / pickle)", detail=""))
            if ift.DomainTuple.make((mk[n2](), mk[n1]())) is t2:
                fails.append(dict(case=f"DomainTuple(({n1}, {n2})) and the swapped tuple coincide", detail=""))
            if t2.shape != t2[0].shape + t2[1].shape or t2.size != t2[0].size * t2[1].size or t2.axes != (tuple(range(len(t2[0].shape))), tuple(range(len(t2[0].shape), len(t2.shape)))):
                fails.append(dict(case=f"DomainTuple(({n1}, {n2})): shape / size / axes are not the concatenation of the parts", detail=f"{t2.shape}, {t2.axes}"))
    # multi-domains
    for keys in (("a",), ("a", "b"), ("b", "a", "c")):
        cases += 1
        d1 = {k: mk[names[i]]() for i, k in enumerate(keys)}
        d2 = {k: mk[names[i]]() for i, k in reversed(list(enumerate(keys)))}       # same description, other insertion order, fresh domain objects
        m1, m2 = ift.MultiDomain.make(d1), ift.MultiDomain.make(d2)
        if m1 is not m2:
            fails.append(dict(case=f"MultiDomain.make with keys {keys}: equal descriptions give two objects", detail=""))
        if ift.MultiDomain.make(m1) is not m1 or pickle.loads(pickle.dumps(m1)) is not m1:
            fails.append(dict(case=f"MultiDomain with keys {keys}: make(x) is not x or the pickled copy is another object", detail=""))
        d3 = dict(d1)
        d3[keys[0]] = mk[names[-1]]()
        if ift.MultiDomain.make(d3) is m1 or ift.MultiDomain.make(d3) == m1:
            fails.append(dict(case=f"MultiDomain with keys {keys}: a different sub-domain gives the same object", detail=""))
        if any(m1[k] is not ift.DomainTuple.make(d1[k]) for k in keys):
            fails.append(dict(case=f"MultiDomain with keys {keys}: entries are not the canonical DomainTuples", detail=""))
    f = ift.full(ift.DomainTuple.make(mk["RG(4,d=.5)"]()), 1.)
    g = pickle.loads(pickle.dumps(f))
    cases += 1
    if g.domain is not f.domain:
        fails.append(dict(case="a pickled Field does not come back on the identical DomainTuple", detail=""))
    chk.bounded("canonical identity I-ID of DomainTuple / MultiDomain under make and pickling; equality and hashing of domains", bound=f"{cases} descriptions and pairs",
                cases=cases, nontrivial=cases, failures=fails, kind="B-runtime")


def sec_lm_symbolic(chk):
    """LMSpace.size and the index arithmetic of get_k_length_array for symbolic lmax >= mmax >= 0"""
    import inspect
    import nifty.cl as ift
    from nifty.cl.domains.lm_space import LMSpace
    chk.under_contract(LMSpace.size.fget)
    chk.lemma("sum_{k=1}^{n} k == n (n+1) / 2")
    l, m = sp.Symbol("l", integer=True, nonnegative=True), sp.Symbol("m", integer=True, nonnegative=True)
    obj = object.__new__(LMSpace)
    obj._lmax, obj._mmax = l, m
    size = LMSpace.size.fget(obj)
    # number of (l', m') with 0 <= l' <= l and |m'| <= min(l', m):  sum_{l'=0}^{m} (2 l' + 1) + sum_{l'=m+1}^{l} (2 m + 1)
    count = (m + 1) ** 2 + (l - m) * (2 * m + 1)
    chk.obligation("lm_symbolic: LMSpace.size == number of (l, m) pairs with |m| <= min(l, mmax), for all lmax >= mmax >= 0",
                   "discharged" if sp.expand(size - count) == 0 else "refuted", backend="sympy", detail=str(sp.expand(size - count)))
    # the fill loop: idx starts at lmax+1 and advances by 2 (lmax + 1 - m') for m' = 1..mmax; it must end at size (every slot written once)
    src = inspect.getsource(LMSpace.get_k_length_array)
    ok_src = "idx = lmax+1" in src and "idx += 2*(lmax+1-m)" in src and "for m in range(1, mmax+1)" in src
    k = sp.Symbol("k", integer=True, positive=True)
    end = (l + 1) + sp.summation(2 * (l + 1 - k), (k, 1, m))
    st = "discharged" if (ok_src and sp.expand(end - size) == 0) else ("undecided" if not ok_src else "refuted")
    chk.obligation("lm_symbolic: the fill loop of get_k_length_array ends with idx == size (loop start lmax+1, step 2 (lmax+1-m), m = 1..mmax)", st, backend="sympy",
                   detail="" if ok_src else "the loop no longer has the shape the invariant was written for")
    # the block written for m' holds the l values m'..lmax twice: its length 2 (lmax + 1 - m') equals len(tmp[2 m':]) with len(tmp) == 2 lmax + 2
    chk.obligation("lm_symbolic: each block has the length of the slice it is filled from (2 lmax + 2 - 2 m == 2 (lmax + 1 - m))",
                   "discharged" if sp.expand((2 * l + 2 - 2 * k) - 2 * (l + 1 - k)) == 0 else "refuted", backend="sympy")
    # cross-check of the symbolic claims against the real class on small cases (bounded)
    fails = []
    for lm in range(0, 7):
        for mm in range(0, lm + 1):
            s = ift.LMSpace(lm, mm)
            kk = s.get_k_length_array().asnumpy()
            want = sorted([float(ll) for ll in range(lm + 1)] + [float(ll) for mp in range(1, mm + 1) for ll in range(mp, lm + 1) for _ in (0, 1)])
            if s.size != len(want) or sorted(kk.tolist()) != want:
                fails.append(dict(case=f"LMSpace({lm},{mm}): the k-length table is not the multiset of l over all (l, m) pairs", detail=""))
    chk.bounded("LMSpace k-length table against the enumerated (l, m) pairs", bound="lmax <= 6, all mmax", cases=28, nontrivial=28, failures=fails, kind="B-runtime")


SECTIONS = [sec_invariants, sec_identity, sec_lm_symbolic]
