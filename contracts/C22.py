"""C22 Classic VI results do not depend on the number of MPI tasks.

libmpi cannot be loaded in this sandbox; the property is decomposed into per-function contracts that hold for every number of tasks,
plus a bounded relational run of the real distributed code on a contract-checking stand-in communicator (one thread per rank):
  P1 (proof, shared with C26)  shareRange tiles [0, nwork) in rank order with sizes differing by at most one and empty ranges for
      surplus tasks;  _compute_local_indices gives every rank its global index range;  sample averages divide the distributed sum by
      the *global* number of samples
  P2 (proof, C23)  allreduce_sum returns on every rank the single-process pairwise summation tree, whatever the partition
  P3 (bounded, relational)  with the same seed, for ntask = 1..5 (including more tasks than samples) every rank obtains
      bit-identical: the residual of every global sample index (seeds are spawned before the work is partitioned), the sampled KL
      value, gradient and metric application, sample averages, sample_stat mean and variance, and the result of a short classic
      optimize_kl run -- compared with the single-process run
  P4 (bounded)  the stand-in communicator checks the collective contract: every rank takes part in every collective, in the same
      order; every receive names its source; no message is left over.
Assumed (A-MPI): mpi4py's point-to-point and collective semantics are those of the stand-in.
"""
import numpy as np

META = dict(
    title="Classic VI results do not depend on the number of MPI tasks",
    level="other",
    design_ref="DESIGN.md section 4, C22",
    technique="decomposition into per-function contracts for every task count (shareRange tiling and local index ranges re-discharged by "
              "the z3-based engine, partition-independent summation from C23) plus a bounded relational run of the real distributed "
              "code (draw_samples, SampledKLEnergy, sample statistics, optimize_kl) on a contract-checking stand-in communicator with "
              "one thread per rank and per-rank RNG stacks, compared bit-for-bit with the single-process run",
    text="shareRange/_compute_local_indices tile the global sample indices in rank order for every number of tasks (proved); on the "
         "simulated communicator with 1-5 tasks, including more tasks than samples, every rank obtains bit-identical samples per "
         "global index, KL value, gradient, metric application, sample averages and statistics and optimize_kl results as the "
         "single-process run, and the collective protocol is followed (every rank in every collective, named receives, no left-over "
         "messages).",
    note="Real MPI cannot run here (libmpi missing): bit-identity is shown on a stand-in communicator (A-MPI) for the enumerated task "
         "counts and two models, not for real inter-process transport. The proof obligations (P1) are unbounded in ntask and nwork.",
    explanation="level 'other': proof obligations for the index arithmetic, bounded relational runs on a simulated communicator",
)


def sec_share_range(chk):
    """P1: re-discharge the index-arithmetic obligations of C26 (same real functions)"""
    from contracts import C26
    C26.sec_share_range(chk)
    C26.sec_local_indices(chk)


def sec_average(chk):
    from contracts import C26
    C26.sec_average(chk)


IC_LEVEL = [1]          # convergence level of the shared sampling controller (a counter that must be reset by start())


def _model(ift, mf):
    dom = ift.RGSpace(8, distances=0.5)
    sm = ift.HarmonicSmoothingOperator(dom, 1.2)
    if mf:
        op = ift.FieldAdapter(dom, "a").exp() * (sm.ducktape("b"))
    else:
        op = sm.exp()
    d = np.linspace(-1., 2., 8)
    lh = ift.GaussianEnergy(data=ift.makeField(dom, d), inverse_covariance=ift.ScalingOperator(ift.DomainTuple.make(dom), 4., float)) @ op
    # one controller object is shared by all samples drawn on a task: with convergence_level >= 2 it carries a counter from run to run,
    # so a sample's iteration count would depend on which samples were drawn before it on the same task if start() did not reset it
    ic = ift.AbsDeltaEnergyController(1e-8 if IC_LEVEL[0] == 1 else 1e-2, iteration_limit=30, convergence_level=IC_LEVEL[0])
    return ift.StandardHamiltonian(lh, ic_samp=ic, prior_sampling_dtype=float), lh


def _bits(x):
    """canonical byte representation of a Field / MultiField / scalar / ndarray"""
    import nifty.cl as ift
    if isinstance(x, ift.MultiField):
        return tuple((k, _bits(x[k])) for k in sorted(x.keys()))
    if hasattr(x, "asnumpy"):
        x = x.asnumpy()
    return np.ascontiguousarray(np.asarray(x, dtype=np.float64)).tobytes()


def _kl_observables(ift, comm, mf, n_samples, mirror):
    import nifty.cl.minimization.kl_energies as kle
    H, lh = _model(ift, mf)
    ift.random.push_sseq_from_seed(1234)
    try:
        pos = 0.1 * ift.from_random(H.domain)
        # convergence level >= 2: geoVI sampling with one shared minimiser object whose controller counts consecutive small steps
        sampler = None if IC_LEVEL[0] == 1 else ift.NewtonCG(ift.AbsDeltaEnergyController(0.5, convergence_level=IC_LEVEL[0], iteration_limit=6))
        kl = kle.SampledKLEnergy(pos, H, n_samples, sampler, mirror_samples=mirror, comm=comm, nanisinf=True)
        t = ift.from_random(kl.position.domain)
        sl = kl.samples
        out = dict(value=_bits(kl.value), gradient=_bits(kl.gradient), metric=_bits(kl.apply_metric(t)), n_samples=sl.n_samples,
                   average=_bits(sl.average()), average_op=_bits(sl.average(lambda x: (x * x)))
                   )
        m, v = sl.sample_stat()
        out["stat_mean"], out["stat_var"] = _bits(m), _bits(v)
        # every global sample, gathered in index order
        loc = [(int(i), _bits(s)) for i, s in zip(sl.local_indices, sl.local_iterator())]
        allp = [loc] if comm is None else comm.allgather(loc)
        flat = sorted([p for part in allp for p in part], key=lambda q: q[0])
        out["samples"] = tuple(flat)
        out["local"] = [i for i, _ in loc]
    finally:
        ift.random.pop_sseq()
    return out


def sec_relational(chk):
    import nifty.cl as ift
    import nifty.cl.minimization.kl_energies as kle
    from nifty.cl import utilities
    from vf.fakempi import per_rank_rng, run_ranks
    chk.under_contract(kle.draw_samples)
    chk.under_contract(kle.SampledKLEnergy)
    chk.under_contract(utilities.allreduce_sum)
    chk.under_contract(utilities.shareRange)
    chk.assume("A-MPI: mpi4py's collectives and point-to-point messages behave like the stand-in communicator (threads, FIFO per pair)")
    fails, cases = [], 0
    configs = [(False, 2, True), (True, 3, True), (True, 3, False)] if chk.tier == "quick" else [(mf, n, mi) for mf in (False, True) for n in (1, 2, 3, 5) for mi in (True, False)]
    configs = [(mf, n, mi, 1) for mf, n, mi in configs] + [(True, 3, False, 2), (False, 3, True, 3)]
    for mf, n_samples, mirror, level in configs:
        IC_LEVEL[0] = level
        ref = _kl_observables(ift, None, mf, n_samples, mirror)
        ntot = ref["n_samples"]
        for ntask in ([2, 3, 5] if chk.tier == "quick" else [2, 3, 4, 5, 7]):
            cases += 1
            lab = f"{'multi-field' if mf else 'single-field'} model, n_samples={n_samples}, mirror={mirror}, controller convergence level {level}, ntask={ntask} ({ntot} samples)"
            with per_rank_rng():
                res, errs, w = run_ranks(ntask, lambda comm, rank: _kl_observables(ift, comm, mf, n_samples, mirror))
            if any(errs):
                e = [x for x in errs if x][0]
                fails.append(dict(case=f"{lab}: a rank failed: {type(e).__name__}: {str(e)[:200]}", detail=""))
                continue
            if w.violations:
                fails.append(dict(case=f"{lab}: collective protocol violated: {w.violations[0]}", detail=""))
            left = sum(q.qsize() for q in w.q.values())
            if left:
                fails.append(dict(case=f"{lab}: {left} point-to-point messages were never received", detail=""))
            got_idx = sorted(i for r in res for i in r["local"])
            if got_idx != list(range(ntot)):
                fails.append(dict(case=f"{lab}: the local index ranges do not tile the global samples", detail=str([r['local'] for r in res])))
            for key in ("value", "gradient", "metric", "average", "average_op", "stat_mean", "stat_var", "samples", "n_samples"):
                for r, out in enumerate(res):
                    if out[key] != ref[key]:
                        fails.append(dict(case=f"{lab}: '{key}' on rank {r} differs from the single-process result", detail=""))
                        break
    IC_LEVEL[0] = 1
    chk.bounded("sampled KL energy, samples and statistics on a simulated communicator against the single-process run (bit-identical)",
                bound=f"{cases} (model, n_samples, mirror, ntask) configurations, ntask up to {5 if chk.tier == 'quick' else 7} incl. more tasks than samples", cases=cases,
                nontrivial=cases, failures=fails, kind="B-runtime")


def sec_optimize_kl(chk):
    """a short classic optimize_kl run (no output directory) on the simulated communicator"""
    import nifty.cl as ift
    from nifty.cl.minimization import optimize_kl as okl_mod
    from vf.fakempi import per_rank_rng, run_ranks
    import importlib
    okl = importlib.import_module("nifty.cl.minimization.optimize_kl")
    chk.under_contract(okl.optimize_kl)
    fails, cases = [], 0

    def run(comm, mf, n_samples):
        H, lh = _model(ift, mf)
        ift.random.push_sseq_from_seed(77)
        try:
            ic_min = ift.NewtonCG(ift.AbsDeltaEnergyController(1e-6, iteration_limit=3))
            sl = okl.optimize_kl(lh, 2, n_samples, ic_min, H.iteration_controller, comm=comm, output_directory=None, plot_energy_history=False,
                                 plot_minisanity_history=False, sanity_checks=False)
            mean = sl.average() if hasattr(sl, "average") else sl
            loc = [(int(i), _bits(s)) for i, s in zip(sl.local_indices, sl.local_iterator())]
            allp = [loc] if comm is None else comm.allgather(loc)
            return dict(mean=_bits(mean), samples=tuple(sorted([p for part in allp for p in part], key=lambda q: q[0])))
        finally:
            ift.random.pop_sseq()
    # optimize_kl needs a multi-domain likelihood
    for mf, n_samples in ((True, 2), (True, 3)) if chk.tier == "quick" else ((True, 1), (True, 2), (True, 3), (True, 0)):
        ref = run(None, mf, n_samples)
        for ntask in (2, 3, 5):
            cases += 1
            lab = f"optimize_kl: {'multi' if mf else 'single'}-field model, n_samples={n_samples}, ntask={ntask}"
            with per_rank_rng():
                res, errs, w = run_ranks(ntask, lambda comm, rank: run(comm, mf, n_samples))
            if any(errs):
                e = [x for x in errs if x][0]
                fails.append(dict(case=f"{lab}: a rank failed: {type(e).__name__}: {str(e)[:200]}", detail=""))
                continue
            if w.violations:
                fails.append(dict(case=f"{lab}: collective protocol violated: {w.violations[0]}", detail=""))
            for key in ("mean", "samples"):
                if any(out[key] != ref[key] for out in res):
                    fails.append(dict(case=f"{lab}: '{key}' differs from the single-process result on some rank", detail=""))
    chk.bounded("classic optimize_kl (2 iterations) on a simulated communicator against the single-process run (bit-identical)",
                bound=f"{cases} (model, n_samples, ntask) configurations", cases=cases, nontrivial=cases, failures=fails, kind="B-runtime")


SECTIONS = [sec_share_range, sec_average, sec_relational, sec_optimize_kl]
