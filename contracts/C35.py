"""C35 Response operators compute their documented quantity.

  MaskOperator          times == the unflagged pixels in array order; adjoint scatters them back into zeros         (Engine O, symbolic)
  FieldZeroPadder       times == the input placed into zeros (end padding / central padding as documented)           (Engine O, symbolic)
  RegriddingOperator    times[j] == (1 - w_j) x[b_j] + w_j x[b_j + 1] per axis with position j * n_old / n_new in units of old pixels,
                        b_j = min(n_old - 2, floor(position)), w_j = position - b_j: linear interpolation onto the coarser grid; it
                        reproduces every (multi-)linear function exactly                                             (Engine O, symbolic)
  LinearInterpolator    every row has at most 2^ndim non-negative weights that sum to 1 (periodic wrap); inside the grid the
                        interpolation reproduces every multilinear function exactly                                  (native, bounded)
  LOSResponse           == the exact line integral of the piecewise-constant field (pixel i centred on i * distance): sum over the
                        cells crossed of value * length of the crossing, computed here from the cell boundaries      (native, bounded)
  Nufft                 times == Re sum_k x_k exp(+i g . phi_k) on the centred integer grid g, adjoint == sum_g y_g exp(-i g . phi_k),
                        phi = 2 pi * position * distance, within the requested accuracy                               (native, bounded)
  nifty.re sampling_los == (length / n) sum over the n mid-points of the linearly interpolated field; exact for linear fields (native)
"""
import itertools

import numpy as np
import sympy as sp

from vf import objx
from vf.objx import SX, exprs

META = dict(
    title="Response operators compute their documented quantity",
    level="other",
    design_ref="DESIGN.md section 4, C35",
    technique="contracts 'action == documented quantity' written as independent formulas: mask, zero-padding and regridding on fields of "
              "sympy symbols (Engine O, all values); line-of-sight integrals against an exact cell-crossing integral, non-uniform Fourier "
              "operators against the explicit Fourier sums, multilinear interpolation against multilinear functions, the JAX sampling "
              "line integral against its defining sum -- natively on generated configurations (bounded)",
    text="Masks select exactly the unflagged pixels and scatter them back; zero-padding places the input into zeros as documented; "
         "regridding is the documented linear interpolation onto the coarser grid and reproduces linear functions; the sparse "
         "interpolator has non-negative weights summing to one and is exact for multilinear functions inside the grid; line-of-sight "
         "responses equal the exact line integrals on 1-3-dimensional grids including non-cubic ones; NUFFT operators equal the explicit "
         "Fourier sums within their accuracy; the JAX sampling line-of-sight equals its defining mid-point sum and is exact for linear fields.",
    note="Symbolic parts: universal in field values, enumerated constructions. Native parts are bounded stand-ins (generated grids, lines and "
         "points; tolerances 1e-10, NUFFT 1e-7 relative to the requested eps 1e-9, documented per case). Gridder's visibility convention "
         "is not specified in its docstring: only its adjointness is checked (C02).",
    explanation="level 'other': symbolic identities for index-moving operators, native bounded stand-ins for substrate operators",
)


def sec_mask_padder(chk):
    import nifty.cl as ift
    from contracts.C02 import check
    from nifty.cl.operators import field_zero_padder, mask_operator
    chk.under_contract(mask_operator.MaskOperator.apply)
    chk.under_contract(field_zero_padder.FieldZeroPadder.apply)
    un, r1, rg = ift.UnstructuredDomain(2), ift.RGSpace(4, distances=0.25), ift.RGSpace((2, 3), distances=(0.5, 2.))
    with objx.patched(), objx.patched_bincount():
        for name, dom, flags in (("(2,)x(4,) mixed", (un, r1), [[0, 1, 0, 0], [1, 0, 0, 1]]), ("(2,3) one flagged", (rg,), [[0, 0, 0], [0, 1, 0]]),
                                 ("(4,) nothing flagged", (r1,), [0, 0, 0, 0]), ("(4,) all but one flagged", (r1,), [1, 1, 0, 1]), ("(2,3) non-0/1 flag values", (rg,), [[0, 2, 0], [-1, 0, 0]])):
            fl = np.array(flags)
            op = ift.MaskOperator(ift.makeField(ift.DomainTuple.make(dom), fl))
            keep = [i for i, v in enumerate(fl.ravel()) if not v]
            check(chk, f"MaskOperator {name}", op, ift, lambda xs, keep=keep: [xs[i] for i in keep], group="mask_padder")
            ok = op.target.shape == (len(keep),)
            chk.obligation(f"mask_padder: MaskOperator {name}: the target has one entry per unflagged pixel", "discharged" if ok else "refuted", backend="identity")
        for doms, space, new_shape in (((r1,), 0, (6,)), ((rg,), 0, (3, 5)), ((un, r1), 1, (5,)), ((r1, un), 0, (4,))):
            dt = ift.DomainTuple.make(doms)
            op = ift.FieldZeroPadder(dt, new_shape, space)

            def spec(xs, dt=dt, op=op):
                out = np.zeros(op.target.shape, dtype=object)
                out[tuple(slice(0, n) for n in dt.shape)] = np.array(xs, dtype=object).reshape(dt.shape)
                return list(out.ravel())
            check(chk, f"FieldZeroPadder({[str(d.shape) for d in doms]} -> {new_shape}, space={space}) pads with zeros at the end", op, ift, spec, group="mask_padder")
            ok = op.target[space].distances == dt[space].distances
            chk.obligation(f"mask_padder: FieldZeroPadder({[str(d.shape) for d in doms]} -> {new_shape}): the pixel distances are kept", "discharged" if ok else "refuted", backend="identity")


def sec_regridding(chk):
    import nifty.cl as ift
    from contracts.C02 import check
    from nifty.cl.operators import regridding_operator
    chk.under_contract(regridding_operator.RegriddingOperator.__init__)
    chk.under_contract(regridding_operator.RegriddingOperator.apply)
    un = ift.UnstructuredDomain(2)
    with objx.patched(), objx.patched_bincount():
        for doms, new_shape, space in (((ift.RGSpace(6, distances=0.5),), (4,), 0), ((ift.RGSpace(5, distances=0.25),), (5,), 0), ((ift.RGSpace((4, 6), distances=(0.5, 2.)),), (3, 4), 0),
                                       ((un, ift.RGSpace(8, distances=0.3)), (3,), 1), ((ift.RGSpace(7),), (2,), 0)):
            dt = ift.DomainTuple.make(doms)
            op = ift.RegriddingOperator(dt, new_shape, space)
            g = dt[space]
            ax = dt.axes[space]

            def weights(n_old, n_new):
                out = []
                for j in range(n_new):
                    pos = sp.Rational(j * n_old, n_new)
                    b = min(n_old - 2, int(sp.floor(pos)))
                    out.append((b, pos - b))
                return out

            def spec(xs, dt=dt, ax=ax, g=g, new_shape=new_shape):
                A = np.array(xs, dtype=object).reshape(dt.shape)
                for k, a in enumerate(ax):
                    wl = weights(g.shape[k], new_shape[k])
                    A = np.moveaxis(A, a, 0)
                    A = np.array([(1 - w) * A[b] + w * A[b + 1] for b, w in wl], dtype=object)
                    A = np.moveaxis(A, 0, a)
                return list(A.ravel())
            lab = f"RegriddingOperator({[str(d.shape) for d in doms]} -> {new_shape}, space={space})"
            ys = check(chk, lab + " == linear interpolation onto the coarser grid", op, ift, spec, group="regridding")
            nd = tuple(g.distances[k] * g.shape[k] / new_shape[k] for k in range(len(new_shape)))
            ok = np.allclose(op.target[space].distances, nd, rtol=1e-14) and np.isclose(op.target[space].total_volume, g.total_volume, rtol=1e-13)
            chk.obligation(f"regridding: {lab}: the new distances keep the total extent", "discharged" if ok else "refuted", backend="native")
            # a linear function of the pixel index is reproduced at the new grid positions
            if len(dt) == 1:
                a0 = sp.Symbol("a0", real=True)
                co = [sp.Symbol(f"c{k}", real=True) for k in range(len(g.shape))]
                arr = np.empty(g.shape, dtype=object)
                for idx in np.ndindex(*g.shape):
                    arr[idx] = SX(a0 + sum(co[k] * idx[k] for k in range(len(idx))))
                got = exprs(op(ift.Field(dt, arr)).asnumpy())
                want = [a0 + sum(co[k] * sp.Rational(j[k] * g.shape[k], new_shape[k]) for k in range(len(j))) for j in np.ndindex(*new_shape)]
                inside = [all(sp.Rational(j[k] * g.shape[k], new_shape[k]) <= g.shape[k] - 1 for k in range(len(j))) for j in np.ndindex(*new_shape)]
                ok = all(sp.expand(a - b) == 0 for a, b, i in zip(got, want, inside) if i)
                chk.obligation(f"regridding: {lab}: a linear function of the position is reproduced exactly at the new grid points", "discharged" if ok else "refuted", backend="sympy")


def sec_interpolation(chk):
    import nifty.cl as ift
    rng = np.random.default_rng(35 + chk.seed)
    fails, cases = [], 0
    for shape, dist in (((7,), (0.3,)), ((5, 6), (0.5, 0.25)), ((4, 3, 5), (1., 0.5, 2.)), ((8, 8), (1., 1.))):
        dom = ift.RGSpace(shape, distances=dist)
        nd = len(shape)
        ext = np.array(shape) * np.array(dist)
        for rep in range(3 if chk.tier == "quick" else 12):
            cases += 1
            npts = 9
            inside = rng.uniform(0., 1., size=(nd, npts)) * ((np.array(shape) - 1) * np.array(dist))[:, None]
            outside = inside + rng.integers(-2, 3, size=(nd, npts)) * ext[:, None]           # the same points on other sheets of the torus
            op = ift.LinearInterpolator(dom, inside)
            M = op._mat.toarray()
            if M.min() < -1e-15 or not np.allclose(M.sum(axis=1), 1., rtol=1e-13) or (np.abs(M) > 1e-15).sum(axis=1).max() > 2 ** nd:
                fails.append(dict(case=f"LinearInterpolator{shape}: a row has negative weights, does not sum to one or has more than 2^ndim entries", detail=""))
            # a random multilinear function of the position
            coef = {S: rng.normal() for r in range(nd + 1) for S in itertools.combinations(range(nd), r)}

            def f(pos):
                return sum(c * np.prod([pos[k] for k in S], axis=0) if S else c * np.ones(np.shape(pos[0])) for S, c in coef.items())
            grid = np.meshgrid(*[np.arange(n) * d for n, d in zip(shape, dist)], indexing="ij")
            fld = ift.makeField(dom, f(grid))
            got = op(fld).asnumpy()
            want = f(list(inside))
            if not np.allclose(got, want, rtol=1e-11, atol=1e-12):
                fails.append(dict(case=f"LinearInterpolator{shape}: a multilinear function is not reproduced inside the grid", detail=f"max deviation {np.max(np.abs(got - want)):.2e}"))
            got2 = ift.LinearInterpolator(dom, outside)(fld).asnumpy()
            if not np.allclose(got2, got, rtol=1e-9, atol=1e-10):
                fails.append(dict(case=f"LinearInterpolator{shape}: positions outside the grid are not wrapped periodically", detail=""))
    chk.bounded("LinearInterpolator: weights and exactness for multilinear functions on generated grids and points", bound=f"{cases} (grid, point set) cases, 1e-11",
                cases=cases, nontrivial=cases, failures=fails, kind="B-runtime")


def _exact_los(arr, dist, start, end):
    """exact integral of the piecewise-constant field (pixel i centred on i*d, cell [(i-1/2)d, (i+1/2)d)) along the segment"""
    return float(np.sum(_exact_weights(arr.shape, dist, start, end) * arr))


def _exact_weights(shape, dist, start, end):
    """length of the segment's crossing of every cell"""
    d = np.asarray(dist, dtype=float)
    v = end - start
    ts = [0., 1.]
    for k in range(len(shape)):
        if v[k] != 0.:
            lo, hi = sorted((start[k], end[k]))
            i0, i1 = int(np.floor(lo / d[k] - 0.5)) - 1, int(np.ceil(hi / d[k] + 0.5)) + 1
            for i in range(i0, i1 + 1):
                t = ((i + 0.5) * d[k] - start[k]) / v[k]
                if 0. < t < 1.:
                    ts.append(t)
    ts = np.unique(ts)
    L = np.linalg.norm(v)
    out = np.zeros(shape)
    for a, b in zip(ts[:-1], ts[1:]):
        mid = start + 0.5 * (a + b) * v
        idx = tuple(int(np.floor(mid[k] / d[k] + 0.5)) for k in range(len(shape)))
        if all(0 <= idx[k] < shape[k] for k in range(len(shape))):
            out[idx] += (b - a) * L
    return out


def sec_los(chk):
    import nifty.cl as ift
    rng = np.random.default_rng(350 + chk.seed)
    fails, cases = [], 0
    grids = [((16,), (0.3,)), ((9, 14), (0.5, 0.2)), ((6, 6, 6), (0.4, 0.4, 0.4)), ((4, 5, 7), (0.3, 0.2, 0.5)), ((8, 3, 5), (1., 1., 1.)), ((5, 7, 4), (0.5, 0.25, 1.))]
    for shape, dist in grids:
        dom = ift.RGSpace(shape, distances=dist)
        ext = np.array(shape) * np.array(dist)
        off = 0.5 * np.array(dist)
        for rep in range(2 if chk.tier == "quick" else 8):
            cases += 1
            nlos = 6
            starts = rng.uniform(0.05, 0.95, size=(len(shape), nlos)) * ext[:, None] - off[:, None]
            ends = rng.uniform(0.05, 0.95, size=(len(shape), nlos)) * ext[:, None] - off[:, None]
            arr = rng.standard_normal(shape)
            try:
                got = ift.LOSResponse(dom, starts, ends)(ift.makeField(dom, arr)).asnumpy()
            except Exception as e:  # noqa: BLE001
                fails.append(dict(case=f"LOSResponse on {shape}: {type(e).__name__}: {str(e)[:120]}", detail=""))
                continue
            want = np.array([_exact_los(arr, dist, starts[:, i], ends[:, i]) for i in range(nlos)])
            # the implementation moves both ends inwards by 1e-7 of the line ("move away from potential grid crossings"): allowed deviation 4e-7 |line| max|x|
            tol = 4e-7 * np.linalg.norm(ends - starts, axis=0) * np.abs(arr).max() + 1e-12
            if np.any(np.abs(got - want) > tol):
                i = int(np.argmax(np.abs(got - want) / tol))
                fails.append(dict(case=f"LOSResponse on grid {shape}, distances {dist}: line {i} gives {got[i]!r}, the exact line integral is {want[i]!r}",
                                  detail=f"start {starts[:, i].tolist()} end {ends[:, i].tolist()}"))
            # by linearity the response is its weight matrix: every entry (line, pixel) is the length of the line's crossing of the pixel
            op = ift.LOSResponse(dom, starts, ends)
            for i in range(nlos):
                e = np.zeros(nlos)
                e[i] = 1.
                row = op.adjoint_times(ift.makeField(op.target, e)).asnumpy()
                wex = _exact_weights(shape, dist, starts[:, i], ends[:, i])
                L = np.linalg.norm(ends[:, i] - starts[:, i])
                if np.any(np.abs(row - wex) > 4e-7 * L + 1e-12):
                    j = np.unravel_index(int(np.argmax(np.abs(row - wex))), shape)
                    fails.append(dict(case=f"LOSResponse on grid {shape}, distances {dist}: weight of pixel {tuple(int(q) for q in j)} on line {i} is {row[j]!r}, the crossing length is {wex[j]!r}",
                                      detail=f"start {starts[:, i].tolist()} end {ends[:, i].tolist()}"))
                    break
            const = op(ift.full(dom, 1.)).asnumpy()
            if not np.allclose(const, np.linalg.norm(ends - starts, axis=0), rtol=4e-7):
                fails.append(dict(case=f"LOSResponse on {shape}: the integral of the constant field 1 is not the length of the line", detail=""))
    chk.bounded("LOSResponse against the exact line integral of the piecewise-constant field (cell crossings)", bound=f"{cases} (grid, 6 lines) cases on 1-3-D grids incl. non-cubic, 4e-7 relative to |line| max|x| (the code's end-point offset)",
                cases=cases, nontrivial=cases, failures=fails, kind="B-runtime")


def sec_nufft(chk):
    import nifty.cl as ift
    rng = np.random.default_rng(3500 + chk.seed)
    fails, cases = [], 0
    for shape, dist in (((8,), (0.5,)), ((6, 5), (0.5, 0.25)), ((4, 4, 3), (1., 0.5, 2.))):
        dom = ift.RGSpace(shape, distances=dist)
        for rep in range(2 if chk.tier == "quick" else 6):
            cases += 1
            npts = 7
            pos = rng.uniform(-2., 2., size=(npts, len(shape)))
            try:
                op = ift.Nufft(dom, pos, 1e-9)
            except Exception as e:  # noqa: BLE001
                fails.append(dict(case=f"Nufft{shape}: construction failed: {type(e).__name__}: {e}"[:200], detail=""))
                continue
            phi = (2 * np.pi * pos * np.array(dist)) % (2 * np.pi)
            grids = np.meshgrid(*[np.arange(n) - n // 2 for n in shape], indexing="ij")
            G = np.stack([g.ravel() for g in grids], axis=1)                      # centred integer grid
            E = np.exp(1j * G @ phi.T)                                            # (npix, npts)
            x = rng.normal(size=npts) + 1j * rng.normal(size=npts)
            got = op(ift.makeField(op.domain, x)).asnumpy().ravel()
            want = (E @ x).real
            if not np.allclose(got, want, rtol=1e-7, atol=1e-7 * np.abs(want).max()):
                fails.append(dict(case=f"Nufft{shape}: times differs from Re sum_k x_k exp(+i g.phi_k) on the centred grid", detail=f"max deviation {np.max(np.abs(got - want)):.2e}"))
            y = rng.normal(size=shape)
            got = op.adjoint_times(ift.makeField(dom, y)).asnumpy()
            want = np.conj(E).T @ y.ravel()
            if not np.allclose(got, want, rtol=1e-7, atol=1e-7 * np.abs(want).max()):
                fails.append(dict(case=f"Nufft{shape}: adjoint_times differs from sum_g y_g exp(-i g.phi_k)", detail=f"max deviation {np.max(np.abs(got - want)):.2e}"))
    chk.bounded("Nufft against the explicit non-uniform Fourier sums", bound=f"{cases} (grid, 7 points) cases, eps 1e-9, compared at 1e-7", cases=cases, nontrivial=cases,
                failures=fails, kind="B-runtime")


def sec_sampling_los_re(chk):
    import jax
    jax.config.update("jax_enable_x64", True)
    import jax.numpy as jnp
    from nifty.re.extra import sampling_los as sl
    rng = np.random.default_rng(35000 + chk.seed)
    fails, cases = [], 0
    for shape, dist in (((9,), (0.5,)), ((6, 7), (0.5, 0.25)), ((4, 5, 6), (1., 0.5, 2.))):
        shp, dst = np.array(shape, dtype=float), np.array(dist)
        for rep in range(3 if chk.tier == "quick" else 10):
            cases += 1
            nd = len(shape)
            ext = shp * dst
            start, end = rng.uniform(0.1, 0.9, size=nd) * ext, rng.uniform(0.1, 0.9, size=nd) * ext
            n = 17
            x = rng.normal(size=shape)
            got = float(sl._los(jnp.asarray(x), jnp.asarray(start), jnp.asarray(end), distances=jnp.asarray(dst), shape=jnp.asarray(shp), n_sampling_points=n))
            # the defining sum, with an independent multilinear interpolation in index coordinates r * (n-1) / (n d)
            l2i = ((shp - 1) / shp) / dst
            tot = 0.
            for m in range(n):
                p = (start + (end - start) * (m + 0.5) / n) * l2i
                lo = np.floor(p).astype(int)
                lo = np.minimum(lo, np.array(shape) - 2)
                fr = p - lo
                v = 0.
                for corner in itertools.product((0, 1), repeat=nd):
                    wgt = np.prod([fr[k] if c else 1 - fr[k] for k, c in enumerate(corner)])
                    v += wgt * x[tuple(lo + np.array(corner))]
                tot += v
            want = tot * np.linalg.norm(end - start) / n
            if not np.isclose(got, want, rtol=1e-10):
                fails.append(dict(case=f"sampling_los._los on {shape}: {got!r} differs from the defining mid-point sum {want!r}", detail=""))
            # a field that is linear in the location is integrated exactly
            a, b = rng.normal(), rng.normal(size=nd)
            loc = np.meshgrid(*[np.arange(s) * (s * d) / (s - 1) for s, d in zip(shape, dist)], indexing="ij")
            lin = a + sum(b[k] * loc[k] for k in range(nd))
            got = float(sl._los(jnp.asarray(lin), jnp.asarray(start), jnp.asarray(end), distances=jnp.asarray(dst), shape=jnp.asarray(shp), n_sampling_points=n))
            want = np.linalg.norm(end - start) * (a + b @ (0.5 * (start + end)))
            if not np.isclose(got, want, rtol=1e-10):
                fails.append(dict(case=f"sampling_los._los on {shape}: a field linear in the location is not integrated exactly ({got!r} vs {want!r})", detail=""))
    chk.bounded("nifty.re sampling line-of-sight against its defining mid-point sum and exact integrals of linear fields", bound=f"{cases} (grid, segment) cases, 1e-10",
                cases=cases, nontrivial=cases, failures=fails, kind="B-runtime")


SECTIONS = [sec_mask_padder, sec_regridding, sec_interpolation, sec_los, sec_nufft, sec_sampling_los_re]
