"""C16 Classic descent minimisers are monotone and their line search is sound.

  descent      DescentMinimizer.__call__ (re-compiled, loop cut): invariant energy.value <= value at entry; an energy with
               a larger value is never adopted; status is CONVERGED, ERROR or the controller's verdict.
  line_search  LineSearch.perform_line_search and _zoom (re-compiled, loops cut with the trivial invariant) on the real
               LineEnergy, objective and gradient uninterpreted: whenever (e, True) is returned, e is the energy at
               x0 + a*p with  f(x0+a p) <= f(x0) + c1 a <g0,p>  and  |<g(x0+a p),p>| <= -c2 <g0,p>  (strong Wolfe).
  line_energy  LineEnergy.__init__/at offset arithmetic.
  lbfgs        (bounded in history length) the real L_BFGS and VL_BFGS classes on abstract vectors: equal descent directions
               as rational functions of the Gram matrix of the history, incl. the history-wrap case.
"""
import functools
import inspect

import z3

from vf import symx
from vf.symx import Ctx, SymBool, SymInt, SymReal, fresh_bool, fresh_int, fresh_real, implies, sand, sor, snot
from vf.vs import LinOp, Space, Vec, VecFun

META = dict(
    title="Classic descent minimisers are monotone and their line search is sound",
    level="other",
    design_ref="DESIGN.md section 4, C16",
    technique="deductive verification: loop invariant on the re-compiled descent loop; strong-Wolfe post-condition of the "
              "re-compiled line search and zoom over an uninterpreted objective (z3); relational run of the two real L-BFGS "
              "classes on abstract vectors (equality of rational functions, z3 / sympy cancel)",
    text="Proved for every energy, direction, controller and iteration count: the descent loop never adopts an energy with a "
         "larger value and returns CONVERGED, ERROR or the controller's verdict; whenever the line search or its zoom phase "
         "report success the returned point satisfies both strong Wolfe conditions relative to the start. The two L-BFGS "
         "variants are proved to give the same direction for every history of the enumerated lengths (universal in the "
         "vectors, bounded in history length / memory).",
    note="A-REAL (the NaN / FloatingPointError / overflow back-tracking branches are unreachable); _cubicmin/_quadmin are "
         "represented by the contract 'returns a real number or None'; energy.longest_step is arbitrary; L-BFGS comparison "
         "bounded: memory in {1,2,3}, up to memory+2 updates (history wrap included), curvature pairs with s.y != 0 assumed; "
         "termination not verified.",
    explanation="level 'other': descent and line-search obligations are unbounded proofs; the L-BFGS equality is a bounded "
                "skeleton enumeration (history length) whose obligations are universal in the vectors",
)

T_ = SymBool(z3.BoolVal(True))
F_ = SymBool(z3.BoolVal(False))
CONVERGED, CONTINUE, ERROR = 0, 1, 2


def _b(x):
    return x if isinstance(x, SymBool) else SymBool(z3.BoolVal(bool(x)))


class _Log:
    def error(self, *a, **k):
        pass

    warning = info = debug = error


class _NP:
    inf = "inf"

    @staticmethod
    def isnan(x):
        return False

    @staticmethod
    def abs(x):
        return abs(x)

    @staticmethod
    def isfinite(x):
        return True


# ------------------------------------------------------------------------------------------------ descent loop
def sec_descent(chk):
    import nifty.cl.minimization.descent_minimizers as dm
    chk.stub("line_searcher.perform_line_search: returns (any energy, any success flag)")
    chk.stub("IterationController.start/check: any verdict (verified in C14)")
    chk.assume("A-TERM")

    class E:
        def __init__(self, name):
            self.value = fresh_real(f"value_{name}")
            self.gradient_norm = fresh_real(f"gnorm_{name}")
            Ctx.cur.assume(self.gradient_norm >= 0)

    class Ctl:
        CONVERGED, CONTINUE, ERROR = 0, 1, 2

        def __init__(self):
            self.calls = []

        def _v(self, e):
            s = fresh_int("status")
            Ctx.cur.assume((s >= 0) & (s <= 2))
            self.calls.append((s, e))
            return s
        start = check = _v

    class V(symx.VC):
        def inv(self, energy):
            return energy.value <= self.v0

        def havoc(self):
            e = E("k")
            Ctx.cur.assume(e.value <= self.v0)
            return e, (None if bool(fresh_bool("first")) else fresh_real("f_km1"))
    vc = V()
    loops = {0: dict(entry="__vc.inv(energy)", havoc="energy, f_k_minus_1 = __vc.havoc()", inv="__vc.inv(energy)")}
    f = symx.extract(dm.DescentMinimizer.__call__, loops=loops, rebind={"logger": _Log()}, vc=vc)
    chk.under_contract(f)

    def run(ctx):
        ctl = Ctl()
        adopted = []

        class LS:
            def perform_line_search(self, energy, pk, f_k_minus_1):
                ne = E("new")
                adopted.append((energy, ne))
                return ne, bool(fresh_bool("success"))

        class Mini:
            _controller = ctl
            line_searcher = LS()
            resets = 0

            def get_descent_direction(self, energy, old):
                return "direction"

            def reset(self):
                Mini.resets += 1
        e0 = E("0")
        vc.v0 = e0.value
        e, st = f(Mini(), e0)
        ctx.prove(e.value <= e0.value, "the returned energy is not above the start")
        judged = [s for s, en in ctl.calls if en is e]
        by_ctl = (st == judged[-1]) if judged else F_
        ctx.prove(sor(st == CONVERGED, st == ERROR, by_ctl), "status is CONVERGED, ERROR or the controller's verdict on the returned energy")
        for old, new in adopted:
            if e is new:
                ctx.prove(new.value <= old.value, "a step is adopted only if it does not increase the energy")
                ctx.cover("step adopted")
    chk.explore(run, covers=["step adopted"])


# ------------------------------------------------------------------------------------------------ line search
class World:
    def __init__(self):
        self.sp = Space()
        self.F = VecFun("f", lambda n: fresh_real(n))
        self.G = VecFun("grad", lambda n: self.sp.fresh(n))

    def energy(self, pos):
        w = self

        class En:
            position = pos

            @property
            def value(self):
                return w.F(pos)

            @property
            def gradient(self):
                return w.G(pos)

            def at(self, position):
                return w.energy(position)

            def longest_step(self, pk):
                return None if bool(fresh_bool("no_longest_step")) else fresh_real("longest_step")
        return En()


def _alpha_of(x, x0, p):
    d = x - x0
    a = sorted(p.c, key=repr)[0]
    t = SymReal(z3.simplify(d.c.get(a, z3.RealVal(0)) / p.c[a]))
    return t, d.eq(t * p)


class LineWorld:
    """objective restricted to the search line: phi(a) = f(x0 + a p) and phi'(a) = <grad f(x0 + a p), p> are z3
    uninterpreted functions of a (congruence is the solver's, no forking)"""

    def __init__(self):
        self.sp = Space()
        self.x0, self.p = self.sp.atom("x0"), self.sp.atom("p")
        self.phi = z3.Function("phi", z3.RealSort(), z3.RealSort())
        self.dphi = z3.Function("dphi", z3.RealSort(), z3.RealSort())

    def alpha(self, pos):
        d = pos - self.x0
        a = ("v", "p")
        return SymReal(z3.simplify(d.c.get(a, z3.RealVal(0))))

    def F(self, pos):
        return SymReal(self.phi(self.alpha(pos).t))

    def slope(self, pos):
        return SymReal(self.dphi(self.alpha(pos).t))

    def energy(self, pos):
        w = self

        class Grad:
            def s_vdot(self, direction):
                assert direction is w.p or direction._same(w.p)
                return w.slope(pos)

        class En:
            position = pos
            value = w.F(pos)
            gradient = Grad()

            def at(self, position):
                return w.energy(position)

            def longest_step(self, pk):
                return None if bool(fresh_bool("no_longest_step")) else fresh_real("longest_step")
        return En()


class _LEStub:
    """placeholder for a LineEnergy of an earlier (havocked) iteration: only its .energy can be returned on failure"""
    energy = "energy of an earlier trial"


def sec_line_search(chk):
    import nifty.cl.minimization.line_search as ls
    chk.assume("A-REAL: np.isnan false, |phi| <= 1e100, no FloatingPointError")
    chk.stub("_cubicmin/_quadmin: return a real number or None")
    chk.assume("A-TERM")
    w = LineWorld()

    class V(symx.VC):
        def h_outer(self):
            # arbitrary loop state (trivial invariant): the post-condition does not depend on it
            return (fresh_int("iteration_number"), fresh_real("alpha0"), fresh_real("alpha1"), fresh_real("phi_alpha0"),
                    fresh_real("phiprime_alpha0"), _LEStub())

        def h_zoom(self):
            return (fresh_real("alpha_lo"), fresh_real("alpha_hi"), fresh_real("phi_lo"), fresh_real("phiprime_lo"),
                    fresh_real("phi_hi"), fresh_real("alpha_recent"), fresh_real("phi_recent"), fresh_real("alpha_j"),
                    fresh_real("cubic_check"), _LEStub())

    vc = V()

    def interp(*a):
        return None if bool(fresh_bool("interp_none")) else fresh_real("alpha_interp")

    rb = {"np": _NP, "logger": _Log(), "float": symx.sym_float_of}
    LineEnergy = _reexec_lineenergy(ls, rb)
    rb["LineEnergy"] = LineEnergy
    loops_p = {0: dict(entry="True", havoc="iteration_number, alpha0, alpha1, phi_alpha0, phiprime_alpha0, le_alpha1 = __vc.h_outer()",
                       inv="True")}
    loops_z = {0: dict(entry="True", havoc="alpha_lo, alpha_hi, phi_lo, phiprime_lo, phi_hi, alpha_recent, phi_recent, alpha_j, "
                                           "cubic_check, le_alphaj = __vc.h_zoom()\n__it0 = __vc.fresh_int('i')", inv="True")}
    fz = symx.extract(ls.LineSearch._zoom, loops=loops_z, rebind=rb, vc=vc)
    fp = symx.extract(ls.LineSearch.perform_line_search, loops=loops_p, rebind=rb, vc=vc)
    chk.under_contract(fp)
    chk.under_contract(fz)

    def mk_self(ctx):
        class S:
            preferred_initial_step_size = None if bool(fresh_bool("no_preferred")) else fresh_real("pref")
            c1 = fresh_real("c1")
            c2 = fresh_real("c2")
            max_step_size = fresh_real("max_step")
            max_iterations = fresh_int("max_it")
            max_zoom_iterations = fresh_int("max_zoom")
            _cubicmin = staticmethod(interp)
            _quadmin = staticmethod(interp)

            def _zoom(self, alpha_lo, alpha_hi, phi_0, phiprime_0, phi_lo, phiprime_lo, phi_hi, le_0):
                """callers are checked against _zoom's CONTRACT (proved on its body in run_zoom), not its body"""
                Ctx.cur.cover("zoom called")
                if bool(fresh_bool("zoom_success")):
                    a = fresh_real("a_zoom")
                    le = le_0.at(a)
                    Ctx.cur.assume((le.value <= phi_0 + self.c1 * a * phiprime_0)
                                   & (abs(le.directional_derivative) <= -self.c2 * phiprime_0))
                    return le.energy, True
                return _LEStub.energy, False
        ctx.assume((S.c1 > 0) & (S.c1 < S.c2) & (S.c2 < 1) & (S.max_step_size > 0))
        return S()

    def wolfe(ctx, s, x0, p, res, what):
        e, success = res
        if not success:
            ctx.cover(f"{what}: failure reported")
            return
        ctx.cover(f"{what}: success reported")
        ctx.prove(_b(not isinstance(e, str)), f"{what}: on success the returned energy is the one of the accepted trial")
        if isinstance(e, str):
            return
        a, on_line = _alpha_of(e.position, x0, p)
        g0p = w.slope(x0)
        ctx.prove(on_line, f"{what}: on success the returned energy lies on the search line x0 + a*p")
        ctx.prove(w.F(e.position) <= w.F(x0) + s.c1 * a * g0p, f"{what}: on success the sufficient-decrease (Armijo) condition holds")
        gp = w.slope(e.position)
        ctx.prove(abs(gp) <= -s.c2 * g0p, f"{what}: on success the strong curvature condition |phi'(a)| <= -c2 phi'(0) holds")

    def run_perform(ctx):
        s = mk_self(ctx)
        x0, p = w.x0, w.p
        fk = None if bool(fresh_bool("first_iteration")) else fresh_real("f_km1")
        res = fp(s, w.energy(x0), p, fk)
        wolfe(ctx, s, x0, p, res, "perform_line_search")
    chk.explore(run_perform, tag="perform", maxpaths=20000,
                covers=["perform_line_search: success reported", "perform_line_search: failure reported"])

    def run_zoom(ctx):
        s = mk_self(ctx)
        x0, p = w.x0, w.p
        le_0 = LineEnergy(0., w.energy(x0), p, 0.)
        phi_0 = w.F(x0)
        dphi_0 = w.slope(x0)
        try:
            res = fz(s, fresh_real("alpha_lo0"), fresh_real("alpha_hi0"), phi_0, dphi_0, fresh_real("phi_lo0"),
                     fresh_real("phiprime_lo0"), fresh_real("phi_hi0"), le_0)
        except ValueError:
            return
        wolfe(ctx, s, x0, p, res, "_zoom")
    chk.explore(run_zoom, tag="zoom", maxpaths=20000, covers=["_zoom: success reported", "_zoom: failure reported"])


def _reexec_lineenergy(ls, rb):
    """the real LineEnergy class, re-executed from source with float() re-bound (its constructor calls float(alpha))"""
    src = inspect.getsource(ls.LineEnergy)
    ns = dict(ls.__dict__)
    ns.update(rb)
    exec(compile(src, ls.__file__, "exec"), ns)
    return ns["LineEnergy"]


def sec_line_energy(chk):
    import nifty.cl.minimization.line_search as ls
    chk.under_contract(ls.LineEnergy.__init__)
    chk.under_contract(ls.LineEnergy.at)
    w = World()
    LineEnergy = _reexec_lineenergy(ls, {"float": symx.sym_float_of})

    def run(ctx):
        x0, p = w.sp.atom("x0"), w.sp.atom("p")
        a, b, c = fresh_real("a"), fresh_real("b"), fresh_real("c")
        le0 = LineEnergy(0., w.energy(x0), p, 0.)
        ctx.prove(le0.energy.position.eq(x0), "LineEnergy(0, e, p): the energy at line position 0 is e itself")
        la = le0.at(a)
        ctx.prove(la.energy.position.eq(x0 + a * p), "le_0.at(a) is the energy at x0 + a*p")
        lb = la.at(b)
        ctx.prove(lb.energy.position.eq(x0 + b * p), "at() is absolute: le_0.at(a).at(b) is the energy at x0 + b*p")
        ctx.prove(lb.value == w.F(x0 + b * p), "value is the objective at that point")
        ctx.prove(lb.directional_derivative == w.G(x0 + b * p).s_vdot(p).real, "directional_derivative is <gradient, direction>")
        lc = LineEnergy(c, la.energy, p, offset=a)
        ctx.prove(lc.energy.position.eq(x0 + c * p), "LineEnergy(c, e_a, p, offset=a) is the energy at x0 + c*p")
    chk.explore(run)


# ------------------------------------------------------------------------------------------------ L-BFGS variants
class _ObjNP:
    """np for descent_minimizers: the Gram caches of VL_BFGS hold symbolic numbers"""
    float64 = object

    @staticmethod
    def empty(shape, dtype=None):
        import numpy as np
        return np.empty(shape, dtype=object)

    @staticmethod
    def zeros(shape, dtype=None):
        import numpy as np
        a = np.empty(shape, dtype=object)
        a.fill(0)
        return a


def sec_lbfgs(chk, mems=(1, 2, 3)):
    import nifty.cl.minimization.descent_minimizers as dm
    chk.assume("curvature condition of the stored pairs: <s_i, y_i> > 0 (guaranteed by a Wolfe line search), y_i != 0")
    chk.note("bounded: memory in {1,2,3}, number of points up to memory+3 (history wrap included); universal in the vectors")
    src = inspect.getsource(dm)
    ns = {"__name__": dm.__name__ + "(verif)", "__package__": dm.__package__, "__file__": dm.__file__}
    exec(compile(src, dm.__file__, "exec"), ns)
    ns["np"] = _ObjNP
    ns["logger"] = _Log()
    chk.under_contract(dm.L_BFGS.get_descent_direction)
    chk.under_contract(dm.VL_BFGS.get_descent_direction)
    chk.under_contract(dm._InformationStore)

    class En:
        def __init__(self, x, g):
            self.position, self.gradient = x, g

    for mem in mems:
        def run(ctx, mem=mem):
            sp = Space()
            L = ns["L_BFGS"]("ctl", max_history_length=mem)
            L.reset()
            Vv = ns["VL_BFGS"]("ctl", max_history_length=mem)
            Vv._information_store = None
            xs = [sp.atom(f"x{i}") for i in range(mem + 3)]
            gs = [sp.atom(f"g{i}") for i in range(mem + 3)]
            ctx.prefer_cancel = True
            for i in range(mem + 3):
                if i >= 1:
                    s_i = xs[i] - xs[i - 1]
                    y_i = gs[i] - gs[i - 1]
                    ctx.assume((s_i.s_vdot(y_i) > 0) & (y_i.s_vdot(y_i) > 0))      # curvature condition of BFGS pairs
                # DescentMinimizer returns CONVERGED before asking for a direction at a flat point
                ctx.assume(gs[i].s_vdot(gs[i]) > 0)
                d1 = L.get_descent_direction(En(xs[i], gs[i]))
                d2 = Vv.get_descent_direction(En(xs[i], gs[i]))
                wrapped = i > mem
                ctx.prove(d1.eq(d2), f"memory {mem}: L_BFGS and VL_BFGS give the same direction after {i} update(s)"
                          + (" (history wrapped)" if wrapped else ""))
        chk.explore(run, tag=f"memory{mem}")


def _mk_lbfgs(mem):
    def sec(chk):
        sec_lbfgs(chk, (mem,))
    sec.__name__ = f"sec_lbfgs_memory{mem}"
    return sec


SECTIONS = [sec_descent, sec_line_search, sec_line_energy] + [_mk_lbfgs(m) for m in (1, 2, 3)]
SECTIONS[-1].thorough_only = True      # memory 3 takes ~3 min (sympy cancel of large rational functions)
