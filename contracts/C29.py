"""C29 Gauss-Markov processes have the exact continuous-time covariance.

Engine J: the real wiener_process, integrated_wiener_process (with and without asperity), ornstein_uhlenbeck_process,
scalar_gauss_markov_process and discrete_gauss_markov_process are traced by JAX and their jaxprs evaluated on symbols, for N = 1..4
steps with *symbolic, pairwise different* step sizes dt_i, amplitudes sigma_i, rates gamma_i, initial state x0 and excitations xi.
Contract: the output is x0-propagated mean plus T xi (linear in xi, checked), and T T^T == C, the covariance of the continuous-time
process at the grid points, where C is built in this file from the stochastic differential equation itself:
    one-step transition  F_i = expm(A dt_i),   Q_i = sigma_i^2 * integral_0^dt_i expm(A s) D expm(A s)^T ds      (sympy integrates)
    P_0 = 0,  P_{i+1} = F_i P_i F_i^T + Q_i,   Cov(s_j, s_k) = P_j Phi(k, j)^T for j <= k                        (lemma L-MARKOV)
with A, D the drift matrix and noise intensity of the documented process (Wiener: A = 0; integrated Wiener: A = [[0,1],[0,0]],
D = diag(asperity, 1); Ornstein-Uhlenbeck: A = -gamma, D = 2 gamma).  The mean is Phi(k, 0) x0.
The generic generator is checked against its defining recursion for every combination of shared / per-step drift and amplitude
matrices, and against the specialised processes.
"""
import itertools

import numpy as np
import sympy as sp

from vf import jaxsym
from vf.jaxsym import sym_call, symbols
from vf.objx import eq_status

META = dict(
    title="Gauss-Markov processes have the exact continuous-time covariance",
    level="other",
    design_ref="DESIGN.md section 4, C29",
    technique="contract 'sample == Phi x0 + T xi with T T^T == continuous-time covariance at the grid points' on the real process "
              "functions: JAX traces them to jaxprs which are evaluated on sympy symbols (Engine J); the covariance is derived in "
              "the sidecar from the SDE (sympy matrix exponential and integral for each transition, Markov composition); symbolic, "
              "pairwise different dt_i, sigma_i, gamma_i, x0; identities decided by sympy",
    text="For N = 1..3 (4 in the thorough tier) steps with symbolic non-uniform time grids and time-varying parameters, the Wiener, "
         "integrated Wiener (with and without asperity) and Ornstein-Uhlenbeck process functions return a sample that is linear in "
         "the excitations, whose mean is the propagated initial state and whose covariance equals that of the continuous-time process "
         "at the grid points; the generic Gauss-Markov generator follows its defining recursion for shared and per-step drift and "
         "amplitude matrices in every combination and reproduces the specialised processes.",
    note="Universal in all step sizes, parameters, initial states and excitations; bounded in the number of steps (N <= 3 quick, 4 "
         "thorough) and the state dimension (1-2). L-MARKOV (exact one-step transitions compose to the exact joint law) is a stated "
         "lemma; each one-step transition is derived by sympy from the SDE. Trusted: JAX's tracer, Engine J's primitive table, A-REAL.",
    explanation="level 'other': symbolic identities on jaxprs of the real code, bounded in the number of steps",
)


def _eq(chk, label, got, want):
    worst = ("discharged", "sympy", "")
    if len(got) != len(want):
        chk.obligation(label, "refuted", backend="sympy", detail=f"{len(got)} entries, expected {len(want)}")
        return
    for a, b in zip(got, want):
        st = eq_status(sp.sympify(a), sp.sympify(b), n=6)
        if st[0] != "discharged":
            worst = st
            break
        if st[1] != "sympy":
            worst = st
    chk.obligation(label, worst[0], backend=worst[1], detail=worst[2])


def _linear_part(out, xis):
    """(mean, T) with out == mean + T xi; raises if not linear"""
    rows, mean = [], []
    zero = {x: 0 for x in xis}
    for e in out:
        e = sp.expand(sp.sympify(e))
        row = [sp.diff(e, x) for x in xis]
        if any(r.has(*xis) for r in row):
            raise ValueError(f"not linear in the excitations: {e}")
        rows.append(row)
        mean.append(e.subs(zero))
    return mean, sp.Matrix(rows)


def _sde_cov(A, D, dts, sigs, dim):
    """covariance blocks Cov(s_j, s_k) and propagators of the linear SDE  ds = A s dt + sigma sqrtm(D) dW  from s_0 = x0 (deterministic)"""
    s_ = sp.Symbol("s_", positive=True)
    A = sp.Matrix(A)
    D = sp.Matrix(D)
    Fs, Qs = [], []
    for dt, sg in zip(dts, sigs):
        E = (A * s_).exp() if A.shape != (1, 1) else sp.Matrix([[sp.exp(A[0, 0] * s_)]])
        F = E.subs(s_, dt)
        Q = (E * D * E.T).applyfunc(lambda e: sp.integrate(sp.expand(e), (s_, 0, dt))) * sg ** 2
        Fs.append(F.applyfunc(sp.simplify))
        Qs.append(Q.applyfunc(sp.simplify))
    n = len(dts)
    P = [sp.zeros(dim, dim)]
    for i in range(n):
        P.append(Fs[i] * P[i] * Fs[i].T + Qs[i])

    def phi(k, j):
        M = sp.eye(dim)
        for i in range(j, k):
            M = Fs[i] * M
        return M
    C = sp.zeros(dim * (n + 1), dim * (n + 1))
    for j in range(n + 1):
        for k in range(j, n + 1):
            blk = P[j] * phi(k, j).T
            C[j * dim:(j + 1) * dim, k * dim:(k + 1) * dim] = blk
            C[k * dim:(k + 1) * dim, j * dim:(j + 1) * dim] = blk.T
    mean_prop = [phi(k, 0) for k in range(n + 1)]
    return C, mean_prop, Fs, Qs


def _check_process(chk, label, out, xis, x0, C, mean_prop):
    out = list(np.asarray(out, dtype=object).ravel())
    try:
        mean, T = _linear_part(out, xis)
    except ValueError as e:
        chk.obligation(f"{label}: the sample is linear in the excitations", "refuted", backend="sympy", detail=str(e)[:300])
        return
    chk.obligation(f"{label}: the sample is linear in the excitations", "discharged", backend="sympy")
    want_mean = []
    for Pk in mean_prop:
        want_mean += list(Pk * sp.Matrix(x0))
    _eq(chk, f"{label}: the mean is the propagated initial state (the first entry is x0)", mean, want_mean)
    TT = T * T.T
    _eq(chk, f"{label}: T T^T == covariance of the continuous-time process at the grid points", list(TT), list(C))


def sec_wiener(chk):
    import jax
    jax.config.update("jax_enable_x64", True)
    import jax.numpy as jnp
    from nifty.re import gauss_markov as gm
    chk.under_contract(gm.wiener_process)
    chk.lemma("L-MARKOV: exact one-step transitions of a linear SDE compose to the exact joint law at the grid points")
    chk.assume("A-REAL; A-JAXTRACE")
    for N in range(1, (3 if chk.tier == "quick" else 4) + 1):
        xi, dt, sg = symbols((N,), "xi", real=True), symbols((N,), "h", positive=True), symbols((N,), "s", positive=True)
        x0 = symbols((), "x0", real=True)
        for what, sig_sym, sig_ex in (("time-varying sigma", sg, jnp.ones(N)), ("scalar sigma", symbols((), "s", positive=True), jnp.asarray(1.))):
            sigs = list(sig_sym.ravel()) * (N if sig_sym.ndim == 0 else 1)
            C, mp, _, _ = _sde_cov([[0]], [[1]], list(dt), sigs, 1)
            out, _ = sym_call(gm.wiener_process, (jnp.ones(N), jnp.asarray(1.), sig_ex, jnp.ones(N)), (xi, x0, sig_sym, dt))
            _check_process(chk, f"wiener: N={N}, non-uniform dt, {what}", out, list(xi), [x0[()]], C, mp)
        hs = symbols((), "h", positive=True)
        C, mp, _, _ = _sde_cov([[0]], [[1]], [hs[()]] * N, list(sg), 1)
        out, _ = sym_call(gm.wiener_process, (jnp.ones(N), jnp.asarray(1.), jnp.ones(N), jnp.asarray(1.)), (xi, x0, sg, hs))
        _check_process(chk, f"wiener: N={N}, scalar dt, time-varying sigma", out, list(xi), [x0[()]], C, mp)


def sec_integrated_wiener(chk):
    import jax
    jax.config.update("jax_enable_x64", True)
    import jax.numpy as jnp
    from nifty.re import gauss_markov as gm
    chk.under_contract(gm.integrated_wiener_process)
    for N in range(1, (3 if chk.tier == "quick" else 4) + 1):
        xi = symbols((N, 2), "xi", real=True)
        dt, sg = symbols((N,), "h", positive=True), symbols((N,), "s", positive=True)
        x0 = symbols((2,), "x", real=True)
        A = [[0, 1], [0, 0]]
        for what, asp_sym, asp_ex, aspv in (("no asperity", None, None, [0] * N), ("scalar asperity", symbols((), "a", positive=True), jnp.asarray(1.), None),
                                            ("time-varying asperity", symbols((N,), "a", positive=True), jnp.ones(N), None)):
            if aspv is None:
                aspv = list(asp_sym.ravel()) * (N if asp_sym.ndim == 0 else 1)
            # the noise intensity may change from step to step: build the covariance step by step
            Fs, Qs = [], []
            for i in range(N):
                _, _, F1, Q1 = _sde_cov(A, [[aspv[i], 0], [0, 1]], [dt[i]], [sg[i]], 2)
                Fs.append(F1[0])
                Qs.append(Q1[0])
            P = [sp.zeros(2, 2)]
            for i in range(N):
                P.append(Fs[i] * P[i] * Fs[i].T + Qs[i])

            def phi(k, j):
                M = sp.eye(2)
                for i in range(j, k):
                    M = Fs[i] * M
                return M
            C = sp.zeros(2 * (N + 1), 2 * (N + 1))
            for j in range(N + 1):
                for k in range(j, N + 1):
                    blk = P[j] * phi(k, j).T
                    C[2 * j:2 * j + 2, 2 * k:2 * k + 2] = blk
                    C[2 * k:2 * k + 2, 2 * j:2 * j + 2] = blk.T
            mp = [phi(k, 0) for k in range(N + 1)]
            if asp_sym is None:
                out, _ = sym_call(lambda a, b, c, d: gm.integrated_wiener_process(a, b, c, d), (jnp.ones((N, 2)), jnp.ones(2), jnp.ones(N), jnp.ones(N)),
                                  (xi, x0, sg, dt))
            else:
                out, _ = sym_call(lambda a, b, c, d, e: gm.integrated_wiener_process(a, b, c, d, e),
                                  (jnp.ones((N, 2)), jnp.ones(2), jnp.ones(N), jnp.ones(N), asp_ex), (xi, x0, sg, dt, asp_sym))
            _check_process(chk, f"integrated_wiener: N={N}, non-uniform dt, time-varying sigma, {what}", out, list(xi.ravel()), list(x0), C, mp)
        # scalar dt
        hs = symbols((), "h", positive=True)
        C, mp, _, _ = _sde_cov(A, [[0, 0], [0, 1]], [hs[()]] * N, list(sg), 2)
        out, _ = sym_call(lambda a, b, c, d: gm.integrated_wiener_process(a, b, c, d), (jnp.ones((N, 2)), jnp.ones(2), jnp.ones(N), jnp.asarray(1.)),
                          (xi, x0, sg, hs))
        _check_process(chk, f"integrated_wiener: N={N}, scalar dt, time-varying sigma", out, list(xi.ravel()), list(x0), C, mp)


def sec_ornstein_uhlenbeck(chk):
    import jax
    jax.config.update("jax_enable_x64", True)
    import jax.numpy as jnp
    from nifty.re import gauss_markov as gm
    chk.under_contract(gm.ornstein_uhlenbeck_process)
    chk.under_contract(gm.scalar_gauss_markov_process)
    for N in range(1, (3 if chk.tier == "quick" else 4) + 1):
        xi, dt = symbols((N,), "xi", real=True), symbols((N,), "h", positive=True)
        x0 = symbols((), "x0", real=True)
        for what, sg, ga, sg_ex, ga_ex in (("constant sigma and gamma", symbols((), "s", positive=True), symbols((), "g", positive=True), jnp.asarray(1.), jnp.asarray(1.)),
                                           ("time-varying sigma and gamma", symbols((N,), "s", positive=True), symbols((N,), "g", positive=True), jnp.ones(N), jnp.ones(N))):
            sgs = list(sg.ravel()) * (N if sg.ndim == 0 else 1)
            gas = list(ga.ravel()) * (N if ga.ndim == 0 else 1)
            Fs, Qs = [], []
            for i in range(N):
                _, _, F1, Q1 = _sde_cov([[-gas[i]]], [[2 * gas[i]]], [dt[i]], [sgs[i]], 1)
                Fs.append(F1[0])
                Qs.append(Q1[0])
            P = [sp.zeros(1, 1)]
            for i in range(N):
                P.append(Fs[i] * P[i] * Fs[i].T + Qs[i])
            C = sp.zeros(N + 1, N + 1)
            for j in range(N + 1):
                for k in range(j, N + 1):
                    ph = sp.Integer(1)
                    for i in range(j, k):
                        ph = ph * Fs[i][0, 0]
                    C[j, k] = C[k, j] = P[j][0, 0] * ph
            mp = []
            for k in range(N + 1):
                ph = sp.Integer(1)
                for i in range(k):
                    ph = ph * Fs[i][0, 0]
                mp.append(sp.Matrix([[ph]]))
            out, _ = sym_call(gm.ornstein_uhlenbeck_process, (jnp.ones(N), jnp.asarray(1.), sg_ex, ga_ex, jnp.ones(N)), (xi, x0, sg, ga, dt))
            _check_process(chk, f"ornstein_uhlenbeck: N={N}, non-uniform dt, {what}", out, list(xi), [x0[()]], C, mp)
            if sg.ndim == 0 and N >= 2:
                # stationary kernel: from a stationary start the covariance would be sigma^2 exp(-gamma |t_j - t_k|); from a fixed x0 it is
                # sigma^2 (exp(-gamma |t_k - t_j|) - exp(-gamma (t_j + t_k)))
                ts = [sum(dt[:k]) for k in range(N + 1)]
                K = sp.Matrix(N + 1, N + 1, lambda j, k: sgs[0] ** 2 * (sp.exp(-gas[0] * abs(ts[k] - ts[j]) if j == k else -gas[0] * (ts[max(j, k)] - ts[min(j, k)]))
                                                                      - sp.exp(-gas[0] * (ts[j] + ts[k]))))
                _eq(chk, f"ornstein_uhlenbeck: N={N}: the SDE-derived covariance is the documented kernel sigma^2 (e^(-g|dt|) - e^(-g(t+t')))", list(C), list(K))


def sec_generic(chk):
    """discrete_gauss_markov_process follows res_{i+1} = drift_i res_i + diffamp_i xi_i for shared / per-step matrices"""
    import jax
    jax.config.update("jax_enable_x64", True)
    import jax.numpy as jnp
    from nifty.re import gauss_markov as gm
    chk.under_contract(gm.discrete_gauss_markov_process)
    N, d = 3, 2
    xi, x0 = symbols((N, d), "xi", real=True), symbols((d,), "x", real=True)
    Fsh, Fst = symbols((d, d), "F", real=True), symbols((N, d, d), "F", real=True)
    Ash, Ast = symbols((d, d), "A", real=True), symbols((N, d, d), "A", real=True)
    for (dn, Fsym), (an, Asym) in itertools.product((("shared drift", Fsh), ("per-step drift", Fst)), (("shared amplitude", Ash), ("per-step amplitude", Ast))):
        out, _ = sym_call(gm.discrete_gauss_markov_process, (jnp.ones((N, d)), jnp.ones(d), jnp.ones(Fsym.shape), jnp.ones(Asym.shape)), (xi, x0, Fsym, Asym))
        want = [sp.Matrix(list(x0))]
        for i in range(N):
            F = sp.Matrix(d, d, list((Fsym[i] if Fsym.ndim == 3 else Fsym).ravel()))
            A = sp.Matrix(d, d, list((Asym[i] if Asym.ndim == 3 else Asym).ravel()))
            want.append(F * want[-1] + A * sp.Matrix(list(xi[i])))
        _eq(chk, f"generic: {dn}, {an}: res_0 == x0 and res_(i+1) == drift_i res_i + diffamp_i xi_i", [sp.expand(e) for e in np.asarray(out, dtype=object).ravel()],
            [sp.expand(e) for m in want for e in m])
    # scalar drift / amplitude
    f, a = symbols((), "f", real=True), symbols((), "a", real=True)
    xi1, x01 = symbols((N, 1), "xi", real=True), symbols((1,), "x", real=True)
    out, _ = sym_call(gm.discrete_gauss_markov_process, (jnp.ones((N, 1)), jnp.ones(1), jnp.asarray(1.), jnp.asarray(1.)), (xi1, x01, f, a))
    want = [x01[0]]
    for i in range(N):
        want.append(f[()] * want[-1] + a[()] * xi1[i, 0])
    _eq(chk, "generic: scalar drift and amplitude", [sp.expand(e) for e in np.asarray(out, dtype=object).ravel()], [sp.expand(e) for e in want])
    # the generic generator with the integrated Wiener transitions (one shared drift on a uniform grid, per-step amplitudes for time-varying sigma)
    h = symbols((), "h", positive=True)[()]
    sg = symbols((N,), "s", positive=True)
    Fm = np.array([[1, h], [0, 1]], dtype=object)
    amps = np.empty((N, 2, 2), dtype=object)
    for i in range(N):
        L = sp.Matrix([[h ** 3 / 3, h ** 2 / 2], [h ** 2 / 2, h]]).cholesky() * sg[i]
        for r in range(2):
            for c in range(2):
                amps[i, r, c] = sp.simplify(L[r, c])
    out, _ = sym_call(gm.discrete_gauss_markov_process, (jnp.ones((N, 2)), jnp.ones(2), jnp.ones((2, 2)), jnp.ones((N, 2, 2))), (xi, x0, Fm, amps))
    C, mp, _, _ = _sde_cov([[0, 1], [0, 0]], [[0, 0], [0, 1]], [h] * N, list(sg), 2)
    _check_process(chk, "generic: integrated Wiener transitions (shared drift, per-step amplitudes) reproduce the integrated Wiener covariance", out,
                   list(xi.ravel()), list(x0), C, mp)
    spec, _ = sym_call(lambda a_, b_, c_, d_: gm.integrated_wiener_process(a_, b_, c_, d_), (jnp.ones((N, 2)), jnp.ones(2), jnp.ones(N), jnp.asarray(1.)),
                       (xi, x0, sg, symbols((), "h", positive=True)))
    m1, T1 = _linear_part(list(np.asarray(out, dtype=object).ravel()), list(xi.ravel()))
    m2, T2 = _linear_part(list(np.asarray(spec, dtype=object).ravel()), list(xi.ravel()))
    _eq(chk, "generic vs specialised integrated Wiener process: same mean and same covariance", m1 + list(T1 * T1.T), m2 + list(T2 * T2.T))


SECTIONS = [sec_wiener, sec_integrated_wiener, sec_ornstein_uhlenbeck, sec_generic]
