"""C17 JAX Newton minimisers never go uphill and make progress when they can.

Functions under contract: nifty.re.optimize._newton_cg (re-compiled, outer loop cut),
_static_newton_cg with its closure single_newton_cg_step, _line_search_successive_halving
(re-compiled, its bounded while_loop executed), _trust_ncg with its closure
_trust_region_body_f.  The inner CG is its C15 contract.
"""
import functools

import z3

from vf import symx
from vf.symx import (Ctx, SymBool, SymInt, SymReal, const_int, const_real, fresh_bool, fresh_int, fresh_real,
                     implies, ite, sand, snot, sor)
from vf.vs import LinOp, Space, Vec, VecFun, vite

META = dict(
    title="JAX Newton minimisers never go uphill and make progress when they can",
    level="proof",
    design_ref="DESIGN.md section 4, C17",
    technique="deductive verification: loop invariant energy == f(pos) <= f(x0) on the re-compiled eager minimiser, "
              "step contracts on the real compiled closures, relational eager-vs-compiled step, objective/gradient/Hessian "
              "as uninterpreted functions; VCs discharged by z3",
    text="For an arbitrary objective f (uninterpreted, with gradient and Hessian-vector product) the invariant "
         "energy == f(pos) <= f(x0), g == grad f(pos) is proved for the eager Newton-CG loop and for one step of the compiled "
         "closure from every state; under negative curvature along a non-zero gradient the iteration is proved to try "
         "pos - s*t*g (t > 0, s = 1, 1/2, ..., 1/32) and to adopt the first trial that does not raise the energy; one "
         "eager iteration and the compiled step are proved to yield the same state and verdict; the trust-region "
         "acceptance rule is proved monotone given the sub-problem contract.",
    note="The inner CG is represented by its contract proved in C15 (first direction with negative curvature: "
         "result = t*g, t > 0; info >= 0). Assumed contract of the trust-region sub-problem: predicted value <= current "
         "value. A-REAL (no NaN/Inf; x/0 for the trust-region ratio is treated by an explicit case split), A-JAX "
         "(where/cond/while_loop semantics), norms are abstract non-negative functions, time_threshold not modelled, "
         "termination not verified.",
)

SIZE = const_int("size")
F_ = SymBool(z3.BoolVal(False))
T_ = SymBool(z3.BoolVal(True))


def _sb(x):
    return x if isinstance(x, SymBool) else SymBool(z3.BoolVal(bool(x)))


class _Log:
    def error(self, *a, **k):
        pass

    warning = info = debug = error


class _Inf:
    """jnp.inf placeholder: arithmetic is closed (the result is never selected), comparisons are not offered"""

    def _same(self, *a):
        return self

    __add__ = __radd__ = __sub__ = __rsub__ = __mul__ = __rmul__ = __truediv__ = __neg__ = _same
    dtype = None

    def __repr__(self):
        return "INF"


INF = _Inf()


class _JNP:
    inf = INF
    nan = "nan"

    @staticmethod
    def isinf(x):
        return _sb(x is INF)

    @staticmethod
    def isnan(x):
        return False  # A-REAL

    @staticmethod
    def isfinite(x):
        return True

    @staticmethod
    def minimum(a, b):
        return ite(_sb(a <= b), a, b)

    @staticmethod
    def maximum(a, b):
        return ite(_sb(a >= b), a, b)

    @staticmethod
    def sqrt(x):
        return x.sqrt()

    @staticmethod
    def abs(x):
        return abs(x)

    @staticmethod
    def where(c, a, b):
        if isinstance(c, bool):
            return a if c else b
        if isinstance(a, Vec) or isinstance(b, Vec):
            return vite(c, a, b)
        if a is INF or b is INF:      # jnp.inf placeholder
            if bool(c):
                return a
            return b
        return ite(c, a, b)

    @staticmethod
    def array(x, dtype=None):
        return x

    @staticmethod
    def logical_not(x):
        return snot(x)

    class _fi:
        eps = const_real("eps")

    finfo = staticmethod(lambda dt: _JNP._fi)


class World:
    """objective f, gradient, Hessian-vector product as uninterpreted functions on one Space"""

    def __init__(self):
        self.sp = Space(selfadjoint=[])
        sp = self.sp
        self.F = VecFun("f", lambda n: fresh_real(n))
        self.G = VecFun("gradf", lambda n: sp.fresh(n))
        self.Hid = VecFun("hessid", lambda n: n + f"!{next(Ctx.cur.fresh)}")
        self.N = VecFun("norm", self._mknorm)
        self.cg_calls = []
        self.evals = []

    def _mknorm(self, n):
        r = fresh_real(n)
        Ctx.cur.assume(r >= 0)
        return r

    def fun_and_grad(self, x):
        self.evals.append(x)
        return self.F(x), self.G(x)

    def hessp(self, pos, v):
        name = self.Hid(pos)
        self.sp.selfadjoint.add(name)
        return LinOp(name)(v)

    def norm(self, v, ord=None):
        return self.N(v)

    def cg(self, mat, j, **kw):
        """contract of conjugate_gradient._cg/_static_cg with _raise_nonposdef=False, x0=None (proved in C15):
        j == 0 -> x = 0; negative curvature along j != 0 -> x = t*j with t > 0 (steepest-descent step); info >= 0.
        Deterministic: equal arguments give the equal result."""
        for (m2, j2, kw2, res) in self.cg_calls:
            if m2 is mat or (getattr(m2, "args", None) and getattr(mat, "args", None) and m2.args[0]._same(mat.args[0])):
                if j2._same(j):
                    self.cg_calls.append((mat, j, kw, res))
                    return res
        from nifty.re.conjugate_gradient import CGResults
        jj = j.s_vdot(j)
        curv = j.s_vdot(mat(j))
        if jj == 0:
            x = self.sp.zero()
        elif curv < 0:
            t = fresh_real("t_cg")
            Ctx.cur.assume(t > 0)
            x = t * j
            Ctx.cur.cover("negative curvature along the gradient")
        else:
            x = self.sp.fresh("nat_g")
        info = fresh_int("cg_info")
        nfev = fresh_int("cg_nfev")
        Ctx.cur.assume((info >= 0) & (nfev >= 0))
        res = CGResults(x=x, nit=fresh_int("cg_nit"), nfev=nfev, info=info, success=(info == 0))
        self.cg_calls.append((mat, j, kw, res))
        return res


def _rebind(w):
    return {"jnp": _JNP, "float": symx.sym_float_of, "vdot": lambda a, b: a.s_vdot(b), "size": lambda x: SIZE,
            "jft_norm": w.norm, "logger": _Log(), "Partial": functools.partial,
            "_prepare_fun_vag_hessp": lambda fun, jac, hessp, fun_and_grad=None: (None, w.fun_and_grad, w.hessp),
            "result_type": lambda x: None}


# ----------------------------------------------------------------------------- eager
class VE(symx.VC):
    def __init__(self, w):
        self.w = w
        self.rel = None

    def invariant(self, L):
        w = self.w
        return sand(L["energy"] == w.F(L["pos"]), L["g"].eq(w.G(L["pos"])), w.F(L["pos"]) <= w.F(self.x0),
                    L["status"] == -1, L["__it0"] >= 1)

    def entry(self, L):
        return self.invariant(L)

    def havoc(self, L):
        w = self.w
        pos = w.sp.fresh("pos")
        energy, g = w.F(pos), w.G(pos)
        Ctx.cur.assume(energy <= w.F(self.x0))
        old = None if bool(fresh_bool("old_fval_is_None")) else fresh_real("old_fval")
        it = fresh_int("it")
        Ctx.cur.assume(it >= 1)
        nfev, njev, nhev = fresh_int("nfev"), fresh_int("njev"), fresh_int("nhev")
        self.pre = dict(pos=pos, energy=energy, g=g, old_fval=old, it=it, nfev=nfev, njev=njev, nhev=nhev)
        w.cg_calls.clear()
        return pos, energy, g, old, nfev, njev, nhev, -1, it, it - 1

    def _progress(self, L, adopted):
        """negative curvature along a non-zero gradient: trial points are pos - 2^-k t g; first non-increasing one is adopted"""
        w, pre = self.w, self.pre
        g, pos = pre["g"], pre["pos"]
        if not w.cg_calls:
            return
        res = w.cg_calls[0][3]
        H = functools.partial(w.hessp, pos)
        gg = g.s_vdot(g)
        curv = g.s_vdot(H(g))
        if not ((gg > 0) & (curv < 0)):
            return
        ctx = Ctx.cur
        t = None
        a = sorted(g.c, key=repr)[0]
        t = SymReal(z3.simplify(res.x.c.get(a, z3.RealVal(0)) / g.c[a]))
        ctx.prove(res.x.eq(t * g) & (t > 0), "negative curvature: Newton direction is t*g with t > 0 (from the CG contract)")
        k_adopt = L["naive_ls_it"]
        trials = [pos - (0.5 ** k) * (t * g) for k in range(6)]
        if adopted:
            if isinstance(k_adopt, int) and k_adopt <= 5:
                ctx.prove(L["pos"].eq(trials[k_adopt]),
                          "negative curvature: the adopted point is pos - s*t*g with s = 2^-k (a step along the negative gradient)")
                ctx.prove(sand(*[w.F(trials[k]) > pre["energy"] for k in range(k_adopt)]) if k_adopt else T_,
                          "negative curvature: every larger trial step length raised the energy (first non-increasing trial is adopted)")
                ctx.cover("negative curvature: gradient step adopted")
        else:
            ctx.prove(sand(*[w.F(trials[k]) > pre["energy"] for k in range(6)]),
                      "negative curvature: the iteration stops without a step only if every trial step length raised the energy")
            ctx.cover("negative curvature: abort")

    def tail(self, L):
        self._progress(L, adopted=True)
        if self.rel:
            self.rel.at_tail(L)
        return self.invariant(L)


LOOPS_E = {0: dict(entry="__vc.entry(locals())",
                   havoc="pos, energy, g, old_fval, nfev, njev, nhev, status, __it0, i = __vc.havoc(locals())",
                   inv="__vc.tail(locals())")}


def _extract_eager(w, vc):
    import nifty.re.optimize as opt
    return symx.extract(opt._newton_cg, loops=LOOPS_E, rebind=_rebind(w), vc=vc, ghost_return=True)


CONFIGS = [dict(absdelta=False, erf=True), dict(absdelta=True, erf=True), dict(absdelta=True, erf=False),
           dict(absdelta=True, erf=0.0)]


def _kw(cfg):
    kw = {}
    if cfg["absdelta"]:
        kw["absdelta"] = fresh_real("absdelta")
    if cfg["erf"] is True:
        kw["energy_reduction_factor"] = fresh_real("erf")
        Ctx.cur.assume(kw["energy_reduction_factor"] > 0)
    else:       # None, or the falsy-but-not-None value 0.0 (a Python float: the option is a static argument)
        kw["energy_reduction_factor"] = None if cfg["erf"] is False else 0.0
    kw["miniter"] = fresh_int("miniter")
    kw["maxiter"] = fresh_int("maxiter")
    Ctx.cur.assume(kw["maxiter"] >= 0)
    kw["xtol"] = fresh_real("xtol")
    return kw


def _sec_eager(chk, cfg):
    chk.assume("A-REAL: floats are real numbers, no NaN/Inf")
    chk.stub("conjugate_gradient._cg contract (C15): x0=None, _raise_nonposdef=False: j=0 -> 0; negative curvature along "
             "j != 0 -> t*j, t>0; info >= 0; deterministic")
    chk.assume("objective, gradient, Hessian-vector product are arbitrary (uninterpreted) functions; norms abstract, >= 0")
    w = World()
    vc = VE(w)
    f = _extract_eager(w, vc)
    chk.under_contract(f)

    def run(ctx):
        ctx.assume(SIZE >= 1)
        x0 = w.sp.atom("x0")
        vc.x0 = x0
        kw = _kw(cfg)
        old = None if bool(fresh_bool("old_fval_given")) else fresh_real("old_fval0")
        res = f(None, x0, fun_and_grad=w.fun_and_grad, hessp=w.hessp, cg=w.cg, old_fval=old, **kw)
        L = vc.last_locals
        ctx.prove(res.fun == w.F(res.x), "returned value is the objective at the returned point")
        ctx.prove(w.F(res.x) <= w.F(x0), "returned point is not above the start")
        ctx.prove(res.jac.eq(w.G(res.x)), "returned gradient is the gradient at the returned point")
        st = res.status
        if isinstance(st, int) and st == -1 and "naive_ls_it" in L:
            vc._progress(L, adopted=False)
    chk.explore(run, tag=str(cfg).replace(" ", ""), maxpaths=20000,
                covers=["negative curvature: gradient step adopted", "negative curvature: abort"])


def _mk(fn, name, cfg, i):
    def sec(chk):
        fn(chk, cfg)
    sec.__name__ = f"sec_{name}_{i}"
    return sec


# ----------------------------------------------------------------------------- compiled
class _Captured(Exception):
    pass


def _exec_while_loop(cond_fun, body_fun, init_val):
    """defining semantics of lax.while_loop (the line search is bounded by 9 iterations)"""
    val = init_val
    n = 0
    while bool(cond_fun(val)):
        val = body_fun(val)
        n += 1
        if n > 12:
            raise symx.EngineLimit("line search did not terminate in 12 iterations")
    return val


def _select_cond(pred, tf, ff, operand):
    a, b = tf(operand), ff(operand)
    return _JNP.where(pred, a, b)


def _extract_static(w):
    import nifty.re.optimize as opt
    captured = {}

    def capture(cond, body, val):
        captured.update(cond=cond, body=body, val=val)
        raise _Captured()

    rb = _rebind(w)
    rb.update(where=_JNP.where, callback=lambda *a, **k: None, conditional_raise=lambda c, e: None,
              conditional_call=lambda *a, **k: None, hide_strings=lambda x: x, PyTreeString=lambda x: x)
    ls = symx.extract(opt._line_search_successive_halving,
                      rebind=dict(rb, cond=_select_cond, while_loop=_exec_while_loop))
    fs = symx.extract(opt._static_newton_cg, rebind=dict(rb, while_loop=capture, _line_search_successive_halving=ls))
    return fs, ls, captured


def _static_state(pre):
    return {"status": SymInt(z3.IntVal(-2)), "iteration": pre["it"] - 1, "pos": pre["pos"], "energy": pre["energy"],
            "old_energy": INF if pre["old_fval"] is None else pre["old_fval"], "g": pre["g"],
            "nfev": pre["nfev"], "njev": pre["njev"], "nhev": pre["nhev"]}


def _sec_static(chk, cfg):
    chk.assume("A-REAL; A-JAX: where/cond select, while_loop iterates body while cond holds, callbacks have no effect")
    chk.stub("conjugate_gradient._static_cg contract (C15), see section eager")
    w = World()
    fs, ls, captured = _extract_static(w)
    chk.under_contract(fs, note="incl. closure single_newton_cg_step (captured through the while_loop binding)")
    chk.under_contract(ls, note="bounded while_loop executed with its defining semantics")

    def run(ctx):
        ctx.assume(SIZE >= 1)
        x0 = w.sp.atom("x0")
        kw = _kw(cfg)
        old = None if bool(fresh_bool("old_fval_given")) else fresh_real("old_fval0")
        captured.clear()
        try:
            fs(None, x0, fun_and_grad=w.fun_and_grad, hessp=w.hessp, cg=w.cg, old_fval=old, **kw)
            ctx.prove(F_, "compiled minimiser reaches while_loop")
        except _Captured:
            pass
        v0 = captured["val"]
        ctx.prove((v0["energy"] == w.F(x0)) & v0["g"].eq(w.G(x0)) & v0["pos"].eq(x0),
                  "initial state: energy == f(x0), g == grad f(x0), pos == x0")
        ctx.prove(_sb(captured["cond"]({"status": SymInt(z3.IntVal(-2))})) & snot(captured["cond"]({"status": SymInt(z3.IntVal(-1))}))
                  & snot(captured["cond"]({"status": SymInt(z3.IntVal(0))})), "loop continues exactly while status < -1")
        # one step from an arbitrary state satisfying the invariant
        pos = w.sp.fresh("pos")
        energy, g = w.F(pos), w.G(pos)
        ctx.assume(energy <= w.F(x0))
        it = fresh_int("it")
        ctx.assume(it >= 1)
        pre = dict(pos=pos, energy=energy, g=g, old_fval=None if bool(fresh_bool("old_is_inf")) else fresh_real("old_energy"),
                   it=it, nfev=fresh_int("nfev"), njev=fresh_int("njev"), nhev=fresh_int("nhev"))
        w.cg_calls.clear()
        out = captured["body"](_static_state(pre))
        ctx.prove(out["energy"] == w.F(out["pos"]), "step: energy == f(pos) afterwards")
        ctx.prove(out["g"].eq(w.G(out["pos"])), "step: g == grad f(pos) afterwards")
        ctx.prove(w.F(out["pos"]) <= energy, "step: the objective does not increase")
        ctx.prove(out["iteration"] == it, "step: iteration counter advances by one")
        ctx.prove(implies(out["status"] == -1, out["pos"].eq(pos)), "step: an aborted line search leaves the position unchanged")
        # progress under negative curvature
        gg, curv = g.s_vdot(g), g.s_vdot(w.hessp(pos, g))
        if (gg > 0) & (curv < 0):
            res = w.cg_calls[0][3]
            a = sorted(g.c, key=repr)[0]
            t = SymReal(z3.simplify(res.x.c.get(a, z3.RealVal(0)) / g.c[a]))
            trials = [pos - (0.5 ** k) * (t * g) for k in range(6)]
            lowered = sor(*[w.F(tr) <= energy for tr in trials])
            first = F_
            nothing_before = T_
            for tr in trials:
                first = first | (nothing_before & (w.F(tr) <= energy) & out["pos"].eq(tr))
                nothing_before = nothing_before & (w.F(tr) > energy)
            ctx.prove(implies(lowered, first),
                      "negative curvature: if a trial pos - 2^-k t g does not raise the energy the first such trial is adopted")
            ctx.prove(implies(lowered, out["status"] != -1), "negative curvature: no abort while a trial step length works")
            ctx.cover("negative curvature step checked")
    chk.explore(run, tag=str(cfg).replace(" ", ""), maxpaths=20000, covers=["negative curvature step checked"])


# ----------------------------------------------------------------------------- relational
class Rel:
    def __init__(self, ctx, w, vc, body, kw):
        self.ctx, self.w, self.vc, self.body, self.kw = ctx, w, vc, body, kw

    def step(self):
        n_eager = len(self.w.cg_calls)
        out = self.body(_static_state(self.vc.pre))
        calls = self.w.cg_calls
        if n_eager >= 1 and len(calls) > n_eager:
            ke, ks = calls[0][2], calls[n_eager][2]
            ctx = self.ctx
            ctx.prove(_sb(ke["resnorm"] == ks["resnorm"]) & _sb(ke["norm_ord"] == ks["norm_ord"])
                      & _sb(ke["_raise_nonposdef"] == ks["_raise_nonposdef"]),
                      "inner CG is called with the same resnorm, norm_ord and _raise_nonposdef")
            ae, as_ = ke["absdelta"], ks["absdelta"]
            if ae is None:
                same = _sb(as_ is None) if as_ is None else _sb(as_ <= 0)
            else:
                same = F_ if as_ is None else _sb(ae == as_)
            ctx.prove(same, "inner CG is called with an equivalent absdelta (None is equivalent to a value <= 0, "
                            "as the CG energy never increases: C15)")
        return out

    def at_tail(self, L):
        ctx = self.ctx
        out = self.step()
        i = L["i"]
        ctx.prove(out["pos"].eq(L["pos"]) & out["g"].eq(L["g"]) & (out["energy"] == L["energy"]),
                  "iteration (no exit): compiled pos, g, energy equal the eager ones")
        ctx.prove(out["iteration"] == i, "iteration (no exit): same iteration count")
        ctx.prove(_sb(out["status"] < -1) == _sb(i < self.kw["maxiter"]),
                  "iteration (no exit): compiled loop continues exactly when the eager loop has iterations left")
        ctx.prove(implies(i >= self.kw["maxiter"], out["status"] == i),
                  "iteration (no exit): at the iteration limit both report status == maxiter")
        ctx.cover("iteration compared (no exit)")

    def at_break(self, res):
        ctx = self.ctx
        out = self.step()
        ctx.prove(out["status"] == res.status, "iteration (exit): compiled verdict (status) equals the eager verdict")
        ctx.prove(out["pos"].eq(res.x) & (out["energy"] == res.fun) & out["g"].eq(res.jac),
                  "iteration (exit): compiled result equals the eager result")
        ctx.cover("iteration compared (exit)")


def _sec_rel(chk, cfg):
    chk.assume("A-REAL; A-JAX")
    chk.lemma("induction over iterations: equal initial states and equal steps from every invariant state give equal runs")
    chk.lemma("C15: the CG energy never increases, hence absdelta <= 0 never triggers and is equivalent to absdelta=None")
    w = World()
    vc = VE(w)
    f = _extract_eager(w, vc)
    fs, ls, captured = _extract_static(w)
    chk.under_contract(f)
    chk.under_contract(fs)
    chk.under_contract(ls)

    def run(ctx):
        ctx.assume(SIZE >= 1)
        x0 = w.sp.atom("x0")
        vc.x0 = x0
        kw = _kw(cfg)
        ctx.assume(kw["maxiter"] >= 1)
        old = None if bool(fresh_bool("old_fval_given")) else fresh_real("old_fval0")
        captured.clear()
        try:
            fs(None, x0, fun_and_grad=w.fun_and_grad, hessp=w.hessp, cg=w.cg, old_fval=old, **kw)
        except _Captured:
            pass
        rel = Rel(ctx, w, vc, captured["body"], kw)
        vc.rel = rel
        try:
            res = f(None, x0, fun_and_grad=w.fun_and_grad, hessp=w.hessp, cg=w.cg, old_fval=old, **kw)
        finally:
            vc.rel = None
        L = vc.last_locals
        if "naive_ls_it" not in L:
            return      # loop exhausted right after the havoc state
        rel.at_break(res)
    chk.explore(run, tag=str(cfg).replace(" ", ""), maxpaths=40000,
                covers=["iteration compared (no exit)", "iteration compared (exit)"])


# ----------------------------------------------------------------------------- trust region
class _Quot:
    """a / b with IEEE semantics for b == 0 (+-inf, NaN) made explicit: only the comparisons the code uses"""

    def __init__(self, a, b):
        self.a, self.b = a, b

    def __gt__(self, c):
        a, b = self.a, self.b
        return ((b != 0) & (SymReal(a.t / b.t) > c)) | ((b == 0) & (a > 0))

    def __lt__(self, c):
        a, b = self.a, self.b
        return ((b != 0) & (SymReal(a.t / b.t) < c)) | ((b == 0) & (a < 0))


class _Den(SymReal):
    __slots__ = ()

    def __rtruediv__(self, o):
        return _Quot(o, self)


class _Pred(SymReal):
    __slots__ = ()

    def __rsub__(self, o):
        return _Den((o - SymReal(self.t)).t)


def _tree_where(c, a, b):
    if isinstance(a, tuple):
        return tuple(_tree_where(c, x, y) for x, y in zip(a, b))
    return _JNP.where(c, a, b)


def sec_trust_ncg(chk):
    import nifty.re.optimize as opt
    from nifty.re.conjugate_gradient import _QuadSubproblemResult
    chk.assume("A-REAL except for the trust-region ratio rho = actual/predicted, whose division by zero is modelled with "
               "IEEE semantics (+-inf, NaN) by an explicit case split")
    chk.stub("ASSUMED (not verified): _cg_steihaug_subproblem returns pred_f <= cur_val (the quadratic model never "
             "increases along the Steihaug-CG iterates) and an arbitrary step")
    w = World()
    captured = {}

    class _Lax:
        @staticmethod
        def while_loop(cond, body, val):
            captured.update(cond=cond, body=body, val=val)
            raise _Captured()

    rb = _rebind(w)
    rb.update(lax=_Lax, where=_tree_where, callback=lambda *a, **k: None)
    ft = symx.extract(opt._trust_ncg, rebind=rb)
    chk.under_contract(ft, note="incl. closures _trust_region_body_f and _trust_region_cond_f (captured through lax.while_loop)")

    for with_absdelta in (False, True):
        def run(ctx, with_absdelta=with_absdelta):
            ctx.assume((SIZE >= 1) & (_JNP._fi.eps > 0))
            x0 = w.sp.atom("x0")

            def subproblem(f_k, g_k, hessp_at, **kw):
                pred = _Pred(fresh_real("pred_f").t)
                ctx.assume(SymReal(pred.t) <= f_k)       # assumed contract
                return _QuadSubproblemResult(step=w.sp.fresh("step"), hits_boundary=fresh_bool("hits"), pred_f=pred,
                                             nit=fresh_int("sp_nit"), nfev=0, njev=0, nhev=fresh_int("sp_nhev"),
                                             success=True)
            eta = fresh_real("eta")
            ctx.assume((eta >= 0) & (eta < 0.25))
            kw = dict(maxiter=fresh_int("maxiter"), gtol=fresh_real("gtol"), max_trust_radius=fresh_real("max_tr"),
                      initial_trust_radius=fresh_real("tr0"), eta=eta, subproblem=subproblem,
                      fun_and_grad=w.fun_and_grad, hessp=w.hessp, energy_reduction_factor=fresh_real("erf"),
                      old_fval=fresh_real("old_fval"))
            if with_absdelta:
                kw["absdelta"] = fresh_real("absdelta")
            captured.clear()
            try:
                ft(None, x0, **kw)
                ctx.prove(F_, "trust_ncg reaches lax.while_loop")
            except _Captured:
                pass
            s0 = captured["val"]
            ctx.prove((s0.fun == w.F(x0)) & s0.jac.eq(w.G(x0)) & s0.x.eq(x0),
                      "initial state: fun == f(x0), jac == grad f(x0), x == x0")
            # one body step from an arbitrary consistent state
            xk = w.sp.fresh("x_k")
            st = s0._replace(x=xk, fun=w.F(xk), jac=w.G(xk), jac_magnitude=w.norm(w.G(xk)), nit=fresh_int("nit"),
                             trust_radius=fresh_real("tr"), old_fval=fresh_real("old"), status=SymInt(z3.IntVal(0)),
                             nfev=fresh_int("nfev"), njev=fresh_int("njev"), nhev=fresh_int("nhev"))
            ctx.assume(st.fun <= w.F(x0))
            out = captured["body"](st)
            ctx.prove(out.fun == w.F(out.x), "step: fun == f(x) afterwards")
            ctx.prove(out.jac.eq(w.G(out.x)), "step: jac == grad f(x) afterwards")
            ctx.prove(w.F(out.x) <= st.fun, "step: a proposal is accepted only if it does not raise the objective")
            ctx.prove(out.nit == st.nit + 1, "step: iteration counter advances")
            moved = snot(out.x.eq(xk))
            ctx.prove(implies(moved, w.F(out.x) < st.fun) | out.x.eq(xk),
                      "step: if the position changes the objective strictly decreases")
        chk.explore(run, tag="absdelta" if with_absdelta else "noabsdelta", maxpaths=20000)


def _native(kind):
    def fn(ob):
        import json
        import os
        import subprocess
        import sys
        here = os.path.dirname(os.path.abspath(__file__))
        p = subprocess.run([sys.executable, os.path.join(here, "native", "C17_native.py"), kind],
                           capture_output=True, text=True, timeout=900)
        try:
            return json.loads(p.stdout.strip().splitlines()[-1])
        except Exception:  # noqa: BLE001
            return dict(reproduced=False, error=p.stderr[-500:])
    return fn


REPLAY = {
    "compiled verdict (status) equals": _native("result"),
    "compiled result equals": _native("result"),
    "equivalent absdelta": _native("result"),
    "not above the start": _native("uphill"),
    "does not increase": _native("uphill"),
    "negative curvature": _native("noprogress"),
}

SECTIONS = [_mk(_sec_eager, "eager", c, i) for i, c in enumerate(CONFIGS)] \
    + [_mk(_sec_static, "compiled", c, i) for i, c in enumerate(CONFIGS)] \
    + [_mk(_sec_rel, "eager_vs_compiled", c, i) for i, c in enumerate(CONFIGS)] + [sec_trust_ncg]
