"""C28 Correlated-field models: implementations agree and scale correctly.

Both implementations are run on the *same symbols* for every latent parameter:
  classic  CorrelatedFieldMaker(...).finalize()  -- the operator graph itself, on fields of sympy elements (Engine O; Hartley re-bound
           to its explicit sum as in C09)
  JAX      jft.CorrelatedFieldMaker(...).finalize() -- its jaxpr, evaluated on the same symbols (Engine J)
  A  agreement: F_classic(xi) == F_jax(xi) entry by entry, as identities in all latent parameters
  N  normalisation: with the hyper-parameters fixed (symbols) the field is affine in the excitations, F = c + M xi; with white
     excitations the expected spatial variance about the spatial mean is therefore exactly
         (1/N) sum_x sum_k (M_xk - mean_x M_xk)^2
     and must equal total_fluctuation^2 of the model itself (classic: CorrelatedFieldMaker.total_fluctuation evaluated on the same
     hyper-parameter symbols; JAX: the documented product formula with the model's own fluctuation and zero-mode amplitudes);
     per space: the expected variance along the space (slice) and of the average over the other spaces (average) equal
     slice_fluctuation^2 and average_fluctuation^2
  P  amplitude post-condition (JAX NonParametricAmplitude / renormalised MaternAmplitude, both kinds): a_0 == total volume and
     sum_{k>0} multiplicity_k a_k^2 == (fluctuations * total volume)^2
The float constants of the two code bases (log k, moment-matched log-normal parameters) agree only to rounding, so most agreement
identities are decided by exact evaluation at rational points with 40 digits (back end 'sympy-points', relative 1e-12), the
normalisation identities mostly symbolically.
"""
import numpy as np
import sympy as sp

from vf import jaxsym, objx
from vf.objx import SX, exprs

META = dict(
    title="Correlated-field models: implementations agree and scale correctly",
    level="other",
    design_ref="DESIGN.md section 9.7, C28",
    technique="relational contract on the two real implementations evaluated on the same sympy symbols for every latent parameter (classic "
              "operator graph on symbolic fields, JAX model through its jaxpr); normalisation as a post-condition: the exact expected "
              "spatial variance from the field's linear form in the excitations equals the model's own fluctuation formulas; identities "
              "decided by sympy (symbolic reduction, or exact 40-digit evaluation at rational points where float constants differ by rounding)",
    text="On the enumerated regular grids (1-D with 4, 6 and 8 pixels, 3x3, 4x3, 2x3x2 and 2x2x3 with equal and unequal distances, both Hartley conventions), for "
         "non-parametric spectra with and without flexibility and asperity, Matern spectra, and products of two spaces: the classic and JAX "
         "models return the same field as functions of all latent parameters; for arbitrary fixed hyper-parameters the expected spatial "
         "variance about the spatial mean equals the square of the model's total fluctuation, and slice / average fluctuations of product "
         "models follow the documented product formulas; the JAX amplitude models (amplitude and power kind, renormalised Matern) have "
         "zero mode equal to the volume and non-zero modes normalised to (fluctuations x volume)^2.",
    note="Universal in the latent parameters, enumerated in grids (resolutions and volumes are varied, not quantified). Spherical "
         "(HEALPix) models need jaxbind's SHT, which is not installed: not covered. Agreement identities are mostly decided at exact "
         "rational points ('sympy-points': a randomised identity test over Q at 40 digits, not a symbolic proof) because the float "
         "constants of the two code bases agree only to rounding. A-JAXTRACE, A-REAL, A-FFT as elsewhere.",
    explanation="level 'other': symbolic relational identities on enumerated grids",
)

NP_FULL = dict(fluctuations=(1.0, 0.1), flexibility=(1.0, 0.1), asperity=(0.2, 0.02), loglogavgslope=(-1., 0.1))
NP_NOASP = dict(fluctuations=(3.0, 2.0), flexibility=(3.0, 2.0), asperity=None, loglogavgslope=(4.0, 1.0))
NP_RIGID = dict(fluctuations=(2.0, 0.5), flexibility=None, asperity=None, loglogavgslope=(-3.0, 0.5))
MATERN = dict(scale=(3.0, 2.0), cutoff=(0.1, 0.01), loglogslope=(5.0, 0.5))
OFFSET = (0.1, 0.1)


def _build(spaces, offset_mean=0., offset_std=OFFSET):
    """spaces: list of (shape, distances, kind, kwargs, prefix); returns (classic maker, classic op, jax maker, jax model)"""
    import jax
    jax.config.update("jax_enable_x64", True)
    import nifty.cl as ift
    import nifty.re as jft
    cfm = ift.CorrelatedFieldMaker("")
    jcfm = jft.CorrelatedFieldMaker("")
    cfm.set_amplitude_total_offset(offset_mean, offset_std)
    jcfm.set_amplitude_total_offset(offset_mean=offset_mean, offset_std=offset_std)
    for shape, dist, kind, kw, prefix in spaces:
        if kind == "matern":
            cfm.add_fluctuations_matern(ift.RGSpace(shape, dist), **kw, prefix=prefix)
            jcfm.add_fluctuations_matern(shape, distances=dist, **kw, non_parametric_kind="amplitude", renormalize_amplitude=False, prefix=prefix)
        else:
            cfm.add_fluctuations(ift.RGSpace(shape, dist), **kw, prefix=prefix)
            jcfm.add_fluctuations(shape, distances=dist, **kw, non_parametric_kind="power", harmonic_type="fourier", prefix=prefix)
    return cfm, cfm.finalize(prior_info=0), jcfm, jcfm.finalize()


def _latents(jcf):
    import jax
    import nifty.re as jft
    pos = jft.random_like(jax.random.PRNGKey(0), jcf.domain)
    sym = {k: jaxsym.symbols(np.shape(v), k, real=True) for k, v in pos.items()}
    return pos, sym


def _classic_input(ift, dom, sym):
    fl = {}
    for k in dom.keys():
        v = sym[k]
        if k.endswith("spectrum"):
            v = v.T                                        # the JAX model stores (step, component), the classic one (component, step)
        arr = np.empty(v.size, dtype=object)
        for i, e in enumerate(np.asarray(v, dtype=object).ravel()):
            arr[i] = SX(e)
        fl[k] = ift.Field(dom[k], arr.reshape(dom[k].shape))
    return ift.MultiField.from_dict(fl, dom)


def _run_both(spaces):
    import nifty.cl as ift
    from contracts.C09 import _explicit_transforms
    cfm, cf, jcfm, jcf = _build(spaces)
    pos, sym = _latents(jcf)
    if set(pos.keys()) != set(cf.domain.keys()):
        raise AssertionError(f"latent keys differ: {sorted(pos.keys())} vs {sorted(cf.domain.keys())}")
    out, _ = jaxsym.sym_call(jcf, (pos,), (sym,))
    f_re = [sp.sympify(e) for e in np.asarray(out, dtype=object).ravel()]
    with objx.patched(), objx.patched_bincount(), _explicit_transforms():
        x = _classic_input(ift, cf.domain, sym)
        f_cl = exprs(cf(x).asnumpy())
        hyper = {}
        try:
            hyper["total"] = exprs(cfm.total_fluctuation.force(x).asnumpy())[0]
            if len(spaces) > 1:
                for i in range(len(spaces)):
                    hyper[f"slice{i}"] = exprs(cfm.slice_fluctuation(i).force(x).asnumpy())[0]
                    hyper[f"average{i}"] = exprs(cfm.average_fluctuation(i).force(x).asnumpy())[0]
        except NotImplementedError:
            pass
    return dict(cfm=cfm, cf=cf, jcfm=jcfm, jcf=jcf, pos=pos, sym=sym, f_re=f_re, f_cl=f_cl, hyper=hyper, shape=tuple(np.shape(out)))


def _eq_fast(a, b, seed, n=8, seconds=2):
    """a == b ?  small expressions: objx.eq_status (symbolic reduction first).  Large ones: both sides are compiled with mpmath (40
    digits) and compared at n exact rational points, relative 1e-12 of |a| + |b| (the float constants of the two code bases agree
    only to rounding): 'refuted' with the witness point, or 'discharged'/'sympy-points'."""
    import random
    import mpmath
    a, b = sp.sympify(a), sp.sympify(b)
    if a == b:
        return "discharged", "sympy", ""
    if sp.count_ops(a) + sp.count_ops(b) < 150:
        return objx.eq_status(a, b, simplify_seconds=seconds, seed=seed)
    syms = sorted(a.free_symbols | b.free_symbols, key=str)
    fa, fb = sp.lambdify(syms, a, "mpmath"), sp.lambdify(syms, b, "mpmath")
    rnd = random.Random(seed)
    worst = 0.
    with mpmath.workdps(40):
        for _ in range(n):
            pt = [sp.Rational(rnd.randint(-200, 200), 100) for _ in syms]
            args = [mpmath.mpf(int(q.p)) / mpmath.mpf(int(q.q)) for q in pt]
            va, vb = fa(*args), fb(*args)
            scale = abs(va) + abs(vb)
            if not (abs(va - vb) <= mpmath.mpf("1e-12") * scale):
                return "refuted", "sympy", f"residue a - b is {mpmath.nstr(va - vb, 8)} (a = {mpmath.nstr(va, 12)}, b = {mpmath.nstr(vb, 12)}) at {{{', '.join(f'{k}: {v}' for k, v in zip(syms, pt))}}}"
            worst = max(worst, float(abs(va - vb) / scale) if scale else 0.)
    return "discharged", "sympy-points", f"equal at {n} exact rational points with 40 digits (largest relative difference {worst:.1e})"


def _agree(chk, label, spaces, seconds=2):
    from nifty import config
    r = _run_both(spaces)
    bad, undecided, backends = [], [], set()
    if len(r["f_re"]) != len(r["f_cl"]):
        chk.obligation(f"{label}: both models return a field of the same size", "refuted", backend="identity", detail=f"{len(r['f_cl'])} vs {len(r['f_re'])}")
        return r
    for i, (a, b) in enumerate(zip(r["f_cl"], r["f_re"])):
        st, be, det = _eq_fast(a, b, chk.seed + i, seconds=seconds)
        backends.add(be)
        if st == "refuted":
            bad.append((i, det))
        elif st != "discharged":
            undecided.append((i, det))
    status = "refuted" if bad else ("undecided" if undecided else "discharged")
    be = "sympy-points" if "sympy-points" in backends else "sympy"
    det = (bad or undecided or [("", "")])[0]
    chk.obligation(f"{label} [{config._config['hartley_convention']}]: classic field == JAX field for all latent parameters ({len(r['f_cl'])} pixels)", status, backend=be,
                   detail=f"pixel {det[0]}: {det[1]}"[:600] if (bad or undecided) else "", model=_witness(det[1]) if bad else None)
    return r


def _witness(detail):
    import re
    m = re.search(r"at \{(.*)\}", detail or "")
    if not m:
        return None
    out = {}
    for kv in m.group(1).split(", "):
        k, _, v = kv.partition(": ")
        out[k] = v
    return out


CONFIGS = [
    ("non-parametric RG(4) d=0.1, flexibility+asperity", [((4,), 0.1, "np", NP_FULL, "")]),
    ("non-parametric RG(6) d=0.5, flexibility+asperity", [((6,), 0.5, "np", NP_FULL, "")]),
    ("non-parametric RG(6) d=2.0, flexibility only", [((6,), 2.0, "np", NP_NOASP, "")]),
    ("non-parametric RG(3,3) d=5.0, flexibility+asperity", [((3, 3), 5.0, "np", NP_FULL, "")]),
    ("non-parametric RG(6) d=0.5, slope only", [((6,), 0.5, "np", NP_RIGID, "")]),
    ("non-parametric RG(2,3,2) d=(0.5,0.25,1.0), flexibility only", [((2, 3, 2), (0.5, 0.25, 1.0), "np", NP_NOASP, "")]),
    ("non-parametric RG(4,6) d=(3,2) (equal extents, later axis finer), slope only", [((4, 6), (3., 2.), "np", NP_RIGID, "")]),
    ("Matern RG(4) d=0.1", [((4,), 0.1, "matern", MATERN, "")]),
    ("Matern RG(3,3) d=5.0", [((3, 3), 5.0, "matern", MATERN, "")]),
    ("product RG(4) d=0.25 x RG(4) d=2.0", [((4,), 0.25, "np", NP_FULL, "space0"), ((4,), 2.0, "np", NP_NOASP, "space1")]),
]
THOROUGH = [
    ("non-parametric RG(4,3) d=(0.5,0.25), flexibility+asperity", [((4, 3), (0.5, 0.25), "np", NP_FULL, "")]),
    ("non-parametric RG(8) d=0.125, flexibility+asperity", [((8,), 0.125, "np", NP_FULL, "")]),
    ("Matern RG(6) d=0.5", [((6,), 0.5, "matern", MATERN, "")]),
    ("Matern RG(2,2,3) d=(1.0,0.5,0.25)", [((2, 2, 3), (1.0, 0.5, 0.25), "matern", MATERN, "")]),
    ("product RG(3,3) d=0.1 x RG(4) d=1.0", [((3, 3), 0.1, "np", NP_FULL, "space0"), ((4,), 1.0, "np", NP_FULL, "space1")]),
]


def _configs(chk, which):
    """the configuration(s) handled by one section (sections run in parallel processes)"""
    allc = CONFIGS + THOROUGH
    if which >= len(allc) or (which >= len(CONFIGS) and chk.tier != "thorough"):
        if which >= len(CONFIGS):
            chk.note("thorough-tier configuration: skipped in the quick tier")
        return []
    return [allc[which]]


def _agree_section(chk, which):
    import nifty.cl as ift
    import nifty.re as jft
    from nifty import config
    from nifty.cl.library import correlated_fields as ccf
    from nifty.re import correlated_field as rcf
    for f in (ccf.CorrelatedFieldMaker.finalize, ccf.CorrelatedFieldMaker.add_fluctuations, ccf.CorrelatedFieldMaker.add_fluctuations_matern,
              rcf.CorrelatedFieldMaker.finalize, rcf.NonParametricAmplitude.__call__, rcf.MaternAmplitude.__call__, rcf.hartley):
        chk.under_contract(f)
    chk.assume("A-JAXTRACE: the jaxpr recorded by jax.make_jaxpr for example latents of the model's shapes is the JAX model")
    chk.assume("A-FFT: the Hartley back ends compute the explicit sums they are re-bound to (C09)")
    old = config._config["hartley_convention"]
    try:
        for conv in ("non_canonical_hartley", "canonical_hartley"):
            config.update("hartley_convention", conv)
            jft.config.update("hartley_convention", conv)
            for name, spaces in _configs(chk, which):
                if conv == "canonical_hartley" and chk.tier == "quick" and len(spaces) == 1 and spaces[0][0] not in ((4,), (3, 3), (2, 3, 2), (4, 6)):
                    continue
                try:
                    _agree(chk, f"agree: {name}", spaces)
                except Exception as e:  # noqa: BLE001
                    chk.obligation(f"agree: {name} [{conv}]: both models are built and evaluated", "undecided", backend="engine", detail=f"{type(e).__name__}: {e}"[:400])
    finally:
        config.update("hartley_convention", old)
        jft.config.update("hartley_convention", old)


def _linear_part(F, xi):
    """F affine in xi: returns (M, rest) with F = M xi + rest, checked"""
    M = [[sp.diff(f, s) for s in xi] for f in F]
    for row in M:
        for e in row:
            if any(e.has(s) for s in xi):
                raise AssertionError("the field is not affine in the excitations")
    return M


def _expected_variances(M, shape_by_space):
    """exact expectations for white excitations; M: rows = pixels (C order over the product grid), columns = excitations.
    returns total variance about the spatial mean, and per space (slice, average)"""
    n = len(M)
    ncol = len(M[0])
    A = np.array(M, dtype=object).reshape(tuple(shape_by_space) + (ncol,))      # (n0, n1, ..., k)
    mean_all = A.reshape(n, ncol).sum(axis=0) / n
    total = sum(((A.reshape(n, ncol) - mean_all) ** 2).ravel()) / n
    out = dict(total=total)
    nsp = len(shape_by_space)
    if nsp > 1:
        for i in range(nsp):
            # slice: E[ mean_all(s^2) - mean_rest((mean over space i of s)^2) ]
            m_i = A.sum(axis=i) / shape_by_space[i]
            out[f"slice{i}"] = sum((A ** 2).ravel()) / n - sum((m_i ** 2).ravel()) / (n // shape_by_space[i])
            # average: r = mean over the other spaces; variance of r along space i about its mean
            others = tuple(j for j in range(nsp) if j != i)
            r = A.sum(axis=others) / (n // shape_by_space[i])                     # (n_i, k)
            rm = r.sum(axis=0) / shape_by_space[i]
            out[f"average{i}"] = sum(((r - rm) ** 2).ravel()) / shape_by_space[i]
    return out


def _decide(chk, label, lhs, rhs, seconds=20):
    st, be, det = objx.eq_status(lhs, rhs, simplify_seconds=seconds, seed=chk.seed)
    chk.obligation(label, st, backend=be, detail=det[:500] if st != "discharged" or be != "sympy" else "", model=_witness(det) if st == "refuted" else None)


def _normalisation_section(chk, which):
    from nifty.cl.library import correlated_fields as ccf
    chk.under_contract(ccf.CorrelatedFieldMaker.total_fluctuation.fget)
    chk.under_contract(ccf.CorrelatedFieldMaker.slice_fluctuation)
    chk.under_contract(ccf.CorrelatedFieldMaker.average_fluctuation)
    chk.lemma("L-WHITE: for F = c + M xi with E[xi xi^T] = 1 the expectation of any quadratic form of F - E F is the corresponding sum of squares of M")
    for name, spaces in _configs(chk, which):
        if any(s[2] == "matern" for s in spaces):
            continue                       # the Matern model has no predicted fluctuation (its amplitude is not normalised)
        try:
            r = _run_both(spaces)
        except Exception as e:  # noqa: BLE001
            chk.obligation(f"normalisation: {name}: both models are built and evaluated", "undecided", backend="engine", detail=f"{type(e).__name__}: {e}"[:400])
            continue
        xi_keys = [k for k in r["sym"] if k.endswith("xi")]
        xi = [s for k in xi_keys for s in np.asarray(r["sym"][k], dtype=object).ravel()]
        grid_shapes = [tuple(s[0]) for s in spaces]
        npix = [int(np.prod(s)) for s in grid_shapes]
        # the model's own prediction (JAX): product formula with its own fluctuation and zero-mode amplitudes
        flu = []
        for amp in r["jcfm"]._fluctuations:
            e, _ = jaxsym.sym_call(amp.fluctuations, (r["pos"],), (r["sym"],))
            flu.append(sp.sympify(np.asarray(e, dtype=object).ravel()[0]))
        azm, _ = jaxsym.sym_call(r["jcfm"].azm, (r["pos"],), (r["sym"],))
        azm = sp.sympify(np.asarray(azm, dtype=object).ravel()[0])
        pred_re = {}
        if len(flu) == 1:
            pred_re["total"] = flu[0]
        else:
            q = 1
            for f in flu:
                q = q * (1 + (f / azm) ** 2)
            pred_re["total"] = sp.sqrt(q - 1) * azm
            for i in range(len(flu)):
                q = 1
                for j, f in enumerate(flu):
                    q = q * ((f / azm) ** 2 if j == i else 1 + (f / azm) ** 2)
                pred_re[f"slice{i}"] = sp.sqrt(q) * azm
                pred_re[f"average{i}"] = flu[i]
        for impl, F, pred in (("classic", r["f_cl"], r["hyper"]), ("JAX", r["f_re"], pred_re)):
            try:
                M = _linear_part(F, xi)
            except AssertionError as e:
                chk.obligation(f"normalisation: {name}: {impl}: the field is affine in the excitations for fixed hyper-parameters", "refuted", backend="sympy", detail=str(e))
                continue
            chk.obligation(f"normalisation: {name}: {impl}: the field is affine in the excitations for fixed hyper-parameters", "discharged", backend="sympy")
            ev = _expected_variances(M, npix)
            for key in sorted(ev):
                if key not in pred:
                    continue
                what = dict(total="expected spatial variance about the spatial mean == total_fluctuation^2").get(
                    key, f"expected {'variance along' if key.startswith('slice') else 'variance of the average over the other spaces along'} space {key[-1]} == "
                         f"{'slice' if key.startswith('slice') else 'average'}_fluctuation({key[-1]})^2")
                _decide(chk, f"normalisation: {name}: {impl}: {what}", ev[key], pred[key] ** 2)


def _amplitudes_section(chk, which):
    """post-condition of the JAX amplitude models, both kinds"""
    import jax
    jax.config.update("jax_enable_x64", True)
    import nifty.re as jft
    from nifty.re import correlated_field as rcf
    chk.under_contract(rcf.NonParametricAmplitude.__call__)
    chk.under_contract(rcf.MaternAmplitude.__call__)
    for shape, dist in [(((4,), 0.1), ((6,), 0.5), ((3, 3), 5.0), ((4, 3), (0.5, 0.25)))[which]]:
        for kind in ("amplitude", "power"):
            for what, kw in (("non-parametric", NP_FULL), ("non-parametric without deviations", NP_RIGID), ("Matern renormalised", MATERN)):
                jcfm = jft.CorrelatedFieldMaker("")
                jcfm.set_amplitude_total_offset(offset_mean=0., offset_std=OFFSET)
                if what.startswith("Matern"):
                    jcfm.add_fluctuations_matern(shape, distances=dist, **kw, non_parametric_kind=kind, renormalize_amplitude=True)
                else:
                    jcfm.add_fluctuations(shape, distances=dist, **kw, non_parametric_kind=kind, harmonic_type="fourier")
                amp = jcfm._fluctuations[0]
                grid = amp.grid
                pos = jft.random_like(jax.random.PRNGKey(1), amp.domain)
                sym = {k: jaxsym.symbols(np.shape(v), k, real=True) for k, v in pos.items()}
                a, _ = jaxsym.sym_call(amp, (pos,), (sym,))
                a = [sp.sympify(e) for e in np.asarray(a, dtype=object).ravel()]
                scl = amp.scale if what.startswith("Matern") else amp.fluctuations
                f, _ = jaxsym.sym_call(scl, (pos,), (sym,))
                f = sp.sympify(np.asarray(f, dtype=object).ravel()[0])
                mult = np.asarray(grid.harmonic_grid.mode_multiplicity)
                vol = objx._float_literal(float(grid.total_volume))
                lab = f"amplitudes: {what} ({kind}) on RG{shape} d={dist}"
                _decide(chk, f"{lab}: zero mode == total volume", a[0], vol, seconds=5)
                ok = int(mult.sum()) == int(np.prod(shape)) and len(mult) == len(a)
                chk.obligation(f"{lab}: one amplitude per distinct mode length and the multiplicities add up to the number of modes", "discharged" if ok else "refuted", backend="identity")
                _decide(chk, f"{lab}: sum_(k>0) multiplicity_k a_k^2 == (fluctuations * total volume)^2", sum(int(m) * e ** 2 for m, e in zip(mult[1:], a[1:])), (f * vol) ** 2)


def _native_agree(name, spaces, conv):
    """replay of an agreement refutation: both real models evaluated in floating point at the witness latents"""
    def run(ob):
        import nifty.cl as ift
        import nifty.re as jft
        from nifty import config
        model = ob.get("model") or {}
        old = config._config["hartley_convention"]
        try:
            config.update("hartley_convention", conv)
            jft.config.update("hartley_convention", conv)
            cfm, cf, jcfm, jcf = _build(spaces)
            pos, _ = _latents(jcf)
            vals = {}
            for k, v in pos.items():
                shp = np.shape(v)
                n = int(np.prod(shp, dtype=int))
                names = [f"{k}{i}" if n > 1 or shp != () else k for i in range(n)]
                vals[k] = np.array([float(sp.Rational(model.get(nm, "0"))) for nm in names]).reshape(shp)
            got_re = np.asarray(jcf({k: np.asarray(v) for k, v in vals.items()})).ravel()
            x = ift.MultiField.from_dict({k: ift.makeField(cf.domain[k], vals[k].T if k.endswith("spectrum") else vals[k]) for k in cf.domain.keys()}, cf.domain)
            got_cl = cf(x).asnumpy().ravel()
        finally:
            config.update("hartley_convention", old)
            jft.config.update("hartley_convention", old)
        dev = float(np.max(np.abs(got_cl - got_re) / (np.abs(got_cl) + np.abs(got_re) + 1e-300)))
        return dict(reproduced=bool(dev > 1e-9), how="both real models evaluated with floats at the witness latents", latents={k: v.tolist() for k, v in vals.items()},
                    classic=got_cl.tolist(), jax=got_re.tolist(), max_relative_deviation=dev)
    return run


REPLAY = {f"agree: {name} [{conv}]": _native_agree(name, spaces, conv) for name, spaces in CONFIGS + THOROUGH for conv in ("non_canonical_hartley", "canonical_hartley")}


def _mk(fn, name, which):
    def sec(chk):
        return fn(chk, which)
    sec.__name__ = f"sec_{name}_{which}"
    sec.__doc__ = fn.__doc__
    return sec


SECTIONS = ([_mk(_agree_section, "agree", i) for i in range(len(CONFIGS) + len(THOROUGH))]
            + [_mk(_normalisation_section, "normalisation", i) for i in range(len(CONFIGS) + len(THOROUGH))
               if not any(s[2] == "matern" for s in (CONFIGS + THOROUGH)[i][1])]
            + [_mk(_amplitudes_section, "amplitudes", i) for i in range(4)])
