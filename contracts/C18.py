"""C18 Variational samples have the right distribution.

White noise is re-bound to symbols, the conjugate gradient to an exact solve (A-CGEXACT); a residual sample is then a linear form
r = c + C xi in the noise and, by lemma L-COV, its mean is c and its covariance C C^T.  Contracts (from the property):
  classic  kl_energies.draw_samples / SampledKLEnergy(...).samples:  c == 0,  C C^T * M(m) == 1 with M the posterior metric at the
           expansion point m (J^T N^-1 J + 1), taken independently from the model's sympy Jacobian;  the mirrored sample is the exact
           negative, the sample average is m;  keys given as point estimates have exactly zero residual;  for geoVI with a linear
           model the energy handed to the non-linear minimiser is stationary at the linear sample (so a descent minimiser returns it)
  nifty.re draw_linear_residual(from_inverse=True / False): covariance M^-1 resp. M, zero mean, zero residual on point estimates;
           OptimizeVI.draw_linear_samples returns (r, -r) pairs around the expansion point;
           _nonlinear_residual_vg has value 0 and gradient 0 at the linear sample for an affine transformation (linear model), so
           the geoVI update leaves linear samples unchanged;
           OptimizeVI.draw_samples hands its point_estimates to every sampling routine it calls (call-site precondition of
           draw_linear_residual / nonlinearly_update_residual), in every sample mode.
Universal in means, model parameters, noise covariances and data (symbols); bounded in shapes and in the enumerated models.
"""
import numpy as np
import sympy as sp

from vf import jaxsym, objx
from vf.jaxsym import NoiseFeed, exact_cg, linear_form, sym_call, symbols
from vf.objx import SX, eq_status, exprs

META = dict(
    title="Variational samples have the right distribution",
    level="other",
    design_ref="DESIGN.md section 4, C18",
    technique="contracts 'residual == C xi with zero mean and C C^T == metric(m)^-1', 'mirrored sample == exact negative', 'point-"
              "estimated keys have zero residual', 'linear samples are stationary points of the geoVI update for linear models' on the "
              "real classic classes (Engine O: symbolic fields, white noise as symbols, exact solve for CG) and on the jaxprs of the "
              "real nifty.re sampling functions (Engine J); call-site preconditions of the JAX driver's sampling dispatch checked by "
              "contract stubs in every sample mode",
    text="For linear and mildly non-linear Gaussian models with symbolic parameters: classic MGVI residuals and the JAX "
         "draw_linear_residual are linear in the white noise with zero mean and covariance equal to the inverse posterior metric at "
         "the expansion point (the metric itself when not inverting), mirrored samples are exact negatives, the sample average is "
         "the expansion point, point-estimated parameters get exactly zero residuals, for linear models the geoVI objective is "
         "stationary at the linear sample in both implementations, and the JAX driver passes the configured point estimates to "
         "every sampling routine in every sample mode.",
    note="Universal in all values (symbols); bounded in shapes (2-3 parameters, 2 data points, two keys) and in the enumerated models. "
         "Assumed: A-CGEXACT (CG exact; contract in C14/C15), L-COV. Not checked: convergence of empirical covariances over seeds "
         "(statistical), the non-linear minimiser's convergence (its monotonicity is C17).",
    explanation="level 'other': symbolic identities on the real code for enumerated skeletons, exact solve assumed for CG",
)


def _eq(chk, label, got, want, **kw):
    if len(got) != len(want):
        chk.obligation(label, "refuted", backend="sympy", detail=f"{len(got)} entries, expected {len(want)}")
        return
    worst = ("discharged", "sympy", "")
    for a, b in zip(got, want):
        st = eq_status(sp.sympify(a), sp.sympify(b), n=5, simplify_seconds=4, **kw)
        if st[0] != "discharged":
            worst = st
            break
        if st[1] != "sympy":
            worst = st
    chk.obligation(label, worst[0], backend=worst[1], detail=worst[2])


# ------------------------------------------------------------------------------------------------------------- classic
def sec_classic(chk):
    import nifty.cl as ift
    import nifty.cl.minimization.kl_energies as kle
    import nifty.cl.operators.sampling_enabler as se
    from nifty.cl.minimization.descent_minimizers import DescentMinimizer
    from vf.ofield import ExactCG, MultiWorld, SXNoise, allow_object_dtype, flat, isnan_real, np_proxy
    chk.under_contract(kle.draw_samples)
    chk.under_contract(se.SamplingEnabler.special_draw_sample)
    chk.assume("A-CGEXACT: ConjugateGradient inside SamplingEnabler is replaced by the exact solution (C14 proves its contract)")
    chk.lemma("L-COV: the covariance of C xi for white xi is C C^T")
    ExactCG.ift = ift
    old = se.ConjugateGradient
    se.ConjugateGradient = ExactCG
    noise = SXNoise()
    N = 2

    class Recorder(DescentMinimizer):
        """stands for any descent minimiser: records the energy it is handed and returns it unchanged (what every DescentMinimizer does
        at a stationary point)"""
        seen = []

        def __init__(self):
            pass

        def __call__(self, energy):
            Recorder.seen.append(energy)
            return energy, 0
    try:
        import nifty.cl.minimization.energy_adapter as ea_mod
        with objx.patched(noise), np_proxy(kle, isnan=isnan_real), np_proxy(ea_mod, isnan=isnan_real), allow_object_dtype():
            W = MultiWorld(ift, ("a", "b"), n=N, sign="real")
            a, b = ift.FieldAdapter(W.dt, "a"), ift.FieldAdapter(W.dt, "b")
            u = objx.sx_array((N,), "u", positive=True)
            var = np.cumsum(u)                                         # ordered noise variances (decidable min() in DiagonalOperator)
            Nop = ift.DiagonalOperator(ift.Field(W.dt, var), sampling_dtype=float)
            ninv = [1 / e for e in exprs(var)]
            Mm = objx.sx_array((N,), "r", real=True)                    # a diagonal response keeps the exact solve small
            Rop = ift.DiagonalOperator(ift.Field(W.dt, Mm))
            Rm = sp.diag(*exprs(Mm))
            d = np.array([0.5, -1.25])
            models = {
                "linear: R a + b": (Rop @ a + b, lambda x: list(Rm * sp.Matrix(x["a"]) + sp.Matrix(x["b"])), True),
                "non-linear: exp(a) * b": (a.exp() * b, lambda x: [sp.exp(x["a"][i]) * x["b"][i] for i in range(N)], False),
            }
            allsyms = W.syms["a"] + W.syms["b"]
            xsym = {"a": W.syms["a"], "b": W.syms["b"]}
            for mname, (model, fsym, linear) in models.items():
                lh = ift.GaussianEnergy(data=ift.makeField(W.dom, d), inverse_covariance=Nop.inverse) @ model
                H = ift.StandardHamiltonian(lh, ic_samp="IC", prior_sampling_dtype=float)
                f = fsym(xsym)
                J = sp.Matrix([[sp.diff(fi, s) for s in allsyms] for fi in f])
                Metric = J.T * sp.diag(*ninv) * J + sp.eye(2 * N)
                for pes in ((), ("b",), ("a",)):
                    lab = f"classic: {mname}, point estimates {list(pes)}"
                    noise.src.clear()
                    ift.random.push_sseq_from_seed(7)
                    try:
                        kl = kle.SampledKLEnergy(W.x, H, 1, None, mirror_samples=True, point_estimates=list(pes))
                    finally:
                        ift.random.pop_sseq()
                    sams = [s for s in kl.samples.iterator()]
                    pts = [[e for k in ("a", "b") for e in exprs(s[k].asnumpy())] for s in sams]
                    r0 = [x - m for x, m in zip(pts[0], allsyms)]
                    r1 = [x - m for x, m in zip(pts[1], allsyms)]
                    _eq(chk, f"{lab}: the mirrored sample is the exact negative (the sample average is the expansion point)", [p + q for p, q in zip(r0, r1)], [0] * (2 * N))
                    try:
                        const, C = noise.coefficient_matrix(r0)
                    except ValueError as e:
                        chk.obligation(f"{lab}: the residual is linear in the white noise", "refuted", backend="sympy", detail=str(e)[:300])
                        continue
                    chk.obligation(f"{lab}: the residual is linear in the white noise", "discharged", backend="sympy")
                    _eq(chk, f"{lab}: the residual has zero mean", const, [0] * (2 * N))
                    keep = [i for i, k in enumerate(["a"] * N + ["b"] * N) if k not in pes]
                    frozen = [i for i in range(2 * N) if i not in keep]
                    _eq(chk, f"{lab}: point-estimated keys have exactly zero residual", [r0[i] for i in frozen], [0] * len(frozen))
                    Cs = C.extract(keep, list(range(C.shape[1])))
                    Ms = Metric.extract(keep, keep)
                    _eq(chk, f"{lab}: residual covariance times the posterior metric at the expansion point == identity", list((Cs * Cs.T) * Ms), list(sp.eye(len(keep))))
                ExactCG.discharge(chk, f"classic: {mname}")
                if linear:
                    # geoVI with a linear model: the minimiser is handed an energy that is stationary at the linear sample
                    lab = f"classic: {mname}, geoVI"
                    Recorder.seen = []
                    noise.src.clear()
                    ift.random.push_sseq_from_seed(7)
                    try:
                        kle.SampledKLEnergy(W.x, H, 1, Recorder(), mirror_samples=True)
                    finally:
                        ift.random.pop_sseq()
                    ok = len(Recorder.seen) == 2
                    chk.obligation(f"{lab}: the non-linear minimiser is called once per (mirrored) sample", "discharged" if ok else "refuted", backend="identity",
                                   detail=f"{len(Recorder.seen)} calls")
                    for k, en in enumerate(Recorder.seen):
                        _eq(chk, f"{lab}: sample {k}: the geoVI objective has zero gradient at the linear sample (the update leaves it unchanged)", flat(en.gradient), [0] * (2 * N))
            # ---- SamplingEnabler itself, with and without a preconditioner (the `approximation` of the metric) and from a zero start
            ExactCG.log = []
            lvar = np.cumsum(objx.sx_array((N,), "l", positive=True))                                 # ordered entries (decidable min() in DiagonalOperator)
            Bm = objx.sx_array((N, N), "B", real=True)
            Bop = ift.MatrixProductOperator(W.dt, Bm)
            # likelihood metric B^T diag(l) B: a sandwich cannot be sampled from its inverse directly, so the solver path is taken
            Lop = ift.SandwichOperator.make(Bop, ift.DiagonalOperator(ift.Field(W.dt, lvar), sampling_dtype=float))
            Pop = ift.ScalingOperator(W.dt, 1., float)                                                # prior metric
            avar = np.cumsum(objx.sx_array((N,), "q", positive=True))
            Aop = ift.DiagonalOperator(ift.Field(W.dt, avar))                                         # some positive preconditioner
            Bs = sp.Matrix(N, N, exprs(Bm))
            Mfull = Bs.T * sp.diag(*exprs(lvar)) * Bs + sp.eye(N)
            for cname, kw in (("plain", {}), ("with a preconditioner", dict(approximation=Aop)), ("start_from_zero", dict(start_from_zero=True)),
                              ("start_from_zero with a preconditioner", dict(start_from_zero=True, approximation=Aop))):
                lab = f"classic: SamplingEnabler ({cname})"
                enab = se.SamplingEnabler(Lop, Pop, "IC", **kw)
                noise.src.clear()
                ift.random.push_sseq_from_seed(3)
                try:
                    smp = enab.draw_sample(from_inverse=True)
                finally:
                    ift.random.pop_sseq()
                ExactCG.discharge(chk, lab)
                try:
                    const, C = noise.coefficient_matrix(flat(smp))
                except ValueError as e:
                    chk.obligation(f"{lab}: the sample is linear in the white noise", "refuted", backend="sympy", detail=str(e)[:300])
                    continue
                _eq(chk, f"{lab}: the sample has zero mean", const, [0] * N)
                _eq(chk, f"{lab}: sample covariance times (likelihood metric + prior metric) == identity", list((C * C.T) * Mfull), list(sp.eye(N)))
    finally:
        se.ConjugateGradient = old


# ------------------------------------------------------------------------------------------------------------- nifty.re
def _re_model(jft, jnp, ns, nd, R_, w_, d_, linear=True):
    # a diagonal response R_ (vector) keeps the exact elimination small while still coupling the two leaves
    if linear:
        fwd = lambda x: R_ * x["s"] + x["t"][:nd]  # noqa: E731
    else:
        fwd = lambda x: jnp.exp(R_ * x["s"]) * x["t"][:nd]  # noqa: E731
    dom = {"s": jft.ShapeWithDtype((ns,)), "t": jft.ShapeWithDtype((nd,))}
    return jft.Gaussian(d_, noise_cov_inv=w_).amend(fwd, domain=dom)


def sec_linear_re(chk):
    import jax
    jax.config.update("jax_enable_x64", True)
    import jax.numpy as jnp
    import nifty.re as jft
    from nifty.re import evi
    chk.under_contract(evi.draw_linear_residual)
    chk.under_contract(evi.sample_likelihood)
    chk.under_contract(evi._process_point_estimate)
    chk.assume("A-CGEXACT (exact solve in place of conjugate_gradient.cg); A-REAL; A-JAXTRACE; white noise: nifty.re.evi.random_like re-bound to symbols")
    key = jax.random.PRNGKey(1)
    ns = nd = 2
    R, w, d = symbols((nd,), "R", real=True), symbols((nd,), "w", positive=True), symbols((nd,), "d", real=True)
    ps, pt = symbols((ns,), "ps", real=True), symbols((nd,), "pt", real=True)
    Rm = sp.diag(*list(R))
    allp = list(ps) + list(pt)
    for linear in (True, False):
        if linear:
            f = list(Rm * sp.Matrix(list(ps)) + sp.Matrix(list(pt)))
        else:
            f = [sp.exp((Rm * sp.Matrix(list(ps)))[i]) * pt[i] for i in range(nd)]
        J = sp.Matrix([[sp.diff(fi, s) for s in allp] for fi in f])
        Metric = J.T * sp.diag(*list(w)) * J + sp.eye(ns + nd)
        for pes in ((), ("t",), ("s",)):
            keep = [i for i, k in enumerate(["s"] * ns + ["t"] * nd) if k not in pes]
            frozen = [i for i in range(ns + nd) if i not in keep]
            nxi = nd + len(keep)
            xi = symbols((nxi,), "xi", real=True)
            for from_inverse in (True, False):
                lab = f"linear_re: {'linear' if linear else 'non-linear'} model, point estimates {list(pes)}, from_inverse={from_inverse}"

                def run(R_, w_, d_, ps_, pt_, xi_, linear=linear, pes=pes, from_inverse=from_inverse):
                    lh = _re_model(jft, jnp, ns, nd, R_, w_, d_, linear)
                    old = evi.random_like
                    evi.random_like = NoiseFeed(xi_)
                    try:
                        s, _ = evi.draw_linear_residual(lh, jft.Vector({"s": ps_, "t": pt_}), key, from_inverse=from_inverse, point_estimates=pes, cg=exact_cg)
                    finally:
                        evi.random_like = old
                    return s.tree["s"], s.tree["t"]
                try:
                    (rs, rt), used = sym_call(run, (jnp.ones(nd), jnp.ones(nd), jnp.ones(nd), jnp.ones(ns), jnp.ones(nd), jnp.ones(nxi)), (R, w, d, ps, pt, xi))
                except Exception as e:  # noqa: BLE001
                    chk.obligation(f"{lab}: the sampler runs", "undecided", backend="engine", detail=f"{type(e).__name__}: {e}"[:300])
                    continue
                # frozen leaves come back as zeros of shape (1,)*ndim (they broadcast against the position)
                r = list(np.broadcast_to(jaxsym.to_obj(np.asarray(rs)), (ns,)).ravel()) + list(np.broadcast_to(jaxsym.to_obj(np.asarray(rt)), (nd,)).ravel())
                try:
                    const, C = linear_form(r, list(xi))
                except ValueError as e:
                    chk.obligation(f"{lab}: the residual is linear in the white noise", "refuted", backend="sympy", detail=str(e)[:300])
                    continue
                chk.obligation(f"{lab}: the residual is linear in the white noise", "discharged", backend="sympy")
                _eq(chk, f"{lab}: the residual has zero mean", const, [0] * (ns + nd))
                _eq(chk, f"{lab}: point-estimated parameters have exactly zero residual", [r[i] for i in frozen], [0] * len(frozen))
                Cs = C.extract(keep, list(range(C.shape[1])))
                Ms = Metric.extract(keep, keep)
                if from_inverse:
                    _eq(chk, f"{lab}: residual covariance times the posterior metric == identity", list((Cs * Cs.T) * Ms), list(sp.eye(len(keep))))
                else:
                    _eq(chk, f"{lab}: the sample has the posterior metric as covariance", list(Cs * Cs.T), list(Ms))


def sec_geovi_re(chk):
    """for an affine transformation (linear model) the geoVI objective is stationary at the linear sample"""
    import jax
    jax.config.update("jax_enable_x64", True)
    import jax.numpy as jnp
    import nifty.re as jft
    from nifty.re import evi
    chk.under_contract(evi._nonlinear_residual_vg)
    chk.under_contract(evi.nonlinearly_update_residual)
    key = jax.random.PRNGKey(1)
    ns = nd = 2
    R, w, d = symbols((nd,), "R", real=True), symbols((nd,), "w", positive=True), symbols((nd,), "d", real=True)
    ps, pt = symbols((ns,), "ps", real=True), symbols((nd,), "pt", real=True)
    for pes in ((), ("t",)):
        nkeep = ns + (0 if "t" in pes else nd)
        nxi = nd + nkeep
        xi = symbols((nxi,), "xi", real=True)
        lab = f"geovi_re: linear model, point estimates {list(pes)}"

        def run(R_, w_, d_, ps_, pt_, xi_, pes=pes):
            lh = _re_model(jft, jnp, ns, nd, R_, w_, d_, True)
            pos = jft.Vector({"s": ps_, "t": pt_})
            old = evi.random_like
            try:
                evi.random_like = NoiseFeed(xi_)
                lin, _ = evi.draw_linear_residual(lh, pos, key, from_inverse=True, point_estimates=pes, cg=exact_cg)
                evi.random_like = NoiseFeed(xi_)                    # the update re-draws the metric sample from the same key
                met, _ = evi.draw_linear_residual(lh, pos, key, from_inverse=False, point_estimates=pes)
            finally:
                evi.random_like = old
            lh_f, e_liquid = lh.freeze(point_estimates=pes, primals=pos)
            trafo_at_p = lh_f.transformation(e_liquid)
            sample = evi._process_point_estimate(pos + lin, pos, pes, insert=False)
            ms = evi._process_point_estimate(met, pos, pes, insert=False)
            val, grad = evi._nonlinear_residual_vg(lh, pes, pos, trafo_at_p, ms, sample)
            # the full update with the minimisation skipped (maxiter=0) must hand back the residual it was given
            evi.random_like = NoiseFeed(xi_)
            try:
                upd, _ = evi.nonlinearly_update_residual(lh, pos, lin, key, 1., point_estimates=pes, minimize_kwargs=dict(maxiter=0))
            finally:
                evi.random_like = old
            return val, grad.tree, lin.tree, upd.tree
        try:
            (val, grad, lin, upd), used = sym_call(run, (jnp.ones(nd), jnp.ones(nd), jnp.ones(nd), jnp.ones(ns), jnp.ones(nd), jnp.ones(nxi)), (R, w, d, ps, pt, xi))
        except Exception as e:  # noqa: BLE001
            chk.obligation(f"{lab}: the geoVI objective can be evaluated", "undecided", backend="engine", detail=f"{type(e).__name__}: {e}"[:400])
            continue
        def fl(t):
            leaves = jax.tree_util.tree_leaves(t, is_leaf=lambda x: isinstance(x, np.ndarray))
            return [e for leaf, shp in zip(leaves, ((ns,), (nd,))) for e in np.broadcast_to(jaxsym.to_obj(np.asarray(leaf)), shp).ravel()]
        _eq(chk, f"{lab}: the geoVI objective vanishes at the linear sample", [jaxsym.to_obj(np.asarray(val))[()]], [0])
        _eq(chk, f"{lab}: its gradient vanishes at the linear sample (a descent minimiser leaves the linear sample unchanged)", fl(grad), [0] * len(fl(grad)))
        _eq(chk, f"{lab}: nonlinearly_update_residual without minimisation steps returns the residual it was given", fl(upd), fl(lin))


def sec_driver_re(chk):
    """OptimizeVI: mirrored pairs; point estimates handed to every sampling routine in every sample mode (call-site preconditions)"""
    import jax
    jax.config.update("jax_enable_x64", True)
    import jax.numpy as jnp
    import nifty.re as jft
    from nifty.re import optimize_kl as okl_mod  # noqa: F401
    import importlib
    okl = importlib.import_module("nifty.re.optimize_kl")
    chk.under_contract(okl.OptimizeVI.draw_samples)
    chk.under_contract(okl.OptimizeVI.draw_linear_samples)
    chk.under_contract(okl.OptimizeVI.nonlinearly_update_samples)
    lh = jft.Gaussian(jnp.array([0.5, -1.])).amend(lambda x: x["s"] * x["t"], domain={"s": jft.ShapeWithDtype((2,)), "t": jft.ShapeWithDtype((2,))})
    pos = jft.Vector({"s": jnp.array([0.3, 0.7]), "t": jnp.array([1.1, -0.4])})
    calls = []

    def lin_stub(primals, key, *, point_estimates=(), **kw):
        """contract stub of draw_linear_residual: requires the configured point estimates; ensures zero residual on them"""
        calls.append(("linear", tuple(point_estimates)))
        r = jax.tree_util.tree_map(lambda x: 0.1 * jnp.ones_like(x), primals)
        return r, 0

    def nl_stub(primals, residual, key, sign, *, point_estimates=(), **kw):
        calls.append(("nonlinear", tuple(point_estimates)))
        return residual, 0
    vi = okl.OptimizeVI(lh, n_total_iterations=1, _draw_linear_residual=lin_stub, _nonlinearly_update_residual=nl_stub, residual_map="smap")
    key = jax.random.PRNGKey(4)
    empty = jft.Samples(pos=pos, samples=None, keys=None)
    for pes in ((), ("t",), ("s",)):
        for mode in ("linear_sample", "linear_resample", "nonlinear_sample", "nonlinear_resample", "nonlinear_update"):
            calls.clear()
            lab = f"driver_re: sample_mode={mode}, point_estimates={list(pes)}"
            if mode == "nonlinear_update":
                smp, _ = vi.draw_samples(empty, key=key, sample_mode="linear_resample", n_samples=2, point_estimates=pes)
                calls.clear()
                smp, _ = vi.draw_samples(smp, key=key, sample_mode=mode, n_samples=2, point_estimates=pes)
            else:
                smp, _ = vi.draw_samples(empty, key=key, sample_mode=mode, n_samples=2, point_estimates=pes)
            bad = [c for c in calls if c[1] != tuple(pes)]
            chk.obligation(f"{lab}: every sampling routine is called with the configured point estimates (call-site precondition)",
                           "discharged" if calls and not bad else "refuted", backend="contract-stub", detail=f"calls {calls[:6]}", model=dict(calls=[list(c) for c in bad[:4]]))
            want_kinds = {"linear"} if mode.startswith("linear") else ({"nonlinear"} if mode == "nonlinear_update" else {"linear", "nonlinear"})
            ok = {c[0] for c in calls} == want_kinds
            chk.obligation(f"{lab}: the routines called are those of the sample mode", "discharged" if ok else "refuted", backend="contract-stub", detail=str(sorted({c[0] for c in calls})))
            ok = len(smp) == 4 and len(smp.keys) == 2
            chk.obligation(f"{lab}: n_samples keys give 2 n_samples samples", "discharged" if ok else "refuted", backend="identity")
            if mode.startswith("linear"):
                s = smp._samples
                fl = np.concatenate([np.asarray(s.tree[k]).reshape(4, -1) for k in sorted(s.tree)], axis=1)
                ok = np.array_equal(fl[0], -fl[1]) and np.array_equal(fl[2], -fl[3])
                chk.obligation(f"{lab}: samples come in (r, -r) pairs, the mirrored one right after the original", "discharged" if ok else "refuted", backend="native")
    # n_samples changed: samples are drawn anew although only an update was requested
    calls.clear()
    smp, _ = vi.draw_samples(empty, key=key, sample_mode="linear_resample", n_samples=1, point_estimates=())
    calls.clear()
    smp, _ = vi.draw_samples(smp, key=key, sample_mode="nonlinear_update", n_samples=2, point_estimates=("t",))
    ok = {c[0] for c in calls} == {"linear", "nonlinear"} and all(c[1] == ("t",) for c in calls) and len(smp) == 4
    chk.obligation("driver_re: nonlinear_update with a changed number of samples re-samples (linear draw then update) with the configured point estimates",
                   "discharged" if ok else "refuted", backend="contract-stub", detail=str(calls[:6]))
    calls.clear()
    smp, st = vi.draw_samples(empty, key=key, sample_mode="nonlinear_resample", n_samples=0, point_estimates=())
    chk.obligation("driver_re: n_samples == 0 draws nothing (MAP)", "discharged" if not calls and smp is empty else "refuted", backend="contract-stub")


SECTIONS = [sec_classic, sec_linear_re, sec_geovi_re, sec_driver_re]
