"""C10 Power distribution and power analysis are exact on binned spectra.

Engine O with sympy elements: the real DOFDistributor / PowerDistributor / power_analyze / create_power_operator run on fields of
symbols.  Contracts (bin membership b(p) = pindex of the power space / dofdex; w_p = pixel volume of mode p):
    PowerDistributor.times(s)[p, j]          == s[b(p), j]
    PowerDistributor.adjoint_times(y)[b, j]  == sum_{p: b(p) = b} y[p, j]
    power_analyze(f, space)[b, j]            == sum_{p in b} w_p |f[p, j]|^2 / sum_{p in b} w_p
       hence power_analyze(f) == s whenever |f|^2 == times(s);  with phase information: the same for Re f and Im f separately
    create_power_operator(dom, s)(x)         == times(s) * x      (s a field on a power space, or a function of k)
    empty bins are refused.
All identities hold for every symbolic value; the domains (harmonic space, its position in a product, the binning) are enumerated.
np.bincount inside utilities._special_add_at is re-bound to its defining sum for object arrays (A-NUMPY).
"""
import itertools

import numpy as np
import sympy as sp

from vf import objx
from vf.objx import SX, exprs
from vf.ofield import all_equal, sym_field

META = dict(
    title="Power distribution and power analysis are exact on binned spectra",
    level="other",
    design_ref="DESIGN.md section 4, C10",
    technique="contracts of DOFDistributor/PowerDistributor.times/adjoint_times, power_analyze and create_power_operator written as "
              "index formulas over the bin membership; the real classes run on fields of sympy symbols (object arrays) and the "
              "results are compared as symbolic identities for all values; enumerated harmonic domains, sub-space positions and binnings",
    text="On every enumerated harmonic domain (regular grids in 1-2 dimensions with non-unit distances, spherical-harmonic space, each "
         "as single space and as either factor of a product with a non-unit-volume partner, natural and custom binnings): "
         "distribution assigns every mode its bin's value, the adjoint sums each bin, power analysis returns the volume-weighted "
         "bin average of the squared modulus and therefore returns exactly the spectrum of a field whose squared modulus is a "
         "distributed spectrum (also with phase information and for several analysed spaces), a power operator is the diagonal of "
         "the distributed spectrum, and empty bins are refused.",
    note="Universal in all field values; bounded in the domain catalogue (sizes <= 4x3, lmax <= 2, two-factor products). Bin "
         "membership itself (pindex vs k-lengths) belongs to C08. np.bincount is replaced by its defining sum for object arrays.",
    explanation="level 'other': symbolic identities on the real classes for enumerated domains (B-shape), universal in values",
)


def _harmonic_spaces(ift):
    return {
        "RG(4) d=0.5": ift.RGSpace(4, distances=0.5, harmonic=True),
        "RG(4,3) d=(0.5,0.25)": ift.RGSpace((4, 3), distances=(0.5, 0.25), harmonic=True),
        "LM(2)": ift.LMSpace(2),
        "LM(2,1)": ift.LMSpace(2, 1),
    }


def _binnings(ift, h):
    out = {"natural": None}
    k = h.get_unique_k_lengths()
    if len(k) > 3:
        mid = [0.5 * (k[1] + k[2]), 0.5 * (k[2] + k[3])]
        out["custom(2 inner bounds)"] = tuple(mid)
        out["custom(1 inner bound)"] = (0.5 * (k[0] + k[1]),)
    return out


def _cases(ift, tier):
    other = ift.RGSpace(2, distances=0.3)           # position space with pixel volume 0.3
    # a partner with non-uniform pixel volumes (an UnstructuredDomain has no volume: Field.weight, and with it power_analyze, refuse it)
    gl = ift.GLSpace(2)
    for hn, h in _harmonic_spaces(ift).items():
        for bn, bb in _binnings(ift, h).items():
            yield f"{hn} [{bn}]", (h,), 0, bb
            if bn != "custom(1 inner bound)" or tier == "thorough":
                yield f"{hn} x RG(2,d=0.3) [{bn}]", (h, other), 0, bb
                yield f"RG(2,d=0.3) x {hn} [{bn}]", (other, h), 1, bb
            if tier == "thorough":
                yield f"GL(2) x {hn} x RG(2,d=0.3) [{bn}]", (gl, h, other), 1, bb


def _axes(dt, space):
    """(pre, n, post) sizes of the sub-space `space` inside the flattened array of dt"""
    ax = dt.axes[space]
    shp = dt.shape
    pre = int(np.prod(shp[:ax[0]], dtype=int))
    n = int(np.prod(shp[ax[0]:ax[-1] + 1], dtype=int))
    post = int(np.prod(shp[ax[-1] + 1:], dtype=int))
    return pre, n, post


def _pixel_volumes(sp_):
    if sp_.scalar_dvol is not None:
        return [sp.nsimplify(sp_.scalar_dvol, rational=True)] * int(np.prod(sp_.shape, dtype=int))
    return [sp.nsimplify(float(v), rational=True) for v in np.asarray(sp_.dvol).ravel()]


def sec_distributor(chk):
    import nifty.cl as ift
    from nifty.cl.operators.distributors import DOFDistributor, PowerDistributor
    chk.under_contract(DOFDistributor._times)
    chk.under_contract(DOFDistributor._adjoint_times)
    chk.under_contract(DOFDistributor._init2)
    chk.under_contract(PowerDistributor.__init__)
    from nifty.cl import utilities
    chk.under_contract(utilities._special_add_at, note="np.bincount re-bound to its defining sum for object arrays")
    chk.assume("A-NUMPY: np.bincount(index, w, minlength)[b] == sum of w[p] over p with index[p] == b")
    with objx.patched(), objx.patched_bincount():
        for name, doms, space, bb in _cases(ift, chk.tier):
            dt = ift.DomainTuple.make(doms)
            h = dt[space]
            ps = ift.PowerSpace(h, bb)
            pd = PowerDistributor(dt, ps, space)
            pin = np.asarray(ps.pindex).ravel()
            nb = ps.shape[0]
            pre, n, post = _axes(dt, space)
            ok = pd.target is dt and pd.domain[space] is ps and all(pd.domain[i] is dt[i] for i in range(len(dt)) if i != space)
            chk.obligation(f"distributor: {name}: domain is the target with the harmonic space replaced by the power space",
                           "discharged" if ok else "refuted", backend="identity")
            s, ss = sym_field(ift, pd.domain, "s", real=True)
            S = np.array(ss, dtype=object).reshape(pre, nb, post)
            got = exprs(pd.times(s).asnumpy())
            want = [S[i, pin[p], j] for i in range(pre) for p in range(n) for j in range(post)]
            all_equal(chk, f"distributor: {name}: times assigns every mode the value of its bin", got, want)
            y, ys = sym_field(ift, pd.target, "y")          # complex-capable symbols
            Y = np.array(ys, dtype=object).reshape(pre, n, post)
            got = exprs(pd.adjoint_times(y).asnumpy())
            want = [sum(Y[i, p, j] for p in range(n) if pin[p] == b) for i in range(pre) for b in range(nb) for j in range(post)]
            all_equal(chk, f"distributor: {name}: adjoint_times sums over each bin", got, want)
            ok = False
            try:
                pd.inverse_times(y)
            except Exception:  # noqa: BLE001
                ok = True
            chk.obligation(f"distributor: {name}: only TIMES and ADJOINT_TIMES are advertised", "discharged" if ok and pd.capability == 3 else "refuted",
                           backend="identity")
            # the input is not modified
            before = list(ss)
            after = exprs(s.asnumpy())
            chk.obligation(f"distributor: {name}: applying the operator does not modify its input",
                           "discharged" if all(a == b for a, b in zip(after, before)) else "refuted", backend="identity")


def sec_dof(chk):
    """DOFDistributor with arbitrary integer dofdex fields, single spaces and products"""
    import nifty.cl as ift
    from nifty.cl.operators.distributors import DOFDistributor
    chk.under_contract(DOFDistributor.__init__)
    with objx.patched(), objx.patched_bincount():
        sp1 = ift.RGSpace((2, 3), distances=(0.5, 2.))
        gl = ift.GLSpace(2)
        other = ift.UnstructuredDomain(2)
        cases = [("RG(2,3)", (sp1,), 0, np.array([[0, 1, 1], [2, 0, 1]])),
                 ("RG(2,3) x U(2)", (sp1, other), 0, np.array([[1, 0, 0], [1, 1, 0]])),
                 ("U(2) x RG(2,3)", (other, sp1), 1, np.array([[0, 1, 2], [3, 4, 5]])),
                 ("GL(2) (non-uniform pixel volumes)", (gl,), 0, np.array([0, 1, 1, 0, 2, 2]).reshape(gl.shape))]
        for name, doms, space, dex in cases:
            dt = ift.DomainTuple.make(doms)
            dofdex = ift.Field(ift.DomainTuple.make(dt[space]), dex)
            op = DOFDistributor(dofdex, dt, space)
            nb = int(dex.max()) + 1
            pre, n, post = _axes(dt, space)
            pin = dex.ravel()
            vols = _pixel_volumes(dt[space])
            wgt = [sum(vols[p] for p in range(n) if pin[p] == b) for b in range(nb)]
            got = [sp.nsimplify(float(v), rational=True) for v in np.asarray(op.domain[space].dvol).ravel()]
            all_equal(chk, f"dof: {name}: the DOF space's volumes are the summed pixel volumes of the bins", got, wgt)
            s, ss = sym_field(ift, op.domain, "s", real=True)
            S = np.array(ss, dtype=object).reshape(pre, nb, post)
            all_equal(chk, f"dof: {name}: times assigns every pixel the value of its degree of freedom", exprs(op.times(s).asnumpy()),
                      [S[i, pin[p], j] for i in range(pre) for p in range(n) for j in range(post)])
            y, ys = sym_field(ift, op.target, "y")
            Y = np.array(ys, dtype=object).reshape(pre, n, post)
            all_equal(chk, f"dof: {name}: adjoint_times sums over each degree of freedom", exprs(op.adjoint_times(y).asnumpy()),
                      [sum(Y[i, p, j] for p in range(n) if pin[p] == b) for i in range(pre) for b in range(nb) for j in range(post)])
        # refusals: a gap in the dofdex (empty bin), non-integer dofdex, wrong domain
        for what, mk in (("a dofdex that skips a value (empty bin)", lambda: DOFDistributor(ift.Field(ift.DomainTuple.make(sp1), np.array([[0, 2, 2], [2, 0, 2]])))),
                         ("a non-integer dofdex", lambda: DOFDistributor(ift.Field(ift.DomainTuple.make(sp1), np.zeros((2, 3))))),
                         ("a dofdex on another space than the addressed one", lambda: DOFDistributor(ift.Field(ift.DomainTuple.make(other), np.array([0, 1])), (sp1, other), 0))):
            try:
                mk()
                ok = False
            except (ValueError, TypeError):
                ok = True
            chk.obligation(f"dof: {what} is refused", "discharged" if ok else "refuted", backend="native")


def _analysis_formula(dt, space, pin, nb, F2):
    """sum_{p in b} w_p F2[.., p, ..] / sum_{p in b} w_p  as a flat list over (pre, b, post)"""
    pre, n, post = _axes(dt, space)
    w = _pixel_volumes(dt[space])
    F2 = np.array(F2, dtype=object).reshape(pre, n, post)
    out = []
    for i in range(pre):
        for b in range(nb):
            den = sum(w[p] for p in range(n) if pin[p] == b)
            for j in range(post):
                out.append(sum(w[p] * F2[i, p, j] for p in range(n) if pin[p] == b) / den)
    return out


def _runs(chk, label, fn):
    """precondition check of the contract: an admissible input must be accepted"""
    try:
        return fn()
    except Exception as e:  # noqa: BLE001
        chk.obligation(f"{label}: the admissible input is accepted", "refuted", backend="native", detail=f"{type(e).__name__}: {e}"[:300])
        return None


def sec_analyze(chk):
    import nifty.cl as ift
    from nifty.cl import sugar
    chk.under_contract(sugar.power_analyze)
    chk.under_contract(sugar._single_power_analyze)
    with objx.patched(complex_objects=False), objx.patched_bincount():
        for name, doms, space, bb in _cases(ift, chk.tier):
            dt = ift.DomainTuple.make(doms)
            h = dt[space]
            ps = ift.PowerSpace(h, bb)
            pd = ift.PowerDistributor(dt, ps, space)
            pin = np.asarray(ps.pindex).ravel()
            nb = ps.shape[0]
            # (1) a general real field: the volume-weighted bin average of its square
            f, fs = sym_field(ift, dt, "f", real=True)
            got = _runs(chk, f"analyze: {name}: power_analyze of a real field over the harmonic sub-space", lambda: exprs(ift.power_analyze(f, spaces=space, binbounds=bb).asnumpy()))
            if got is None:
                continue
            all_equal(chk, f"analyze: {name}: power_analyze == volume-weighted bin average of the squared field", got,
                      _analysis_formula(dt, space, pin, nb, [x * x for x in fs]))
            # (2) a field whose squared modulus is a distributed spectrum returns the spectrum (signs vary from mode to mode)
            s, ss = sym_field(ift, pd.domain, "s", positive=True)
            amp = pd(s).sqrt()
            sign = np.where(np.arange(int(np.prod(dt.shape))) % 3 == 1, -1., 1.).reshape(dt.shape)
            fld = amp * ift.makeField(dt, sign)
            got = exprs(ift.power_analyze(fld, spaces=space, binbounds=bb).asnumpy())
            all_equal(chk, f"analyze: {name}: the power of a field with squared modulus times(s) is exactly s", got, ss)
    # complex fields need the library's dtype tests to see 'complex' for object arrays
    with objx.patched(complex_objects=True), objx.patched_bincount():
        for name, doms, space, bb in _cases(ift, chk.tier):
            dt = ift.DomainTuple.make(doms)
            ps = ift.PowerSpace(dt[space], bb)
            pd = ift.PowerDistributor(dt, ps, space)
            pin = np.asarray(ps.pindex).ravel()
            nb = ps.shape[0]
            s, ss = sym_field(ift, pd.domain, "s", positive=True)
            amp = pd(s).sqrt()
            n = int(np.prod(dt.shape))
            ph = [(sp.Rational(3, 5), sp.Rational(4, 5)), (sp.Rational(-5, 13), sp.Rational(12, 13)), (sp.Rational(8, 17), sp.Rational(-15, 17))]
            arr = np.empty(n, dtype=object)
            for i, a in enumerate(exprs(amp.asnumpy())):
                c, d = ph[i % 3]
                arr[i] = SX(a * (c + sp.I * d))
            fld = ift.Field(dt, arr.reshape(dt.shape))
            got = _runs(chk, f"analyze: {name}: power_analyze of a complex field over the harmonic sub-space", lambda: exprs(ift.power_analyze(fld, spaces=space, binbounds=bb).asnumpy()))
            if got is None:
                continue
            all_equal(chk, f"analyze: {name}: complex field with |f|^2 == times(s): the power is exactly s", got, ss)
            # phase information: constant phase c + i d -> c^2 s + i d^2 s
            c, d = ph[0]
            arr2 = np.empty(n, dtype=object)
            for i, a in enumerate(exprs(amp.asnumpy())):
                arr2[i] = SX(a * (c + sp.I * d))
            try:
                got = exprs(ift.power_analyze(ift.Field(dt, arr2.reshape(dt.shape)), spaces=space, binbounds=bb, keep_phase_information=True).asnumpy())
            except ValueError as e:
                # observation, outside the property statement: the guard of keep_phase_information is inverted on the pinned tree
                # (complex input raises "cannot keep phase from real-valued input Field", real input fails in .imag)
                chk.note(f"power_analyze(keep_phase_information=True) refuses a complex field ({e}); the option is unusable on this tree")
            else:
                all_equal(chk, f"analyze: {name}: with phase information the real and imaginary parts are analysed separately", got,
                          [c * c * x + sp.I * d * d * x for x in ss])
            # general complex field
            fr, frs = sym_field(ift, dt, "fr", real=True)
            fi, fis = sym_field(ift, dt, "fi", real=True)
            arr3 = np.empty(n, dtype=object)
            for i in range(n):
                arr3[i] = SX(frs[i] + sp.I * fis[i])
            got = exprs(ift.power_analyze(ift.Field(dt, arr3.reshape(dt.shape)), spaces=space, binbounds=bb).asnumpy())
            all_equal(chk, f"analyze: {name}: complex field: volume-weighted bin average of |f|^2", got,
                      _analysis_formula(dt, space, pin, nb, [a * a + b * b for a, b in zip(frs, fis)]))


def sec_analyze_multi(chk):
    """two harmonic factors analysed one after the other, jointly (spaces=None) and one at a time"""
    import nifty.cl as ift
    with objx.patched(), objx.patched_bincount():
        h1 = ift.RGSpace(4, distances=0.5, harmonic=True)
        h2 = ift.LMSpace(1)
        dt = ift.DomainTuple.make((h1, h2))
        p1, p2 = ift.PowerSpace(h1), ift.PowerSpace(h2)
        d1 = ift.PowerDistributor(dt, p1, 0)
        d2 = ift.PowerDistributor(d1.domain, p2, 1)
        s, ss = sym_field(ift, d2.domain, "s", positive=True)
        fld = d1(d2(s)).sqrt()
        for what, spaces in (("spaces=None", None), ("spaces=(0, 1)", (0, 1)), ("spaces=(1, 0)", (1, 0))):
            got = ift.power_analyze(fld, spaces=spaces)
            ok = got.domain[0] is p1 and got.domain[1] is p2
            chk.obligation(f"analyze_multi: {what}: the result lives on the two power spaces", "discharged" if ok else "refuted", backend="identity")
            all_equal(chk, f"analyze_multi: {what}: the power of sqrt(times(times(s))) is exactly s", exprs(got.asnumpy()), ss)
        one = ift.power_analyze(fld, spaces=1)
        all_equal(chk, "analyze_multi: spaces=1 only: the other harmonic factor keeps its modes", exprs(one.asnumpy()),
                  exprs(ift.PowerDistributor(ift.DomainTuple.make((h1, p2)), p1, 0)(s).asnumpy()))
        try:
            ift.power_analyze(fld, spaces=())
            ok = False
        except ValueError:
            ok = True
        chk.obligation("analyze_multi: an empty selection of spaces is refused", "discharged" if ok else "refuted", backend="native")


def sec_power_operator(chk):
    import nifty.cl as ift
    from nifty.cl import sugar
    chk.under_contract(sugar.create_power_operator)
    chk.under_contract(sugar._create_power_field)
    with objx.patched(), objx.patched_bincount():
        for name, doms, space, bb in _cases(ift, chk.tier):
            dt = ift.DomainTuple.make(doms)
            h = dt[space]
            ps = ift.PowerSpace(h, bb)
            pin = np.asarray(ps.pindex).ravel()
            pre, n, post = _axes(dt, space)
            s, ss = sym_field(ift, ps, "s", positive=True)
            try:
                op = ift.create_power_operator(dt, s, space)
            except TypeError as e:
                chk.obligation(f"power_operator: {name}: a spectrum given as a field on the power space is accepted", "refuted", backend="native",
                               detail=f"create_power_operator(domain, <Field on PowerSpace>) raised TypeError {e}", model=dict(domain=name))
                continue
            chk.obligation(f"power_operator: {name}: a spectrum given as a field on the power space is accepted", "discharged", backend="native")
            x, xs = sym_field(ift, dt, "x")
            X = np.array(xs, dtype=object).reshape(pre, n, post)
            want = [ss[pin[p]] * X[i, p, j] for i in range(pre) for p in range(n) for j in range(post)]
            ok = op.domain is dt and op.target is dt
            chk.obligation(f"power_operator: {name}: an endomorphic operator on the given domain", "discharged" if ok else "refuted", backend="identity")
            all_equal(chk, f"power_operator: {name}: acts as the diagonal of the distributed spectrum", exprs(op(x).asnumpy()), want)
            all_equal(chk, f"power_operator: {name}: the adjoint acts as the same real diagonal", exprs(op.adjoint_times(x).asnumpy()), want)
            all_equal(chk, f"power_operator: {name}: the inverse divides by the distributed spectrum", exprs(op.inverse_times(x).asnumpy()),
                      [X[i, p, j] / ss[pin[p]] for i in range(pre) for p in range(n) for j in range(post)])
            if bb is None:
                # a function of k: evaluated at the mean k-length of every (natural) bin
                fun = lambda k: 2. / (1. + k) ** 2  # noqa: E731
                opf = ift.create_power_operator(dt, fun, space)
                kl = np.asarray(ps.k_lengths)
                one = ift.full(dt, 1.)
                got = opf(one).asnumpy().reshape(pre, n, post)
                wantf = np.array([[[fun(kl[pin[p]]) for j in range(post)] for p in range(n)] for i in range(pre)])
                ok = bool(np.array_equal(got, wantf))
                chk.obligation(f"power_operator: {name}: a spectrum given as a function is evaluated at the bins' k-lengths", "discharged" if ok else "refuted",
                               backend="native", detail="" if ok else f"{got.ravel()[:6]} vs {wantf.ravel()[:6]}")
        # refusals
        h = ift.RGSpace(4, distances=0.5, harmonic=True)
        for what, mk in (("a spectrum on a power space of another harmonic partner",
                          lambda: ift.create_power_operator(h, ift.full(ift.PowerSpace(ift.RGSpace(6, harmonic=True)), 1.))),
                         ("a spectrum that is not defined on a power space", lambda: ift.create_power_operator(h, ift.full(h, 1.))),
                         ("custom bin bounds leaving a bin empty", lambda: ift.PowerSpace(h, (0.1, 0.2, 0.3))),
                         ("a power distributor on a non-harmonic space", lambda: ift.PowerDistributor(ift.RGSpace(4)))):
            try:
                mk()
                ok = False
            except (ValueError, TypeError):
                ok = True
            chk.obligation(f"power_operator: {what} is refused", "discharged" if ok else "refuted", backend="native")


def sec_analyze_sequence(chk):
    """calls in sequence are independent: analysing sub-space 0 and then sub-space 1 of a product of the *same* harmonic space twice (and
    the other way round, and with another binning in between) gives each time the result of a fresh call"""
    import nifty.cl as ift
    with objx.patched(complex_objects=False), objx.patched_bincount():
        for hn, h in list(_harmonic_spaces(ift).items())[:3]:
            dt = ift.DomainTuple.make((h, h))
            f, fs = sym_field(ift, dt, "f", real=True)
            sq = [x * x for x in fs]
            bins = _binnings(ift, h)
            seq = [(0, None), (1, None), (0, None)] + ([(1, bins["custom(2 inner bounds)"]), (0, bins["custom(2 inner bounds)"]), (1, None)] if "custom(2 inner bounds)" in bins else [])
            for step, (space, bb) in enumerate(seq):
                ps = ift.PowerSpace(h, bb)
                pin = np.asarray(ps.pindex).ravel()
                got = _runs(chk, f"analyze_sequence: {hn} x {hn}, call {step} (space {space}, {'custom' if bb else 'natural'} binning)",
                            lambda: ift.power_analyze(f, spaces=space, binbounds=bb))
                if got is None:
                    continue
                want_dom = tuple(ps if i == space else h for i in range(2))
                ok = tuple(got.domain) == want_dom
                chk.obligation(f"analyze_sequence: {hn} x {hn}, call {step} (space {space}, {'custom' if bb else 'natural'} binning): the result lives on the domain with sub-space {space} replaced by its power space",
                               "discharged" if ok else "refuted", backend="identity", detail=str(got.domain)[:200])
                if ok:
                    all_equal(chk, f"analyze_sequence: {hn} x {hn}, call {step} (space {space}, {'custom' if bb else 'natural'} binning): power_analyze == volume-weighted bin average of the squared field",
                              exprs(got.asnumpy()), _analysis_formula(dt, space, pin, ps.shape[0], sq))


SECTIONS = [sec_distributor, sec_dof, sec_analyze, sec_analyze_multi, sec_analyze_sequence, sec_power_operator]


def _native(ob):
    import json
    import os
    import subprocess
    import sys
    here = os.path.dirname(os.path.abspath(__file__))
    p = subprocess.run([sys.executable, os.path.join(here, "native", "C10_native.py")], capture_output=True, text=True, timeout=600)
    try:
        return json.loads(p.stdout.strip().splitlines()[-1])
    except Exception:  # noqa: BLE001
        return dict(reproduced=False, error=p.stderr[-500:])


REPLAY = {"a spectrum given as a field on the power space is accepted": _native}
