"""C06 Field arithmetic and contractions follow array semantics with volumes.

Engine O with sympy elements on the real Field / MultiField / AnyArray classes.  The contract of every public arithmetic and
contraction method is an index-level formula written independently in this file (explicit Python loops over index tuples with the
domain's pixel volumes v_s[i_s]):
    weight(p, S)[i]      == f[i] * prod_{s in S} v_s[i_s]**p
    sum(S), prod(S)      == sum / product over the axes of the spaces in S
    integrate(S)         == sum_S f * prod v_s          mean(S) == integrate(S) / total_volume(S)
    var(S)               == mean_S |f - mean_S f|^2     std(S)  == sqrt(var(S))
    vdot(g, S)           == sum_S conj(f) g   (conjugate-linear in the first argument, no volume factor)   s_vdot likewise
    norm(1), norm(2)     == sum |f|, sqrt(sum |f|^2)    (ord = inf and integer dtypes: natively, bounded)
    outer, conjugate, real, imag, abs, neg, + - * / ** with fields and scalars: element-wise
    MultiField: the same per key; vdot / s_sum / size sum over keys; norm combines the per-key norms
    operands on different domains are rejected by every binary entry point; Field.__bool__ raises.
Universal in all field values (symbols); bounded in the domain catalogue.
"""
import itertools

import numpy as np
import sympy as sp

from vf import objx
from vf.objx import SX, exprs
from vf.ofield import all_equal, sym_field

META = dict(
    title="Field arithmetic and contractions follow array semantics with volumes",
    level="other",
    design_ref="DESIGN.md section 4, C06",
    technique="contracts of the public Field/MultiField arithmetic and contraction methods written as independent index-level formulas "
              "with the domain's volume factors; the real classes run on fields of sympy symbols (object arrays), results compared as "
              "symbolic identities for all values; every subset of sub-domains; rejections and non-symbolic parts (ord=inf, integer "
              "dtypes, comparisons, the ducc vdot path) natively as bounded stand-ins",
    text="On every enumerated domain tuple (regular grid, Gauss-Legendre sphere and power space with non-uniform pixel volumes, "
         "unstructured; 1-3 sub-domains) and every subset of sub-domains: weight, sum, prod, integrate, mean, var, std, partial and "
         "full dot products (conjugate-linear in the first argument), norms of order 1 and 2, outer products, conjugation, real/imaginary "
         "parts and the element-wise binary operators with fields and scalars return the documented array computation with the "
         "domain's volume factors, for real and complex symbolic values; MultiFields do the same per key and sum over keys; operands "
         "on different domains are rejected; Field.__bool__ raises.",
    note="Universal in field values; bounded in the domain catalogue (<= 3 sub-domains, <= 6 pixels per space). The uniform-volume fast "
         "paths (NumPy mean/var/std on object arrays) and the weighted fall-backs are both driven. Bounded natively: ord=inf norms, "
         "integer and float32 dtypes, comparison operators, clip, AnyArray.vdot/norm through the real ducc/NumPy path on generated "
         "arrays against NumPy (exact or 4 ulp).",
    explanation="level 'other': symbolic identities on the real classes for enumerated domains (B-shape) plus native bounded stand-ins",
)


def _domains(ift, tier):
    rg = ift.RGSpace(2, distances=0.5)
    rg2 = ift.RGSpace((2, 2), distances=(0.25, 2.))
    un = ift.UnstructuredDomain(3)
    gl = ift.GLSpace(3, 2)                                # 6 pixels, two different weights
    ps = ift.PowerSpace(ift.RGSpace(4, harmonic=True))    # 3 bins, volumes 1,2,1 (times dvol)
    hp = ift.HPSpace(1) if tier == "thorough" else None
    D = {"RG(2)": (rg,), "RG(2,2)": (rg2,), "GL(2)": (gl,), "RG(2) x U(3)": (rg, un), "GL(2) x RG(2)": (gl, rg), "U(3) x Power(3)": (un, ps),
         "Power(3) x RG(2,2)": (ps, rg2)}
    if tier == "thorough":
        D["RG(2) x GL(2) x U(3)"] = (rg, gl, un)
        D["U(3) x RG(2,2) x Power(3)"] = (un, rg2, ps)
        D["HP(1)"] = (hp,)
    return D


class Ref:
    """independent index-level evaluator"""

    def __init__(self, dt):
        self.dt = dt
        self.shape = dt.shape
        self.axes = [tuple(dt.axes[i]) for i in range(len(dt))]
        self.vol = []
        for sp_ in dt:
            n = int(np.prod(sp_.shape, dtype=int))
            if not hasattr(sp_, "dvol"):
                v = np.array([None] * n, dtype=object)           # unstructured: no volume (volume methods are not defined on it)
            elif sp_.scalar_dvol is not None:
                v = np.array([sp.nsimplify(sp_.scalar_dvol, rational=True)] * n, dtype=object)
            else:
                v = np.array([sp.nsimplify(float(x), rational=True, tolerance=1e-15) for x in np.asarray(sp_.dvol).ravel()], dtype=object)
            self.vol.append(v.reshape(sp_.shape))

    def spaces(self, S):
        return tuple(range(len(self.dt))) if S is None else ((S,) if isinstance(S, int) else tuple(S))

    def volat(self, s, idx):
        ax = self.axes[s]
        return self.vol[s][tuple(idx[a] for a in ax)]

    def weight(self, A, p, S):
        out = np.empty(self.shape, dtype=object)
        for idx in np.ndindex(*self.shape):
            w = sp.Integer(1)
            for s in self.spaces(S):
                w = w * self.volat(s, idx) ** p
            out[idx] = A[idx] * w
        return out

    def contract(self, A, S, fn, vol=True):
        """reduce with fn(list of (value, volume-weight)) over the axes of the spaces in S; result on the remaining axes"""
        S = self.spaces(S)
        red = [a for s in S for a in self.axes[s]]
        keep = [a for a in range(len(self.shape)) if a not in red]
        out_shape = tuple(self.shape[a] for a in keep)
        out = np.empty(out_shape, dtype=object)
        for kidx in np.ndindex(*out_shape):
            items = []
            for ridx in np.ndindex(*[self.shape[a] for a in red]):
                idx = [0] * len(self.shape)
                for a, i in zip(keep, kidx):
                    idx[a] = i
                for a, i in zip(red, ridx):
                    idx[a] = i
                idx = tuple(idx)
                w = sp.Integer(1)
                for s in (S if vol else ()):
                    w = w * self.volat(s, idx)
                items.append((A[idx], w))
            out[kidx] = fn(items)
        return out

    def total_volume(self, S):
        t = sp.Integer(1)
        for s in self.spaces(S):
            t = t * sum(self.vol[s].ravel())
        return t


def _arr(f, shape):
    return np.array(exprs(f.asnumpy()), dtype=object).reshape(shape)


def _subsets(n):
    yield None
    yield ()                                    # the empty subset: nothing is contracted, no volume factor applies
    for r in range(1, n + 1):
        for s in itertools.combinations(range(n), r):
            yield s[0] if r == 1 and n > 1 and s[0] == 0 else s     # also exercise the bare-int form once


def _abs2(x):
    x = sp.sympify(x)
    return sp.expand(sp.re(x) ** 2 + sp.im(x) ** 2)


def _contractions(chk, ift, name, dt, cplx):
    R = Ref(dt)
    tag = "complex" if cplx else "real"
    if cplx:
        fr, frs = sym_field(ift, dt, "a", real=True)
        fi, fis = sym_field(ift, dt, "b", real=True)
        gr, grs = sym_field(ift, dt, "c", real=True)
        gi, gis = sym_field(ift, dt, "d", real=True)
        n = len(frs)
        fa, ga = np.empty(n, dtype=object), np.empty(n, dtype=object)
        for i in range(n):
            fa[i], ga[i] = SX(frs[i] + sp.I * fis[i]), SX(grs[i] + sp.I * gis[i])
        f, g = ift.Field(dt, fa.reshape(dt.shape)), ift.Field(dt, ga.reshape(dt.shape))
    else:
        f, _ = sym_field(ift, dt, "a", real=True)
        g, _ = sym_field(ift, dt, "c", real=True)
    A, B = _arr(f, dt.shape), _arr(g, dt.shape)
    L = lambda x: list(np.asarray(x, dtype=object).ravel())  # noqa: E731
    pre = f"{name} [{tag}]"
    for S in _subsets(len(dt)):
        sl = f"spaces={S}"
        AB = np.empty(dt.shape, dtype=object)
        for idx in np.ndindex(*dt.shape):
            AB[idx] = sp.conjugate(A[idx]) * B[idx]
        all_equal(chk, f"{pre}: vdot(g, {sl}) == sum of conj(f)*g (conjugate-linear in the first argument)",
                  [sp.expand(e) for e in exprs(f.vdot(g, S).asnumpy())], [sp.expand(e) for e in L(R.contract(AB, S, lambda it: sum(v for v, w in it), vol=False))])
        all_equal(chk, f"{pre}: sum({sl})", exprs(f.sum(S).asnumpy()), L(R.contract(A, S, lambda it: sum(v for v, w in it), vol=False)))
        all_equal(chk, f"{pre}: prod({sl})", exprs(f.prod(S).asnumpy()), L(R.contract(A, S, lambda it: sp.Mul(*[v for v, w in it]), vol=False)))
        if not all(hasattr(dt[s], "dvol") for s in R.spaces(S)):
            continue            # an unstructured factor has no volume: weight/integrate/mean/var/std are not defined over it
        for p in (1, -1, 2, 0.5) if not cplx else (1, -1):
            pw = sp.nsimplify(p, rational=True)
            all_equal(chk, f"{pre}: weight({p}, {sl}) multiplies every pixel by its volume factor to that power", exprs(f.weight(p, S).asnumpy()),
                      L(R.weight(A, pw, S)))
        all_equal(chk, f"{pre}: integrate({sl}) == sum of value times pixel volume", exprs(f.integrate(S).asnumpy()),
                  L(R.contract(A, S, lambda it: sum(v * w for v, w in it))))
        tv = R.total_volume(S)
        got_tv = sp.nsimplify(float(f.total_volume(S)), rational=True, tolerance=1e-14)
        all_equal(chk, f"{pre}: total_volume({sl}) == sum of the pixel volumes", [got_tv], [tv])
        sw = f.scalar_weight(S)
        vols = R.contract(np.full(dt.shape, sp.Integer(1), dtype=object), S, lambda it: it)
        flat_w = {w for it in vols.ravel() for _, w in it}
        ok = (sw is None) if len(flat_w) > 1 else (sw is None or any(abs(float(sw) - float(w)) <= 1e-13 * abs(float(w)) for w in flat_w))
        chk.obligation(f"{pre}: scalar_weight({sl}) is the uniform pixel volume if it returns one, and None if the volumes differ", "discharged" if ok else "refuted",
                       backend="native", detail=f"scalar_weight={sw}, pixel volumes {sorted(map(str, flat_w))[:4]}")
        mean_f = lambda it: sum(v * w for v, w in it) / sum(w for v, w in it)  # noqa: E731
        all_equal(chk, f"{pre}: mean({sl}) == integrate / total volume", exprs(f.mean(S).asnumpy()), L(R.contract(A, S, mean_f)))

        def var_f(it):
            m = mean_f(it)
            return mean_f([(_abs2(v - m), w) for v, w in it])
        all_equal(chk, f"{pre}: var({sl}) == volume-weighted mean of |f - mean|^2", [sp.expand(e) for e in exprs(f.var(S).asnumpy())],
                  [sp.expand(e) for e in L(R.contract(A, S, var_f))])
        got = exprs(f.std(S).asnumpy())
        all_equal(chk, f"{pre}: std({sl})**2 == var({sl})", [sp.expand(e ** 2) for e in got], [sp.expand(e) for e in L(R.contract(A, S, var_f))])
    tot = sum(sp.conjugate(a) * b for a, b in zip(A.ravel(), B.ravel()))
    all_equal(chk, f"{pre}: s_vdot(g) == sum of conj(f)*g", [sp.expand(sp.sympify(exprs(np.array(f.s_vdot(g), dtype=object))[0]))], [sp.expand(tot)])
    structured = all(hasattr(d, "dvol") for d in dt)
    if structured:
      all_equal(chk, f"{pre}: s_sum, s_integrate, s_mean agree with the full contractions",
              exprs(np.array([f.s_sum(), f.s_integrate(), f.s_mean()], dtype=object)),
              [sum(A.ravel()), R.contract(A, None, lambda it: sum(v * w for v, w in it))[()],
               R.contract(A, None, lambda it: sum(v * w for v, w in it) / sum(w for v, w in it))[()]])
    if structured:
      all_equal(chk, f"{pre}: s_var == var(None), s_std**2 == var(None)", [sp.expand(exprs(np.array(f.s_var(), dtype=object))[0]),
                                                                          sp.expand(exprs(np.array(f.s_std(), dtype=object))[0] ** 2)],
              [sp.expand(exprs(f.var().asnumpy())[0])] * 2)
    if not cplx:
        all_equal(chk, f"{pre}: norm(2)**2 == sum f^2", [sp.expand(exprs(np.array(f.norm(2), dtype=object))[0] ** 2)], [sp.expand(sum(a * a for a in A.ravel()))])
        all_equal(chk, f"{pre}: norm(1) == sum |f|", exprs(np.array(f.norm(1), dtype=object)), [sum(sp.Abs(a) for a in A.ravel())])
    # element-wise structure
    all_equal(chk, f"{pre}: conjugate / real / imag are element-wise", exprs(f.conjugate().asnumpy()) + exprs(f.real.asnumpy()) + (exprs(f.imag.asnumpy()) if cplx else []),
              [sp.conjugate(a) for a in A.ravel()] + [sp.re(a) for a in A.ravel()] + ([sp.im(a) for a in A.ravel()] if cplx else []))
    c = sp.Rational(3, 2)
    for opn, fn in (("+", lambda x, y: x + y), ("-", lambda x, y: x - y), ("*", lambda x, y: x * y), ("/", lambda x, y: x / y)):
        all_equal(chk, f"{pre}: f {opn} g, f {opn} 1.5, 1.5 {opn} f are element-wise", exprs(fn(f, g).asnumpy()) + exprs(fn(f, 1.5).asnumpy()) + exprs(fn(1.5, f).asnumpy()),
                  [fn(a, b) for a, b in zip(A.ravel(), B.ravel())] + [fn(a, c) for a in A.ravel()] + [fn(c, a) for a in A.ravel()])
    all_equal(chk, f"{pre}: -f, f**2, f**g, abs(f)**2", exprs((-f).asnumpy()) + exprs((f ** 2).asnumpy()) + ([] if cplx else exprs((abs(f) ** g).asnumpy()))
              + [sp.expand(e ** 2) for e in exprs(abs(f).asnumpy())],
              [-a for a in A.ravel()] + [a ** 2 for a in A.ravel()] + ([] if cplx else [sp.Abs(a) ** b for a, b in zip(A.ravel(), B.ravel())])
              + [_abs2(a) for a in A.ravel()])
    if len(dt) == 1:
        other = ift.DomainTuple.make(ift.UnstructuredDomain(2))
        h, hs = sym_field(ift, other, "h", real=True)
        all_equal(chk, f"{pre}: outer(h)[i, j] == f[i] * h[j]", exprs(f.outer(h).asnumpy()), [a * b for a in A.ravel() for b in hs])


def sec_contractions_real(chk):
    import nifty.cl as ift
    from nifty.cl.field import Field
    for m in ("weight", "vdot", "_contraction_helper", "integrate", "mean", "var", "std", "sum", "prod", "outer", "conjugate", "_binary_op", "s_vdot",
              "s_var", "s_std", "s_mean", "s_integrate", "norm", "total_volume", "scalar_weight"):
        chk.under_contract(getattr(Field, m))
    with objx.patched():
        for name, doms in _domains(ift, chk.tier).items():
            _contractions(chk, ift, name, ift.DomainTuple.make(doms), False)


def sec_contractions_complex(chk):
    import nifty.cl as ift
    with objx.patched(complex_objects=True):
        D = _domains(ift, chk.tier)
        for name in (list(D) if chk.tier == "thorough" else ["RG(2)", "GL(2) x RG(2)", "U(3) x Power(3)"]):
            _contractions(chk, ift, name, ift.DomainTuple.make(D[name]), True)


def sec_multifield(chk):
    import nifty.cl as ift
    from nifty.cl.multi_field import MultiField
    for m in ("_binary_op", "s_vdot", "vdot", "norm", "s_sum", "conjugate", "flexible_addsub", "unite", "extract_by_keys"):
        chk.under_contract(getattr(MultiField, m))
    with objx.patched(complex_objects=True):
        d1 = ift.DomainTuple.make(ift.RGSpace(2, distances=0.5))
        d2 = ift.DomainTuple.make((ift.GLSpace(2), ift.UnstructuredDomain(2)))
        md = ift.MultiDomain.make({"p": d1, "q": d2})

        def mk(nm):
            out, sy = {}, {}
            for k in ("p", "q"):
                r, rs = sym_field(ift, md[k], f"{nm}{k}r", real=True)
                i, is_ = sym_field(ift, md[k], f"{nm}{k}i", real=True)
                n = len(rs)
                arr = np.empty(n, dtype=object)
                for j in range(n):
                    arr[j] = SX(rs[j] + sp.I * is_[j])
                out[k] = ift.Field(md[k], arr.reshape(md[k].shape))
                sy[k] = [rs[j] + sp.I * is_[j] for j in range(n)]
            return ift.MultiField.from_dict(out), sy
        F, fs = mk("f")
        G, gs = mk("g")
        flatF = fs["p"] + fs["q"]
        flatG = gs["p"] + gs["q"]

        def fl(m):
            return exprs(m["p"].asnumpy()) + exprs(m["q"].asnumpy())
        c = sp.Rational(3, 2)
        for opn, fn in (("+", lambda x, y: x + y), ("-", lambda x, y: x - y), ("*", lambda x, y: x * y), ("/", lambda x, y: x / y)):
            all_equal(chk, f"multifield: F {opn} G, F {opn} 1.5, 1.5 {opn} F act per key, element-wise", fl(fn(F, G)) + fl(fn(F, 1.5)) + fl(fn(1.5, F)),
                      [fn(a, b) for a, b in zip(flatF, flatG)] + [fn(a, c) for a in flatF] + [fn(c, a) for a in flatF])
        all_equal(chk, "multifield: -F, conjugate, abs**2, F**2", fl(-F) + fl(F.conjugate()) + [sp.expand(e ** 2) for e in fl(abs(F))] + fl(F ** 2),
                  [-a for a in flatF] + [sp.conjugate(a) for a in flatF] + [_abs2(a) for a in flatF] + [a ** 2 for a in flatF])
        all_equal(chk, "multifield: s_vdot / vdot == sum over keys of conj(F)*G (conjugate-linear in the first argument)",
                  [sp.expand(sp.sympify(exprs(np.array(F.s_vdot(G), dtype=object))[0])), sp.expand(exprs(F.vdot(G).asnumpy())[0])],
                  [sp.expand(sum(sp.conjugate(a) * b for a, b in zip(flatF, flatG)))] * 2)
        all_equal(chk, "multifield: s_sum == sum over all keys and pixels", exprs(np.array(F.s_sum(), dtype=object)), [sum(flatF)])
        chk.obligation("multifield: size == total number of pixels", "discharged" if F.size == len(flatF) else "refuted", backend="native")
        # unite / flexible_addsub on partially overlapping domains
        H = ift.MultiField.from_dict({"q": G["q"], "r": F["p"]})
        U = F.unite(H)
        ok = set(U.keys()) == {"p", "q", "r"}
        chk.obligation("multifield: unite lives on the union of the keys", "discharged" if ok else "refuted", backend="identity")
        if ok:
            all_equal(chk, "multifield: unite adds common keys and copies the others", exprs(U["p"].asnumpy()) + exprs(U["q"].asnumpy()) + exprs(U["r"].asnumpy()),
                      fs["p"] + [a + b for a, b in zip(fs["q"], gs["q"])] + fs["p"])
            V = F.flexible_addsub(H, True)
            all_equal(chk, "multifield: flexible_addsub(neg=True) subtracts common keys and negates the new ones",
                      exprs(V["p"].asnumpy()) + exprs(V["q"].asnumpy()) + exprs(V["r"].asnumpy()),
                      fs["p"] + [a - b for a, b in zip(fs["q"], gs["q"])] + [-a for a in fs["p"]])
    # real multi-field norms (symbolic): ord 1 and 2 combine the per-key norms
    with objx.patched():
        out, sy = {}, []
        for k in ("p", "q"):
            out[k], s_ = sym_field(ift, md[k], f"n{k}", real=True)
            sy += s_
        M = ift.MultiField.from_dict(out)
        all_equal(chk, "multifield: norm(2)**2 == sum of squares over all keys", [sp.expand(sp.sympify(exprs(np.array(M.norm(2), dtype=object))[0]) ** 2)],
                  [sp.expand(sum(a * a for a in sy))])
        all_equal(chk, "multifield: norm(1) == sum of moduli over all keys", [sp.sympify(exprs(np.array(M.norm(1), dtype=object))[0])], [sum(sp.Abs(a) for a in sy)])


def sec_rejections(chk):
    import operator

    import nifty.cl as ift
    d1 = ift.DomainTuple.make(ift.RGSpace(3, distances=0.5))
    d2 = ift.DomainTuple.make(ift.RGSpace(3, distances=0.25))      # same shape, different domain
    f, g = ift.full(d1, 2.), ift.full(d2, 3.)
    m1 = ift.MultiField.from_dict({"a": f})
    m2 = ift.MultiField.from_dict({"a": g})
    m3 = ift.MultiField.from_dict({"b": f})
    ops = dict(add=operator.add, sub=operator.sub, mul=operator.mul, truediv=operator.truediv, pow=operator.pow, floordiv=operator.floordiv,
               lt=operator.lt, le=operator.le, gt=operator.gt, ge=operator.ge, eq=operator.eq, ne=operator.ne)
    for nm, fn in ops.items():
        for what, x, y in (("Field", f, g), ("MultiField (same keys, different sub-domain)", m1, m2), ("MultiField (different keys)", m1, m3)):
            try:
                fn(x, y)
                ok = False
            except ValueError:
                ok = True
            chk.obligation(f"rejections: {what}: operator '{nm}' with an operand on a different domain raises", "discharged" if ok else "refuted",
                           backend="native", detail="" if ok else "no exception", model=dict(op=nm, kind=what))
    for nm, call in (("Field.vdot", lambda: f.vdot(g)), ("Field.s_vdot", lambda: f.s_vdot(g)), ("Field.vdot(spaces=0)", lambda: f.vdot(g, 0)),
                     ("MultiField.s_vdot", lambda: m1.s_vdot(m2)), ("MultiField.vdot", lambda: m1.vdot(m3))):
        try:
            call()
            ok = False
        except ValueError:
            ok = True
        chk.obligation(f"rejections: {nm} with a partner on a different domain raises", "discharged" if ok else "refuted", backend="native")
    for nm, call in (("bool(Field)", lambda: bool(f)), ("Field.vdot(non-field)", lambda: f.vdot(np.ones(3))), ("Field.outer(non-field)", lambda: f.outer(3.))):
        try:
            call()
            ok = False
        except (TypeError, ValueError):
            ok = True
        chk.obligation(f"rejections: {nm} raises", "discharged" if ok else "refuted", backend="native")


def sec_native(chk):
    """bounded: the parts that cannot run on symbols -- ord=inf, integer/float32 dtypes, comparisons, clip, the ducc vdot path"""
    import nifty.cl as ift
    rng = np.random.default_rng(100 + chk.seed)
    fails, cases = [], 0
    doms = [ift.DomainTuple.make(ift.RGSpace((3, 4), distances=(0.5, 2.))), ift.DomainTuple.make((ift.GLSpace(3), ift.UnstructuredDomain(2))),
            ift.DomainTuple.make((ift.UnstructuredDomain(2), ift.PowerSpace(ift.RGSpace(6, harmonic=True))))]
    for dt in doms:
        for dtype in (np.float64, np.complex128, np.int64, np.float32):
            for rep in range(3 if chk.tier == "quick" else 10):
                cases += 1
                if np.issubdtype(dtype, np.integer):
                    a, b = rng.integers(-5, 6, dt.shape), rng.integers(1, 6, dt.shape)
                elif np.issubdtype(dtype, np.complexfloating):
                    a, b = rng.normal(size=dt.shape) + 1j * rng.normal(size=dt.shape), rng.normal(size=dt.shape) + 1j * rng.normal(size=dt.shape)
                else:
                    a, b = rng.normal(size=dt.shape).astype(dtype), (rng.normal(size=dt.shape) + 3).astype(dtype)
                f, g = ift.makeField(dt, a), ift.makeField(dt, b)
                tol = 1e-5 if dtype == np.float32 else 1e-13

                def cmp(what, got, want, exact=False):
                    got, want = np.asarray(got), np.asarray(want)
                    good = np.array_equal(got, want) if exact else np.allclose(got, want, rtol=tol, atol=tol)
                    if not good:
                        fails.append(dict(case=f"{what} on {dt.shape} {np.dtype(dtype).name}", detail=f"got {got.ravel()[:4]}, NumPy {want.ravel()[:4]}"))
                cmp("s_vdot", f.s_vdot(g), np.vdot(a, b))
                cmp("vdot", f.vdot(g).asnumpy(), np.vdot(a, b))
                for o in (1, 2, np.inf):
                    cmp(f"norm({o})", f.norm(o), np.linalg.norm(a.reshape(-1).astype(np.complex128 if np.iscomplexobj(a) else np.float64), ord=o))
                cmp("f+g", (f + g).asnumpy(), a + b, exact=True)
                cmp("f*g", (f * g).asnumpy(), a * b, exact=True)
                cmp("f-g", (f - g).asnumpy(), a - b, exact=True)
                cmp("f/g", (f / g).asnumpy(), a / b, exact=True)
                cmp("sum(0)", f.sum(0).asnumpy(), a.sum(axis=tuple(dt.axes[0])), exact=np.issubdtype(dtype, np.integer))
                if not np.iscomplexobj(a):
                    for nm, fn in (("<", np.less), ("<=", np.less_equal), (">", np.greater), (">=", np.greater_equal), ("==", np.equal), ("!=", np.not_equal)):
                        got = {"<": f < g, "<=": f <= g, ">": f > g, ">=": f >= g, "==": f == g, "!=": f != g}[nm]
                        cmp(f"comparison {nm}", got.asnumpy(), fn(a, b), exact=True)
                    if not np.issubdtype(dtype, np.integer):
                        cmp("clip(-0.5, 0.5)", f.clip(-0.5, 0.5).asnumpy(), np.clip(a, -0.5, 0.5), exact=True)
                        cmp("ptw clip with field bounds", f.clip(-abs(g), abs(g)).asnumpy(), np.clip(a, -abs(b), abs(b)), exact=True)
                mf, mg = ift.MultiField.from_dict({"x": f, "y": g}), ift.MultiField.from_dict({"x": g, "y": f})
                cmp("MultiField.s_vdot", mf.s_vdot(mg), np.vdot(a, b) + np.vdot(b, a))
                for o in (1, 2, np.inf):
                    flat = np.concatenate([a.reshape(-1), b.reshape(-1)]).astype(np.complex128 if np.iscomplexobj(a) else np.float64)
                    cmp(f"MultiField.norm({o})", mf.norm(o), np.linalg.norm(flat, ord=o))
    chk.bounded("native Field/MultiField operations against NumPy on generated arrays (dtypes float64, complex128, int64, float32)",
                bound=f"{cases} generated (domain, dtype, array) cases; exact equality for element-wise results, 1e-13 (1e-5 float32) for reductions",
                cases=cases, nontrivial=cases, failures=fails, samples=[dict(domain=str(doms[1].shape), dtype="complex128")], kind="B-runtime")


SECTIONS = [sec_contractions_real, sec_contractions_complex, sec_multifield, sec_rejections, sec_native]
