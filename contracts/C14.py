"""C14 Classic conjugate gradient solves positive definite systems.

Functions under contract (all from /repo's working tree, re-read every run):
  QuadraticEnergy.__init__/at/at_with_grad     (real class on abstract vectors)
  ConjugateGradient.__call__                    (re-compiled, loop cut with invariant)
  GradientNorm/GradInfNorm/DeltaEnergy/AbsDeltaEnergy/StochasticAbsDeltaEnergy controllers
  InversionEnabler.apply                        (real method, stubbed operator/CG contracts)
"""
import z3

from vf import symx
from vf.symx import Ctx, SymBool, SymInt, SymReal, fresh_int, fresh_real, implies, sand, sor, snot
from vf.vs import LinOp, Space, Vec

META = dict(
    title="Classic conjugate gradient solves positive definite systems",
    level="proof",
    design_ref="DESIGN.md section 4, C14",
    technique="deductive verification: sidecar contracts + loop invariant on the re-compiled real source, "
              "VCs over an abstract inner-product space discharged by z3",
    text="Every obligation is a verification condition generated from the current source of QuadraticEnergy, "
         "ConjugateGradient.__call__, the five iteration controllers and InversionEnabler.apply and discharged by z3 "
         "for all operators, right-hand sides, preconditioners, reset periods and iteration counts (loop invariant: "
         "the energy is consistent with its position and r is its gradient).",
    note="Assumes real arithmetic instead of floats (A-REAL: no rounding, np.isnan false), lemma L-PD "
         "(<r,Pr>=0 and P positive definite imply r=0), partial correctness (termination / convergence rate not "
         "claimed). InversionEnabler is checked against the CG contract, not its body.",
)

CONVERGED, CONTINUE, ERROR = 0, 1, 2


class _NP:
    inf = "inf"

    @staticmethod
    def isnan(x):
        return False  # A-REAL

    @staticmethod
    def sqrt(x):
        return x.sqrt()

    @staticmethod
    def abs(x):
        return abs(x)


class _Log:
    def error(self, *a, **k):
        pass

    warning = info = debug = error


def _mk():
    sp = Space(selfadjoint=["A", "P"])
    return sp, LinOp("A"), LinOp("P"), sp.atom("b")


def _spec_value(x, A, b):
    v = 0.5 * x.s_vdot(A(x)).real
    if b is not None:
        v = v - b.s_vdot(x).real
    return v


def _consistent(e, A, b):
    """the energy's value, gradient and (memoised) gradient norm belong to its position"""
    g = A(e.position) if b is None else A(e.position) - b
    ok = e.gradient.eq(g) & (e.value == _spec_value(e.position, A, b))
    if e._gradnorm is not None:     # Energy.gradient_norm returns the memoised value: it must be |gradient|
        n = e._gradnorm
        ok = ok & (n >= 0) & (n * n == g.s_vdot(g).real)
    return ok


# ---------------------------------------------------------------------------
def sec_quadratic_energy(chk):
    from nifty.cl.minimization.quadratic_energy import QuadraticEnergy
    from nifty.cl.minimization.energy import Energy
    chk.under_contract(QuadraticEnergy.__init__)
    chk.under_contract(QuadraticEnergy.at)
    chk.under_contract(QuadraticEnergy.at_with_grad)
    chk.under_contract(Energy.__init__)
    chk.assume("A-REAL: floats are real numbers")

    for with_b in (True, False):
        def run(ctx, with_b=with_b):
            sp, A, P, b = _mk()
            if not with_b:
                b = None
            x = sp.atom("x")
            e = QuadraticEnergy(x, A, b)
            ctx.prove(_consistent(e, A, b), "__init__: gradient == A x - b and value == 1/2<x,Ax> - <b,x>")
            ctx.prove(e.position.eq(x), "__init__: position stored")
            y = sp.atom("y")
            e2 = e.at(y)
            ctx.prove(_consistent(e2, A, b) & e2.position.eq(y), "at: consistent energy at the new position")
            ctx.prove(SymBool(z3.BoolVal(e2._A is A and e2._b is b)), "at: same operator and right-hand side")
            g = A(y) if b is None else A(y) - b   # requires: grad is the true residual
            e3 = e.at_with_grad(y, g)
            ctx.prove(_consistent(e3, A, b) & e3.position.eq(y),
                      "at_with_grad: consistent provided the passed gradient is the true residual")
            ctx.prove(SymBool(z3.BoolVal(e3._A is A and e3._b is b)), "at_with_grad: same operator and rhs")
            ctx.prove(e3.apply_metric(y).eq(A(y)), "apply_metric applies A")
            ctx.prove(SymBool(z3.BoolVal(e3.metric is A)), "metric is A")
        chk.explore(run, tag="b" if with_b else "b=None")


# ---------------------------------------------------------------------------
class _Ctl:
    """contract stub of an IterationController: any verdict, remembers what it judged"""
    CONVERGED, CONTINUE, ERROR = 0, 1, 2

    def __init__(self):
        self.calls = []

    def _st(self, energy):
        s = fresh_int("status")
        Ctx.cur.assume((s >= 0) & (s <= 2))
        self.calls.append((s, energy))
        return s

    start = check = _st


def sec_cg(chk):
    from nifty.cl.minimization.conjugate_gradient import ConjugateGradient
    from nifty.cl.minimization.quadratic_energy import QuadraticEnergy
    chk.assume("A-REAL: floats are real numbers; np.isnan(...) is False")
    chk.lemma("L-PD: <r, P r> = 0 with P positive definite implies r = 0 (so the gamma == 0 exit is a true solution)")
    chk.stub("IterationController.start/check: returns any of CONVERGED/CONTINUE/ERROR (verified per controller in section controllers)")
    chk.assume("A-TERM: termination of the CG loop is not verified")

    for prec in (False, True):
        sp, A, P, b = _mk()

        class V(symx.VC):
            def havoc(self):
                x = sp.fresh("x")
                d = sp.fresh("d")
                energy = QuadraticEnergy(x, A, b)
                Ctx.cur.prove(_consistent(energy, A, b), "loop0: havoc state satisfies the invariant")
                r = energy.gradient
                pg = fresh_real("previous_gamma")
                ii = fresh_int("ii")
                Ctx.cur.assume(pg != 0)
                return energy, r, d, pg, ii

            def inv(self, energy, r, previous_gamma):
                same = energy._A is A and energy._b is b
                return _consistent(energy, A, b) & r.eq(energy.gradient) & (previous_gamma != 0) & same

        loops = {0: dict(entry="__vc.inv(energy, r, previous_gamma)",
                         havoc="energy, r, d, previous_gamma, ii = __vc.havoc()",
                         inv="__vc.inv(energy, r, gamma)")}
        # at the loop tail the code has just assigned previous_gamma = gamma
        loops[0]["inv"] = "__vc.inv(energy, r, previous_gamma)"
        f = symx.extract(ConjugateGradient.__call__, loops=loops,
                         rebind={"np": _NP, "logger": _Log()}, vc=V())
        chk.under_contract(f)

        def run(ctx, prec=prec, f=f, sp=sp, A=A, P=P, b=b):
            ctl = _Ctl()
            cg = ConjugateGradient(ctl, nreset=fresh_int("nreset"))
            x0 = sp.atom("x0")
            e0 = QuadraticEnergy(x0, A, b)
            e, st = f(cg, e0, P if prec else None)
            ctx.prove(_consistent(e, A, b),
                      "returned energy is consistent with its position (gradient = A x - b, value = quadratic form)")
            judged = [s for s, en in ctl.calls if en is e]
            ctl_verdict = judged[-1] if judged else None
            by_ctl = SymBool(z3.BoolVal(False)) if ctl_verdict is None else (st == ctl_verdict)
            ctx.prove(sor(st == CONVERGED, st == ERROR, by_ctl),
                      "status is CONVERGED, ERROR or the controller's verdict on the returned energy")
            g = e.gradient
            pg = P(g) if prec else g
            zero_res = g.s_vdot(pg).real == 0
            conv_by_ctl = SymBool(z3.BoolVal(False)) if ctl_verdict is None else (ctl_verdict == CONVERGED)
            ctx.prove(implies(st == CONVERGED, sor(conv_by_ctl, zero_res)),
                      "CONVERGED only on the controller's verdict for this energy or with <r,Pr> = 0")
            ctx.prove(st != CONTINUE, "never returns CONTINUE")
            if ctl.calls and (ctl.calls[-1][1] is e):
                ctx.cover("controller judged returned energy")
        chk.explore(run, tag="preconditioned" if prec else "plain",
                    covers=["controller judged returned energy"])


# ---------------------------------------------------------------------------
class _E:
    """energy stub for controllers: arbitrary value / gradient norms"""

    def __init__(self):
        self.value = fresh_real("E")
        self.gradient_norm = fresh_real("gradnorm")
        Ctx.cur.assume(self.gradient_norm >= 0)
        inf = fresh_real("gradinfnorm")
        Ctx.cur.assume(inf >= 0)
        self._inf = inf

        class G:
            @staticmethod
            def norm(ord=None):
                return inf
        self.gradient = G()


def _opt(name, lo=None):
    """either None or a fresh real/int (forks)"""
    return None


def sec_controllers(chk):
    import nifty.cl.minimization.iteration_controllers as ic
    chk.assume("A-REAL: floats are real numbers (x/0 is an arbitrary real)")
    chk.note("class invariant: after start() or any CONTINUE verdict 0 <= _ccount < convergence_level (level >= 1)")

    def common_pre(c, level, limit):
        c._convergence_level = level
        c._iteration_limit = limit
        c._name = None
        c._history = None
        c._itcount = fresh_int("itcount")
        c._ccount = fresh_int("ccount")
        Ctx.cur.assume((level >= 1) & (c._ccount >= 0) & (c._ccount < level) & (c._itcount >= -1))

    def post(ctx, c, st, crit, limit, what):
        lim = SymBool(z3.BoolVal(False)) if limit is None else (c._itcount >= limit)
        ctx.prove(sor(st == CONVERGED, st == CONTINUE), f"{what}.check returns CONVERGED or CONTINUE")
        ctx.prove(implies(st == CONVERGED, sor(crit, lim)),
                  f"{what}.check: CONVERGED only if the criterion holds at this call or the iteration limit is reached")
        ctx.prove(implies(st == CONTINUE, (c._ccount >= 0) & (c._ccount < c._convergence_level)),
                  f"{what}.check: class invariant preserved on CONTINUE")
        if limit is not None:
            ctx.prove(implies(c._itcount >= limit, st == CONVERGED), f"{what}.check: stops at the iteration limit")

    for with_limit in (False, True):
        tag = "limit" if with_limit else "nolimit"

        def run_gn(ctx, with_limit=with_limit):
            c = ic.GradientNormController.__new__(ic.GradientNormController)
            level = fresh_int("level")
            limit = fresh_int("limit") if with_limit else None
            common_pre(c, level, limit)
            kind = len(ctx.taken)
            ta = fresh_real("tol_abs")
            tr = fresh_real("tol_rel_now")
            use_a = bool(symx.fresh_bool("use_abs"))
            use_r = bool(symx.fresh_bool("use_rel"))
            c._tol_abs_gradnorm = ta if use_a else None
            c._tol_rel_gradnorm = 1.0 if use_r else None
            c._tol_rel_gradnorm_now = tr
            e = _E()
            it0 = c._itcount
            st = c.check(e)
            crit = SymBool(z3.BoolVal(False))
            if use_a:
                crit = crit | (e.gradient_norm <= ta)
            if use_r:
                crit = crit | (e.gradient_norm <= tr)
            ctx.prove(c._itcount == it0 + 1, "GradientNormController.check counts the iteration")
            post(ctx, c, st, crit, limit, "GradientNormController")
        chk.explore(run_gn, tag=f"GradientNorm/{tag}")

        def run_start_gn(ctx, with_limit=with_limit):
            c = ic.GradientNormController(tol_abs_gradnorm=fresh_real("ta"), tol_rel_gradnorm=fresh_real("tr"),
                                          convergence_level=fresh_int("level"),
                                          iteration_limit=fresh_int("limit") if with_limit else None)
            Ctx.cur.assume(c._convergence_level >= 1)
            e = _E()
            st = c.start(e)
            ctx.prove(c._tol_rel_gradnorm_now == c._tol_rel_gradnorm * e.gradient_norm,
                      "GradientNormController.start: relative tolerance is scaled by the initial gradient norm")
            ctx.prove(c._itcount == 0, "GradientNormController.start: iteration counter is 0 after start")
            ctx.prove(implies(st == CONTINUE, (c._ccount >= 0) & (c._ccount < c._convergence_level)),
                      "GradientNormController.start establishes the class invariant")
        chk.explore(run_start_gn, tag=f"GradientNorm.start/{tag}")

        def run_inf(ctx, with_limit=with_limit):
            c = ic.GradInfNormController.__new__(ic.GradInfNormController)
            level = fresh_int("level")
            limit = fresh_int("limit") if with_limit else None
            common_pre(c, level, limit)
            c._tol = fresh_real("tol")
            e = _E()
            st = c.check(e)
            av = abs(e.value)
            crit = (e._inf / av) <= c._tol
            post(ctx, c, st, crit, limit, "GradInfNormController")
        chk.explore(run_inf, tag=f"GradInfNorm/{tag}")

        for cls, kind in ((ic.DeltaEnergyController, "rel"), (ic.AbsDeltaEnergyController, "abs")):
            def run_de(ctx, with_limit=with_limit, cls=cls, kind=kind):
                c = cls.__new__(cls)
                level = fresh_int("level")
                limit = fresh_int("limit") if with_limit else None
                common_pre(c, level, limit)
                tol = fresh_real("tol")
                if kind == "rel":
                    c._tol_rel_deltaE = tol
                else:
                    c._deltaE = tol
                eold = fresh_real("Eold")
                c._Eold = eold
                e = _E()
                it0 = c._itcount
                st = c.check(e)
                diff = abs(eold - e.value)
                if kind == "rel":
                    a, b2 = abs(eold), abs(e.value)
                    m = symx.ite(a >= b2, a, b2)
                    crit = ((diff / m) < tol) & (it0 + 1 > 0)
                else:
                    crit = (diff < tol) & (it0 + 1 > 0)
                ctx.prove(c._Eold == e.value, f"{cls.__name__}.check remembers the energy for the next call")
                post(ctx, c, st, crit, limit, cls.__name__)
            chk.explore(run_de, tag=f"{cls.__name__}/{tag}")

        def run_start_de(ctx, with_limit=with_limit):
            for cls in (ic.DeltaEnergyController, ic.AbsDeltaEnergyController):
                c = cls(fresh_real("tol"), convergence_level=fresh_int("level"),
                        iteration_limit=fresh_int("limit") if with_limit else None)
                Ctx.cur.assume(c._convergence_level >= 1)
                e = _E()
                st = c.start(e)
                ctx.prove(c._itcount == 0, f"{cls.__name__}.start: iteration counter is 0 after start")
                ctx.prove(c._ccount == 0, f"{cls.__name__}.start: the first call never counts as converged step")
                lim = SymBool(z3.BoolVal(False)) if c._iteration_limit is None else (c._iteration_limit <= 0)
                ctx.prove(implies(st == CONVERGED, lim),
                          f"{cls.__name__}.start: CONVERGED at start only through the iteration limit")
        chk.explore(run_start_de, tag=f"DeltaEnergy.start/{tag}")

    # StochasticAbsDeltaEnergyController: np.std over a concrete-length memory (enumerated lengths 0..3),
    # std treated as an abstract non-negative real of the memory
    def run_st(ctx):
        c = ic.StochasticAbsDeltaEnergyController.__new__(ic.StochasticAbsDeltaEnergyController)
        level = fresh_int("level")
        limit = fresh_int("limit")
        common_pre(c, level, limit)
        c._deltaE = fresh_real("deltaE")
        c.memory_length = 2
        n = 0
        for k in (1, 2):
            if bool(symx.fresh_bool(f"mem{k}")):
                n = k
        c._memory = [fresh_real(f"m{i}") for i in range(n)]
        seen = {}

        class NPX:
            @staticmethod
            def std(lst):
                s = fresh_real("std")
                Ctx.cur.assume(s >= 0)
                seen["std"] = (s, list(lst))
                return s
        f = symx.extract(ic.StochasticAbsDeltaEnergyController.check, rebind={"np": NPX, "logger": _Log()})
        e = _E()
        it0 = c._itcount
        st = f(c, e)
        s, lst = seen["std"]
        ctx.prove(SymBool(z3.BoolVal(len(lst) == min(n + 1, 2) and lst[-1] is e.value)),
                  "Stochastic controller: the statistic is taken over the last memory_length energies incl. the current one")
        crit = (s < c._deltaE) & (it0 + 1 > 0)
        post(ctx, c, st, crit, limit, "StochasticAbsDeltaEnergyController")
    chk.explore(run_st, tag="StochasticAbsDeltaEnergy")
    for cls in (ic.GradientNormController, ic.GradInfNormController, ic.DeltaEnergyController,
                ic.AbsDeltaEnergyController, ic.StochasticAbsDeltaEnergyController):
        chk.under_contract(cls.check)
        chk.under_contract(cls.start)


# ---------------------------------------------------------------------------
def sec_inversion_enabler(chk):
    """Real InversionEnabler.apply, for every (capability, mode): exhaustive over the finite
    mode/capability domain, symbolic in the vectors.  Operators are ghost 'act(M, i)' with
    i in Z2xZ2 (bit0 adjoint, bit1 inverse); CG is its contract (section cg)."""
    import nifty.cl.operators.inversion_enabler as ie
    from nifty.cl.operators.linear_operator import LinearOperator
    chk.stub("ConjugateGradient.__call__: returns a consistent QuadraticEnergy for the same A and b (proved in section cg)")
    chk.stub("wrapped operator: apply(x, mode) == act(M, mode) x; _flip_modes(t) == the operator with transformation t (C01)")
    ilog = LinearOperator._ilog

    class Op:
        """contract stub of a linear operator M under transformation t"""

        def __init__(self, name, t, cap, sp):
            self.name, self.t, self.capability, self.sp = name, t, cap, sp
            self.domain = self.target = "DOM"

        def apply(self, x, mode):
            i = ilog[mode] ^ self.t
            return LinOp(f"{self.name}^{i}")(x)

        def __call__(self, x):
            return self.apply(x, 1)

        def _flip_modes(self, trafo):
            return Op(self.name, self.t ^ trafo, LinearOperator._capTable[trafo][self.capability], self.sp)

    class Rec:
        pass

    for cap in range(16):
        for mode in (1, 2, 4, 8):
            for with_prec in (False, True):
                def run(ctx, cap=cap, mode=mode, with_prec=with_prec):
                    sp = Space()
                    x = sp.atom("x")
                    M = Op("M", 0, cap, sp)
                    Pa = Op("Papprox", 0, 15, sp) if with_prec else None
                    rec = Rec()
                    rec.called = False

                    class CGStub:
                        def __init__(self, ctl):
                            rec.ctl = ctl

                        def __call__(self, energy, preconditioner=None):
                            rec.called = True
                            rec.energy, rec.prec = energy, preconditioner
                            rec.res = sp.fresh("solution")
                            return energy.at(rec.res), fresh_int("stat")
                    f = symx.extract(ie.InversionEnabler.apply,
                                     rebind={"ConjugateGradient": CGStub, "logger": _Log(),
                                             "full": lambda dom, val: sp.zero()})
                    obj = ie.InversionEnabler.__new__(ie.InversionEnabler)
                    obj._op, obj._ic, obj._approximation, obj._domain = M, "IC", Pa, "DOM"
                    obj._capability = LinearOperator._addInverse[cap]
                    try:
                        out = f(obj, x, mode)
                    except NotImplementedError:
                        ctx.prove(SymBool(z3.BoolVal((LinearOperator._addInverse[cap] & mode) == 0)),
                                  "refuses exactly the modes it does not advertise")
                        return
                    i = ilog[mode]
                    if cap & mode:
                        ctx.prove(SymBool(z3.BoolVal(not rec.called)) & out.eq(LinOp(f"M^{i}")(x)),
                                  "available modes pass through to the wrapped operator")
                        return
                    e = rec.energy
                    y = sp.atom("y")
                    ctx.prove(e._A(y).eq(LinOp(f"M^{i ^ 2}")(y)),
                              "numerical inversion solves act(M, inverse of requested mode) r = x")
                    ctx.prove(e._b.eq(x) & e.position.is_zero(), "right-hand side is the input, start at 0")
                    if with_prec:
                        ctx.prove(rec.prec(y).eq(LinOp(f"Papprox^{i}")(y)),
                                  "preconditioner approximates the requested mode (inverse of the system matrix)")
                    else:
                        ctx.prove(SymBool(z3.BoolVal(rec.prec is None)), "no preconditioner without approximation")
                    ctx.prove(SymBool(z3.BoolVal(rec.ctl == "IC")), "uses the configured iteration controller")
                    # with the CG contract: gradient of the result is A r - x; the returned vector is r
                    ctx.prove(out.eq(rec.res), "returns the position of the CG result")
                chk.explore(run, tag="prec" if with_prec else "noprec")
    chk.under_contract(ie.InversionEnabler.apply)
    chk.under_contract(ie.InversionEnabler.__init__)


SECTIONS = [sec_quadratic_energy, sec_cg, sec_controllers, sec_inversion_enabler]
